import RbV.Lemmas.MyersBlock
/-!
The block-based Myers matcher with all blocks active (C09 [C], partial): the carry chain of `advance_block` over the
blocks of a column computes the next Sellers column; for `k ≥ |p|` (every block is active from the start and never
switched off) the mirror model of `long::Myers::find_all_end` returns exactly the Sellers hits.  Core Lean only.
-/
namespace RbV.Model.MyersLong
open RbV.EditDist RbV.Model.MyersSimple
open RbV.Model.Ukkonen (cell cell_zero cell_nil cell_succ expFrom expFrom_eq_hitsFrom)

theorem EncB.congr {w : Nat} {n : Nat} {D D' : Nat → Int} {pv mv : BitVec w}
    (h : ∀ i, i ≤ n → D i = D' i) (enc : EncB n D pv mv) : EncB n D' pv mv := by
  refine ⟨?_, ?_, ?_⟩
  · intro i hi; rw [← h (i + 1) (by omega), ← h i (by omega)]; exact enc.diff i hi
  · intro i hi; rw [← h (i + 1) (by omega), ← h i (by omega)]; exact enc.pvb i hi
  · intro i hi; rw [← h (i + 1) (by omega), ← h i (by omega)]; exact enc.mvb i hi

/-- the block-local recursion is the global one on the rows of the block -/
theorem nextCB_eq (C : Nat → Int) (e e' : Nat → Bool) (r0 n : Nat) (he : ∀ i, i < n → e' i = e (r0 + i)) :
    ∀ i, i ≤ n → nextCB (fun i => C (r0 + i)) e' (nextC C e r0) i = nextC C e (r0 + i) := by
  intro i
  induction i with
  | zero => intro _; rfl
  | succ i ih =>
    intro hi
    have : nextC C e (r0 + (i + 1)) =
        min (min (C (r0 + i + 1) + 1) (nextC C e (r0 + i) + 1)) (C (r0 + i) + (if e (r0 + i) then 0 else 1)) := rfl
    rw [this]
    simp only [nextCB]
    rw [ih (by omega), he i (by omega)]
    rfl

/-- the active blocks `sts` (a prefix of the blocks `blks`, starting at row `r0`) encode the column `C` -/
def ColEnc {w : Nat} (C : Nat → Int) : Nat → List (List Nat) → List (St w) → Prop
  | _, _, [] => True
  | _, [], _ :: _ => False
  | r0, blk :: blks, s :: ss =>
    1 ≤ blk.length ∧ blk.length ≤ w ∧ EncB blk.length (fun i => C (r0 + i)) s.pv s.mv ∧
    (s.dist : Int) = C (r0 + blk.length) ∧ ColEnc C (r0 + blk.length) blks ss

/-- the match bits of text symbol `a`, block by block -/
def BitsOK (eqv : Nat → Nat → Bool) (a : Nat) (e : Nat → Bool) : Nat → List (List Nat) → Prop
  | _, [] => True
  | r0, blk :: blks => (∀ i, (hi : i < blk.length) → e (r0 + i) = eqv blk[i] a) ∧ BitsOK eqv a e (r0 + blk.length) blks

/-- rows covered by the first `n` blocks -/
def rows : Nat → List (List Nat) → Nat
  | 0, _ => 0
  | _, [] => 0
  | n + 1, blk :: blks => blk.length + rows n blks

theorem advanceAll_enc {w : Nat} (eqv : Nat → Nat → Bool) (a : Nat) (C : Nat → Int) (e : Nat → Bool)
    (hnn : ∀ r, 0 ≤ nextC C e r) :
    ∀ (blks : List (List Nat)) (sts : List (St w)) (r0 : Nat) (hin : Int),
      ColEnc C r0 blks sts → BitsOK eqv a e r0 blks → -1 ≤ hin ∧ hin ≤ 1 → nextC C e r0 - C r0 = hin →
      ColEnc (nextC C e) r0 blks (advanceAll eqv a blks sts hin).1 ∧
      (advanceAll eqv a blks sts hin).1.length = sts.length ∧
      (advanceAll eqv a blks sts hin).2 = nextC C e (r0 + rows sts.length blks) - C (r0 + rows sts.length blks) ∧
      (-1 ≤ (advanceAll eqv a blks sts hin).2 ∧ (advanceAll eqv a blks sts hin).2 ≤ 1) := by
  intro blks
  induction blks with
  | nil =>
    intro sts r0 hin hc _ hh hb
    cases sts with
    | nil => simp [advanceAll, ColEnc, rows, hb, hh]
    | cons s ss => simp [ColEnc] at hc
  | cons blk blks ih =>
    intro sts r0 hin hc hbits hh hb
    cases sts with
    | nil => simp [advanceAll, ColEnc, rows, hb, hh]
    | cons s ss =>
      obtain ⟨hl1, hlw, henc, hdist, hrest⟩ := hc
      obtain ⟨hb1, hb2⟩ := hbits
      have hbnd : blk.length - 1 + 1 = blk.length := by omega
      have hpe : ∀ i, i < blk.length → (peq w eqv blk a).getLsbD i = e (r0 + i) := by
        intro i hi
        rw [peq_bit w eqv blk a i hi hlw, hb1 i hi]
      have hloc := nextCB_eq C e (peq w eqv blk a).getLsbD r0 blk.length hpe
      have key := advanceBlock_enc (blk.length - 1) (by omega) (fun i => C (r0 + i)) (peq w eqv blk a) s
        (nextC C e r0) hin hh (by simpa using hb) (by rw [hbnd]; exact henc) (by rw [hbnd]; simpa using hdist)
        (by rw [hbnd, hloc _ (Nat.le_refl _)]; exact hnn _)
      rw [hbnd] at key
      obtain ⟨k1, k2, k3⟩ := key
      rw [hloc _ (Nat.le_refl _)] at k2 k3
      -- range of the outgoing difference
      have hrange : -1 ≤ nextC C e (r0 + blk.length) - C (r0 + blk.length) ∧
          nextC C e (r0 + blk.length) - C (r0 + blk.length) ≤ 1 := by
        have := horizB blk.length hlw (fun i => C (r0 + i)) (peq w eqv blk a) s.pv s.mv (nextC C e r0) hin hh
          (by simpa using hb) henc (blk.length - 1) (by omega)
        rw [hbnd, hloc _ (Nat.le_refl _)] at this
        exact ⟨this.1, this.2.1⟩
      have ih' := ih ss (r0 + blk.length) (advanceBlock (blk.length - 1) (peq w eqv blk a) hin s).2 hrest hb2
        (by rw [k3]; exact hrange) (by rw [k3])
      obtain ⟨i1, i2, i3, i4⟩ := ih'
      simp only [advanceAll, List.length_cons, rows]
      refine ⟨⟨hl1, hlw, EncB.congr hloc k1, k2, i1⟩, by rw [i2], ?_, i4⟩
      rw [i3]
      simp only [Nat.add_assoc]

/-! ### the blocks of a pattern -/

theorem chunks_spec (w : Nat) (hw : 1 ≤ w) : ∀ (fuel : Nat) (p : List Nat), 1 ≤ p.length → p.length ≤ fuel →
    (chunks w fuel p).flatten = p ∧ (∀ blk, blk ∈ chunks w fuel p → 1 ≤ blk.length ∧ blk.length ≤ w) ∧
    (chunks w fuel p).length ≤ (p.length + w - 1) / w ∧ 1 ≤ (chunks w fuel p).length := by
  intro fuel
  induction fuel with
  | zero => intro p h1 h2; omega
  | succ fuel ih =>
    intro p h1 h2
    simp only [chunks]
    by_cases hle : p.length ≤ w
    · simp only [hle, if_true]
      refine ⟨by simp, ?_, ?_, by simp⟩
      · intro blk hb; simp at hb; subst hb; exact ⟨h1, hle⟩
      · simp only [List.length_cons, List.length_nil]
        have : w ≤ p.length + w - 1 := by omega
        exact (Nat.le_div_iff_mul_le (by omega)).mpr (by omega)
    · simp only [hle, if_false]
      have hd : (p.drop w).length = p.length - w := by simp
      obtain ⟨i1, i2, i3, i4⟩ := ih (p.drop w) (by omega) (by omega)
      refine ⟨?_, ?_, ?_, by simp⟩
      · simp only [List.flatten_cons, i1, List.take_append_drop]
      · intro blk hb
        simp only [List.mem_cons] at hb
        rcases hb with rfl | hb
        · simp; omega
        · exact i2 blk hb
      · simp only [List.length_cons]
        rw [hd] at i3
        have e : p.length + w - 1 = (p.length - w + w - 1) + w := by omega
        rw [e, Nat.add_div_right _ (by omega)]
        omega

/-! ### match bits and column encodings along the blocks -/

/-- global match bits of text symbol `a` -/
def matchBits (eqv : Nat → Nat → Bool) (p : List Nat) (a : Nat) (r : Nat) : Bool :=
  match p[r]? with
  | some x => eqv x a
  | none => false

theorem bitsOK_flatten (eqv : Nat → Nat → Bool) (a : Nat) : ∀ (blks : List (List Nat)) (pre : List Nat),
    BitsOK eqv a (matchBits eqv (pre ++ blks.flatten) a) pre.length blks := by
  intro blks
  induction blks with
  | nil => intro pre; simp [BitsOK]
  | cons blk blks ih =>
    intro pre
    refine ⟨?_, ?_⟩
    · intro i hi
      unfold matchBits
      simp only [List.flatten_cons]
      rw [List.getElem?_append_right (by omega)]
      simp only [Nat.add_sub_cancel_left]
      rw [List.getElem?_append_left hi]
      simp [hi]
    · have := ih (pre ++ blk)
      simp only [List.append_assoc, List.length_append] at this
      simpa using this

theorem rows_all : ∀ (blks : List (List Nat)), rows blks.length blks = blks.flatten.length := by
  intro blks
  induction blks with
  | nil => simp [rows]
  | cons blk blks ih => simp [rows, ih]

theorem ColEnc.congr {w : Nat} {C C' : Nat → Int} : ∀ (blks : List (List Nat)) (sts : List (St w)) (r0 : Nat),
    (∀ r, r ≤ r0 + rows sts.length blks → C r = C' r) → ColEnc C r0 blks sts → ColEnc C' r0 blks sts := by
  intro blks
  induction blks with
  | nil => intro sts r0 _ h; cases sts <;> simp_all [ColEnc]
  | cons blk blks ih =>
    intro sts r0 hc h
    cases sts with
    | nil => simp [ColEnc]
    | cons s ss =>
      obtain ⟨h1, h2, h3, h4, h5⟩ := h
      simp only [List.length_cons, rows] at hc
      refine ⟨h1, h2, EncB.congr (fun i hi => hc (r0 + i) (by omega)) h3, ?_, ?_⟩
      · rw [← hc (r0 + blk.length) (by omega)]; exact h4
      · exact ih ss (r0 + blk.length) (fun r hr => hc r (by omega)) h5

theorem ColEnc_last {w : Nat} {C : Nat → Int} : ∀ (blks : List (List Nat)) (sts : List (St w)) (r0 : Nat),
    ColEnc C r0 blks sts → sts ≠ [] →
    (((sts.getLast?.map (·.dist)).getD 0 : Nat) : Int) = C (r0 + rows sts.length blks) := by
  intro blks
  induction blks with
  | nil => intro sts r0 h hne; cases sts <;> simp_all [ColEnc]
  | cons blk blks ih =>
    intro sts r0 h hne
    cases sts with
    | nil => simp at hne
    | cons s ss =>
      obtain ⟨_, _, _, h4, h5⟩ := h
      cases ss with
      | nil => simp [rows, h4]
      | cons s2 ss2 =>
        have := ih (s2 :: ss2) (r0 + blk.length) h5 (by simp)
        simp only [List.length_cons, rows] at this ⊢
        rw [List.getLast?_cons_cons]
        rw [this]
        simp only [Nat.add_assoc]

theorem nextC_nonneg (C : Nat → Int) (e : Nat → Bool) (h : ∀ r, 0 ≤ C r) : ∀ r, 0 ≤ nextC C e r := by
  intro r
  induction r with
  | zero => simp [nextC]
  | succ r ih =>
    simp only [nextC]
    have := h (r + 1)
    have := h r
    split <;> omega

/-! ### all blocks active -/

theorem cutRev_id {w : Nat} (k ww : Nat) (l : List (St w))
    (h : ∀ s, l.head? = some s → s.dist < k + ww) : cutRev k ww l = l := by
  cases l with
  | nil => simp [cutRev]
  | cons s t =>
    cases t with
    | nil => simp [cutRev]
    | cons s2 t2 =>
      have := h s (by simp)
      simp only [cutRev]
      rw [if_neg (by omega)]

theorem initGo_all (w : Nat) : ∀ (blks : List (List Nat)) (n acc : Nat), blks.length ≤ n →
    (∀ blk, blk ∈ blks → 1 ≤ blk.length ∧ blk.length ≤ w) →
    ColEnc (fun r => (r : Int)) acc blks (initStates.go w n blks acc) ∧
    (initStates.go w n blks acc).length = blks.length := by
  intro blks
  induction blks with
  | nil => intro n acc _ _; cases n <;> simp [initStates.go, ColEnc]
  | cons blk blks ih =>
    intro n acc hn hb
    cases n with
    | zero => simp at hn
    | succ n =>
      simp only [initStates.go]
      obtain ⟨i1, i2⟩ := ih n (acc + blk.length) (by simpa using hn) (fun b hb' => hb b (by simp [hb']))
      have hbl := hb blk (by simp)
      refine ⟨⟨hbl.1, hbl.2, ⟨?_, ?_, ?_⟩, by simp, i1⟩, by simp [i2]⟩
      · intro i _; constructor <;> (simp only []; omega)
      · intro i hi
        have : i < w := by omega
        simp [this]; omega
      · intro i hi
        simp; omega

theorem cell_le (w : Nat → Nat → Nat) (p u : List Nat) (j : Nat) : cell w p u j ≤ p.length := by
  unfold cell
  have := fe_le w (p.take j).reverse u.reverse 0
  simp only [List.take_zero, ed_nil_right, List.length_reverse, List.length_take] at this
  omega

theorem stepStates_all {w : Nat} (eqv : Nat → Nat → Bool) (blks : List (List Nat)) (k a : Nat) (sts : List (St w))
    (hlen : sts.length = blks.length)
    (hlast : ∀ s, (advanceAll eqv a blks sts 0).1.getLast? = some s → s.dist < k + w) :
    stepStates eqv blks k a sts = (advanceAll eqv a blks sts 0).1 := by
  unfold stepStates
  have hd : decide (sts.length - 1 < blks.length - 1) = false := by simp; omega
  simp only [hd, Bool.and_false, Bool.false_and, Bool.false_eq_true, if_false]
  rw [cutRev_id k w _ (by intro s hs; rw [List.head?_reverse] at hs; exact hlast s hs), List.reverse_reverse]

/-- all blocks are active and encode the true column after the text prefix `u` -/
structure InvAll {w : Nat} (eqv : Nat → Nat → Bool) (p u : List Nat) (blks : List (List Nat)) (sts : List (St w)) : Prop where
  col : ColEnc (fun r => (cell (unitW eqv) p u r : Int)) 0 blks sts
  len : sts.length = blks.length

theorem invAll_step {w : Nat} (eqv : Nat → Nat → Bool) (p u : List Nat) (a k : Nat) (blks : List (List Nat))
    (sts : List (St w)) (hflat : blks.flatten = p) (hne : 1 ≤ blks.length) (hk : p.length ≤ k) (hw : 1 ≤ w)
    (inv : InvAll eqv p u blks sts) :
    InvAll eqv p (u ++ [a]) blks (stepStates eqv blks k a sts) ∧
    knownDist blks.length (stepStates eqv blks k a sts) = some (cell (unitW eqv) p (u ++ [a]) p.length) := by
  have hbits : BitsOK eqv a (matchBits eqv p a) 0 blks := by
    have := bitsOK_flatten eqv a blks []
    simpa [hflat] using this
  have hC0 : ∀ r, 0 ≤ (fun r => (cell (unitW eqv) p u r : Int)) r := by intro r; simp
  have key := advanceAll_enc eqv a (fun r => (cell (unitW eqv) p u r : Int)) (matchBits eqv p a)
    (nextC_nonneg _ _ hC0) blks sts 0 0 inv.col hbits (by omega) (by simp [nextC, cell_zero])
  obtain ⟨k1, k2, _, _⟩ := key
  have hrows : rows (advanceAll eqv a blks sts 0).1.length blks = p.length := by
    rw [k2, inv.len, rows_all, hflat]
  have he : ∀ i, (hi : i < p.length) → matchBits eqv p a i = eqv p[i] a := by
    intro i hi; simp [matchBits, hi]
  have hcell := nextC_cell eqv p u a (matchBits eqv p a) he
  have k1' : ColEnc (fun r => (cell (unitW eqv) p (u ++ [a]) r : Int)) 0 blks (advanceAll eqv a blks sts 0).1 :=
    ColEnc.congr blks _ 0 (fun r hr => hcell r (by rw [Nat.zero_add, hrows] at hr; exact hr)) k1
  have hnonempty : (advanceAll eqv a blks sts 0).1 ≠ [] := by
    intro h; rw [h] at k2; have := inv.len; simp at k2; omega
  have hlastv := ColEnc_last blks _ 0 k1' hnonempty
  rw [Nat.zero_add, hrows] at hlastv
  have hle := cell_le (unitW eqv) p (u ++ [a]) p.length
  have hst : stepStates eqv blks k a sts = (advanceAll eqv a blks sts 0).1 := by
    apply stepStates_all eqv blks k a sts inv.len
    intro s hs
    rw [hs] at hlastv
    simp only [Option.map_some, Option.getD_some] at hlastv
    have : s.dist = cell (unitW eqv) p (u ++ [a]) p.length := Int.ofNat_inj.mp hlastv
    omega
  rw [hst]
  refine ⟨⟨k1', by rw [k2, inv.len]⟩, ?_⟩
  unfold knownDist
  rw [if_pos (by rw [k2, inv.len])]
  cases hl : (advanceAll eqv a blks sts 0).1.getLast? with
  | none => rw [List.getLast?_eq_none_iff] at hl; exact absurd hl hnonempty
  | some s =>
    rw [hl] at hlastv
    simp only [Option.map_some, Option.getD_some] at hlastv
    have : s.dist = cell (unitW eqv) p (u ++ [a]) p.length := Int.ofNat_inj.mp hlastv
    simp [this]

theorem run_all {w : Nat} (eqv : Nat → Nat → Bool) (p : List Nat) (k : Nat) (blks : List (List Nat))
    (hflat : blks.flatten = p) (hne : 1 ≤ blks.length) (hk : p.length ≤ k) (hw : 1 ≤ w) :
    ∀ (t u : List Nat) (sts : List (St w)), InvAll eqv p u blks sts →
      run eqv blks k sts u.length t = expFrom (unitW eqv) p k u t := by
  intro t
  induction t with
  | nil => intro u sts _; simp [run, expFrom]
  | cons c t ih =>
    intro u sts inv
    obtain ⟨inv', hkd⟩ := invAll_step eqv p u c k blks sts hflat hne hk hw inv
    have ih' := ih (u ++ [c]) _ inv'
    simp only [List.length_append, List.length_cons, List.length_nil] at ih'
    simp only [run, expFrom, hkd, ih']

/-- **block-based Myers, all blocks active** (partial result for `long::Myers`): for `k ≥ |p|` the mirror model of
`long::Myers<T>::find_all_end` returns exactly the Sellers hits -/
theorem findAllEnd_eq_hits_allActive (w : Nat) (eqv : Nat → Nat → Bool) (p t : List Nat) (k : Nat)
    (hw : 1 ≤ w) (hp : 1 ≤ p.length) (hk : p.length ≤ k) :
    findAllEnd w eqv p t k = hits (unitW eqv) p t k := by
  obtain ⟨c1, c2, c3, c4⟩ := chunks_spec w hw p.length p hp (Nat.le_refl _)
  unfold findAllEnd hits
  simp only
  have hmin : (blocksOf w p).length ≤ max 1 ((min k p.length + w - 1) / w) := by
    have : min k p.length = p.length := by omega
    rw [this]
    unfold blocksOf
    omega
  obtain ⟨g1, g2⟩ := initGo_all w (blocksOf w p) _ 0 hmin c2
  have inv0 : InvAll eqv p [] (blocksOf w p) (initStates w (blocksOf w p) p.length k) := by
    refine ⟨?_, g2⟩
    apply ColEnc.congr (blocksOf w p) _ 0 _ g1
    intro r hr
    have hr' : r ≤ p.length := by
      have e1 : (initStates.go w (max 1 ((min k p.length + w - 1) / w)) (blocksOf w p) 0).length =
          (blocksOf w p).length := g2
      rw [e1, rows_all] at hr
      unfold blocksOf at hr
      rw [c1] at hr
      omega
    simp [cell_nil (unitW eqv) p r hr']
  have := run_all eqv p k (blocksOf w p) c1 c4 hk hw t [] _ inv0
  simp only [List.length_nil] at this
  rw [this, expFrom_eq_hitsFrom]
  simp

end RbV.Model.MyersLong
