import RbV.Lemmas.FillCells
/-!
Soundness side of the refinement proof of `Model/PairwiseFill.lean`, part 1: *witnesses*.

`Wit L i j v` says that the value `v` held by a cell of layer `L` at matrix position `(i, j)` is justified by a real
alignment: sub-ranges `x[xs..xe]`, `y[ys..ye]` and an operation list with score `c` such that
`v ≤ c + prefix clip penalties + the suffix clip penalties already charged`, where the alignment ends at the cell
(`xe = i`, `ye = j`) or — only in the last row / last column — before it, with the suffix clip charged
(`xe < i = m`, `ye < j = n`).  For the layers `I` / `D` the operation list ends with an insertion / deletion and the
alignment ends in that row / column (so that the gap can be extended for `gap_extend` only).

Every transition of the DP maps witnesses to witnesses (`wit_ins_open`, `wit_ins_ext`, `wit_del_open`, `wit_del_ext`,
`wit_diag`, `wit_xsuf`, `wit_ysuf`, chains of insertions / deletions); this needs `gap_open ≤ 0` (a path through a
clip re-opens a gap that the real alignment merely extends) and `yclip_suffix ≤ 0` (the code charges a zero-length
y-suffix clip in column `n`).
-/
namespace RbV.Model.PairwiseFill
open RbV.Align

section
variable (sc : Sc) (cl : Clip) (x y : List Nat)

/-- prefix clip penalties of an alignment starting at `(xs, ys)` -/
def pre (xs ys : Nat) : Int := (if 0 < xs then cl.xp else 0) + (if 0 < ys then cl.yp else 0)

def Wit (L : St) (i j : Nat) (v : Int) : Prop :=
  ∃ xs xe ys ye ops c, xs ≤ xe ∧ xe ≤ i ∧ i ≤ x.length ∧ ys ≤ ye ∧ ye ≤ j ∧ j ≤ y.length ∧
    (xe < i → i = x.length) ∧ (ye < j → j = y.length) ∧
    score sc .none (slice x xs xe) (slice y ys ye) ops = some c ∧
    v ≤ c + pre cl xs ys + (if xe < i then cl.xs else 0) + (if ye < j then cl.ys else 0) ∧
    (L = .ins → lastSt .none ops = .ins ∧ xe = i) ∧ (L = .del → lastSt .none ops = .del ∧ ye = j)

variable {sc cl x y}

theorem wit_mono {L : St} {i j : Nat} {v v' : Int} (h : Wit sc cl x y L i j v) (hv : v' ≤ v) :
    Wit sc cl x y L i j v' := by
  obtain ⟨xs, xe, ys, ye, ops, c, h1, h2, h3, h4, h5, h6, h7, h8, hsc, hle, hI, hD⟩ := h
  exact ⟨xs, xe, ys, ye, ops, c, h1, h2, h3, h4, h5, h6, h7, h8, hsc, by omega, hI, hD⟩

theorem wit_none {L : St} {i j : Nat} {v : Int} (h : Wit sc cl x y L i j v) : Wit sc cl x y .none i j v := by
  obtain ⟨xs, xe, ys, ye, ops, c, h1, h2, h3, h4, h5, h6, h7, h8, hsc, hle, _, _⟩ := h
  exact ⟨xs, xe, ys, ye, ops, c, h1, h2, h3, h4, h5, h6, h7, h8, hsc, hle, nofun, nofun⟩

/-- the empty alignment at `(i, j)`: clip both prefixes -/
theorem wit_pre {i j : Nat} (hi : i ≤ x.length) (hj : j ≤ y.length) : Wit sc cl x y .none i j (pre cl i j) := by
  refine ⟨i, i, j, j, [], 0, Nat.le_refl _, Nat.le_refl _, hi, Nat.le_refl _, Nat.le_refl _, hj, ?_, ?_, ?_, ?_, ?_, ?_⟩
  · intro h; omega
  · intro h; omega
  · simp [slice_self, score]
  · simp
  · intro h; cases h
  · intro h; cases h

theorem gapI_ge (sc : Sc) (hgo : sc.go ≤ 0) (st : St) : sc.go + sc.ge ≤ gapI sc st := by
  cases st <;> simp [gapI] <;> omega

theorem gapD_ge (sc : Sc) (hgo : sc.go ≤ 0) (st : St) : sc.go + sc.ge ≤ gapD sc st := by
  cases st <;> simp [gapD] <;> omega

theorem wit_ins_open (hgo : sc.go ≤ 0) {L : St} {i j : Nat} {v : Int} (h : Wit sc cl x y L i j v)
    (hi : i < x.length) : Wit sc cl x y .ins (i + 1) j (v + sc.go + sc.ge) := by
  obtain ⟨xs, xe, ys, ye, ops, c, h1, h2, h3, h4, h5, h6, h7, h8, hsc, hle, _, _⟩ := h
  have hxe : xe = i := by
    rcases Nat.lt_or_ge xe i with hlt | hge
    · have := h7 hlt; omega
    · omega
  subst hxe
  refine ⟨xs, xe + 1, ys, ye, ops ++ [.ins], c + gapI sc (lastSt .none ops), by omega, by omega, by omega,
    h4, h5, h6, by omega, h8, ?_, ?_, ?_, ?_⟩
  · rw [slice_succ x xs xe h1 hi]; exact score_snoc_ins sc _ _ ops c _ hsc
  · have := gapI_ge sc hgo (lastSt .none ops)
    simp only [Nat.lt_irrefl, if_false] at hle ⊢
    generalize (if ye < j then cl.ys else 0) = t at hle ⊢
    omega
  · intro _; exact ⟨lastSt_append_singleton _ _ _, rfl⟩
  · intro h; cases h

theorem wit_ins_ext {i j : Nat} {v : Int} (h : Wit sc cl x y .ins i j v)
    (hi : i < x.length) : Wit sc cl x y .ins (i + 1) j (v + sc.ge) := by
  obtain ⟨xs, xe, ys, ye, ops, c, h1, h2, h3, h4, h5, h6, h7, h8, hsc, hle, hI, _⟩ := h
  obtain ⟨hl, hxe⟩ := hI rfl
  subst hxe
  refine ⟨xs, xe + 1, ys, ye, ops ++ [.ins], c + gapI sc (lastSt .none ops), by omega, by omega, by omega,
    h4, h5, h6, by omega, h8, ?_, ?_, ?_, ?_⟩
  · rw [slice_succ x xs xe h1 hi]; exact score_snoc_ins sc _ _ ops c _ hsc
  · rw [hl]
    simp only [Nat.lt_irrefl, if_false, gapI] at hle ⊢
    generalize (if ye < j then cl.ys else 0) = t at hle ⊢
    omega
  · intro _; exact ⟨lastSt_append_singleton _ _ _, rfl⟩
  · intro h; cases h

theorem wit_del_open (hgo : sc.go ≤ 0) {L : St} {i j : Nat} {v : Int} (h : Wit sc cl x y L i j v)
    (hj : j < y.length) : Wit sc cl x y .del i (j + 1) (v + sc.go + sc.ge) := by
  obtain ⟨xs, xe, ys, ye, ops, c, h1, h2, h3, h4, h5, h6, h7, h8, hsc, hle, _, _⟩ := h
  have hye : ye = j := by
    rcases Nat.lt_or_ge ye j with hlt | hge
    · have := h8 hlt; omega
    · omega
  subst hye
  refine ⟨xs, xe, ys, ye + 1, ops ++ [.del], c + gapD sc (lastSt .none ops), h1, h2, h3, by omega, by omega, by omega,
    h7, by omega, ?_, ?_, ?_, ?_⟩
  · rw [slice_succ y ys ye h4 hj]; exact score_snoc_del sc _ _ ops c _ hsc
  · have := gapD_ge sc hgo (lastSt .none ops)
    simp only [Nat.lt_irrefl, if_false] at hle ⊢
    generalize (if xe < i then cl.xs else 0) = t at hle ⊢
    omega
  · intro h; cases h
  · intro _; exact ⟨lastSt_append_singleton _ _ _, rfl⟩

theorem wit_del_ext {i j : Nat} {v : Int} (h : Wit sc cl x y .del i j v)
    (hj : j < y.length) : Wit sc cl x y .del i (j + 1) (v + sc.ge) := by
  obtain ⟨xs, xe, ys, ye, ops, c, h1, h2, h3, h4, h5, h6, h7, h8, hsc, hle, _, hD⟩ := h
  obtain ⟨hl, hye⟩ := hD rfl
  subst hye
  refine ⟨xs, xe, ys, ye + 1, ops ++ [.del], c + gapD sc (lastSt .none ops), h1, h2, h3, by omega, by omega, by omega,
    h7, by omega, ?_, ?_, ?_, ?_⟩
  · rw [slice_succ y ys ye h4 hj]; exact score_snoc_del sc _ _ ops c _ hsc
  · rw [hl]
    simp only [Nat.lt_irrefl, if_false, gapD] at hle ⊢
    generalize (if xe < i then cl.xs else 0) = t at hle ⊢
    omega
  · intro h; cases h
  · intro _; exact ⟨lastSt_append_singleton _ _ _, rfl⟩

theorem wit_diag {L : St} {i j : Nat} {v : Int} (h : Wit sc cl x y L i j v)
    (hi : i < x.length) (hj : j < y.length) :
    Wit sc cl x y .none (i + 1) (j + 1) (v + sc.w (x.getD i 0) (y.getD j 0)) := by
  obtain ⟨xs, xe, ys, ye, ops, c, h1, h2, h3, h4, h5, h6, h7, h8, hsc, hle, _, _⟩ := h
  have hxe : xe = i := by
    rcases Nat.lt_or_ge xe i with hlt | hge
    · have := h7 hlt; omega
    · omega
  have hye : ye = j := by
    rcases Nat.lt_or_ge ye j with hlt | hge
    · have := h8 hlt; omega
    · omega
  subst hxe; subst hye
  simp only [Nat.lt_irrefl, if_false] at hle
  by_cases hab : x.getD xe 0 = y.getD ye 0
  · refine ⟨xs, xe + 1, ys, ye + 1, ops ++ [.mat], c + sc.w (x.getD xe 0) (y.getD ye 0), by omega, by omega, by omega,
      by omega, by omega, by omega, by omega, by omega, ?_, ?_, ?_, ?_⟩
    · rw [slice_succ x xs xe h1 hi, slice_succ y ys ye h4 hj]; exact score_snoc_mat sc _ _ ops c _ _ hab hsc
    · simp only [Nat.lt_irrefl, if_false]; omega
    · intro h; cases h
    · intro h; cases h
  · refine ⟨xs, xe + 1, ys, ye + 1, ops ++ [.sub], c + sc.w (x.getD xe 0) (y.getD ye 0), by omega, by omega, by omega,
      by omega, by omega, by omega, by omega, by omega, ?_, ?_, ?_, ?_⟩
    · rw [slice_succ x xs xe h1 hi, slice_succ y ys ye h4 hj]; exact score_snoc_sub sc _ _ ops c _ _ hab hsc
    · simp only [Nat.lt_irrefl, if_false]; omega
    · intro h; cases h
    · intro h; cases h

/-- clip the rest of `x` after row `i < m`: the value lands in row `m` -/
theorem wit_xsuf {L : St} {i j : Nat} {v : Int} (h : Wit sc cl x y L i j v) (hi : i < x.length) :
    Wit sc cl x y .none x.length j (v + cl.xs) := by
  obtain ⟨xs, xe, ys, ye, ops, c, h1, h2, h3, h4, h5, h6, h7, h8, hsc, hle, _, _⟩ := h
  have hxe : xe = i := by
    rcases Nat.lt_or_ge xe i with hlt | hge
    · have := h7 hlt; omega
    · omega
  subst hxe
  refine ⟨xs, xe, ys, ye, ops, c, h1, by omega, Nat.le_refl _, h4, h5, h6, fun _ => rfl, h8, hsc, ?_, ?_, ?_⟩
  · simp only [Nat.lt_irrefl, if_false, hi, if_true] at hle ⊢
    generalize (if ye < j then cl.ys else 0) = t at hle ⊢
    omega
  · intro h; cases h
  · intro h; cases h

/-- clip the rest of `y` after column `j`: the value lands in column `n` (for `j = n` the code charges a zero-length
clip, which can only lose) -/
theorem wit_ysuf (hys : cl.ys ≤ 0) {L : St} {i j : Nat} {v : Int} (h : Wit sc cl x y L i j v) :
    Wit sc cl x y .none i y.length (v + cl.ys) := by
  obtain ⟨xs, xe, ys, ye, ops, c, h1, h2, h3, h4, h5, h6, h7, h8, hsc, hle, hI, hD⟩ := h
  rcases Nat.lt_or_ge j y.length with hj | hj
  · have hye : ye = j := by
      rcases Nat.lt_or_ge ye j with hlt | hge
      · have := h8 hlt; omega
      · omega
    subst hye
    refine ⟨xs, xe, ys, ye, ops, c, h1, h2, h3, h4, by omega, Nat.le_refl _, h7, fun _ => rfl, hsc, ?_, ?_, ?_⟩
    · simp only [Nat.lt_irrefl, if_false, hj, if_true] at hle ⊢
      generalize (if xe < i then cl.xs else 0) = t at hle ⊢
      omega
    · intro h; cases h
    · intro h; cases h
  · have hjn : j = y.length := by omega
    subst hjn
    exact wit_mono (wit_none ⟨xs, xe, ys, ye, ops, c, h1, h2, h3, h4, h5, h6, h7, h8, hsc, hle, hI, hD⟩) (by omega)

theorem mul_succ_int (g : Int) (k : Nat) : g * ((k : Int) + 1 + 1) = g * ((k : Int) + 1) + g := by
  rw [Int.mul_add g ((k : Int) + 1) 1, Int.mul_one]

/-- `k + 1` insertions in a row, opened at `(i, j)` -/
theorem wit_ins_chain (hgo : sc.go ≤ 0) {L : St} {i j : Nat} {v : Int} (h : Wit sc cl x y L i j v) :
    ∀ k : Nat, i + (k + 1) ≤ x.length → Wit sc cl x y .ins (i + (k + 1)) j (v + sc.go + sc.ge * ((k : Int) + 1)) := by
  intro k
  induction k with
  | zero =>
    intro hk
    have := wit_ins_open hgo h (by omega)
    simpa using this
  | succ k ih =>
    intro hk
    have := wit_ins_ext (ih (by omega)) (by omega)
    have e : i + (k + 1) + 1 = i + (k + 1 + 1) := by omega
    rw [e] at this
    refine wit_mono this ?_
    push_cast
    rw [mul_succ_int]; omega

/-- `k + 1` deletions in a row, opened at `(i, j)` -/
theorem wit_del_chain (hgo : sc.go ≤ 0) {L : St} {i j : Nat} {v : Int} (h : Wit sc cl x y L i j v) :
    ∀ k : Nat, j + (k + 1) ≤ y.length → Wit sc cl x y .del i (j + (k + 1)) (v + sc.go + sc.ge * ((k : Int) + 1)) := by
  intro k
  induction k with
  | zero =>
    intro hk
    have := wit_del_open hgo h (by omega)
    simpa using this
  | succ k ih =>
    intro hk
    have := wit_del_ext (ih (by omega)) (by omega)
    have e : j + (k + 1) + 1 = j + (k + 1 + 1) := by omega
    rw [e] at this
    refine wit_mono this ?_
    push_cast
    rw [mul_succ_int]; omega

/-- a witness at the corner `(m, n)` is an alignment in the sense of the specification whose value (clip penalties
included) is at least `v` -/
theorem wit_corner {L : St} {v : Int} (h : Wit sc cl x y L x.length y.length v) :
    ∃ a c, IsAln x y a ∧ AlnScore sc cl x y a c ∧ v ≤ c := by
  obtain ⟨xs, xe, ys, ye, ops, c, h1, h2, h3, h4, h5, h6, h7, h8, hsc, hle, _, _⟩ := h
  refine ⟨⟨xs, xe, ys, ye, ops⟩, c + clipPen cl x.length y.length xs xe ys ye, ⟨h1, h2, h4, h5, ?_⟩, ⟨c, hsc, rfl⟩, ?_⟩
  · exact (valid_iff_score sc .none _ _ _).mpr ⟨c, hsc⟩
  · simp only [clipPen, pre] at hle ⊢; omega

end

end RbV.Model.PairwiseFill
