import RbV.Lemmas.KChainFwd
import RbV.Lemmas.LcskppEvents
/-! C19 — the table of the forward recurrence seen as a function of the match index, and as a fixed point: every cell is
`cellF` of the *whole* table (later matches cannot be predecessors).  Core Lean only. -/
namespace RbV.Lemmas.Lcskpp
open RbV.KChain RbV.Model.Lcskpp RbV.QGram

theorem max0_eq_of {l : List Nat} {v : Nat} (hub : ∀ a ∈ l, a ≤ v) (hat : v = 0 ∨ v ∈ l) : max0 l = v := by
  have h1 := max0_le hub
  rcases hat with h | h
  · omega
  · have := le_max0_of_mem h; omega

theorem cellF_cons_irrelevant {k : Nat} {T : List (M × Nat)} {e : M × Nat} {m : M}
    (h1 : nonov k e.1 m = false) (h2 : cont e.1 m = false) : cellF k (e :: T) m = cellF k T m := by
  unfold cellF; simp [h1, h2]

/-- every cell is `cellF` over the whole table -/
theorem tableR_fix {k : Nat} (hk : 0 < k) (rs : List M) (hs : rs.Pairwise (fun a b => b.1 ≤ a.1)) :
    ∀ m v, (m, v) ∈ tableR k rs → v = cellF k (tableR k rs) m := by
  induction rs with
  | nil => intro m v h; cases h
  | cons m0 rest ih =>
    rw [List.pairwise_cons] at hs
    intro m v hmv
    simp only [tableR, List.mem_cons] at hmv
    have hirr : ∀ m : M, m.1 ≤ m0.1 → cellF k ((m0, cellF k (tableR k rest) m0) :: tableR k rest) m = cellF k (tableR k rest) m := by
      intro m hm
      apply cellF_cons_irrelevant
      · simp only [nonov, Bool.and_eq_false_iff, decide_eq_false_iff_not]; omega
      · simp only [cont, Bool.and_eq_false_iff, beq_eq_false_iff_ne, ne_eq]; omega
    rcases hmv with heq | hT
    · have hm : m = m0 := congrArg Prod.fst heq
      have hv : v = cellF k (tableR k rest) m0 := congrArg Prod.snd heq
      subst hm
      simp only [tableR]
      rw [hirr m (Nat.le_refl _)]; exact hv
    · simp only [tableR]
      rw [hirr m (hs.1 m (entry_memR hT))]
      exact ih hs.2 m v hT

theorem tableR_unique {k : Nat} {rs : List M} (hn : rs.Nodup) {m : M} {v v' : Nat}
    (h1 : (m, v) ∈ tableR k rs) (h2 : (m, v') ∈ tableR k rs) : v = v' := by
  induction rs with
  | nil => cases h1
  | cons m0 rest ih =>
    rw [List.nodup_cons] at hn
    simp only [tableR, List.mem_cons] at h1 h2
    rcases h1 with h1 | h1 <;> rcases h2 with h2 | h2
    · exact (Prod.mk.inj (h1.trans h2.symm)).2
    · have : m = m0 := congrArg Prod.fst h1
      subst this; exact absurd (entry_memR h2) hn.1
    · have : m = m0 := congrArg Prod.fst h2
      subst this; exact absurd (entry_memR h1) hn.1
    · exact ih hn.2 h1 h2

/-- the final `dp[p].0` the recurrence prescribes -/
def F (ms : List M) (k p : Nat) : Nat := (dpScores ms k).getD p 0

theorem tableR_length (k : Nat) (rs : List M) : (tableR k rs).length = rs.length := by
  have := congrArg List.length (tableR_fst k rs)
  simpa using this

theorem dpScores_length (ms : List M) (k : Nat) : (dpScores ms k).length = ms.length := by
  simp [dpScores, tableR_length]

theorem mem_table_F {ms : List M} {k p : Nat} (hp : p < ms.length) :
    (mAt ms p, F ms k p) ∈ tableR k ms.reverse := by
  have hl := tableR_length k ms.reverse
  have hi : ms.length - 1 - p < (tableR k ms.reverse).length := by rw [hl]; simp; omega
  have hmem := List.getElem_mem hi
  have hfst : ((tableR k ms.reverse)[ms.length - 1 - p]'hi).1 = mAt ms p := by
    have h1 : ((tableR k ms.reverse).map (·.1))[ms.length - 1 - p]'(by simpa using hi) = ms.reverse[ms.length - 1 - p]'(by simp; omega) := by
      simp only [tableR_fst]
    rw [List.getElem_map] at h1
    rw [h1, List.getElem_reverse]
    unfold mAt
    rw [List.getD_eq_getElem?_getD, List.getElem?_eq_getElem hp]
    simp only [Option.getD_some]
    congr 1; omega
  have hsnd : ((tableR k ms.reverse)[ms.length - 1 - p]'hi).2 = F ms k p := by
    unfold F dpScores
    rw [List.getD_eq_getElem?_getD, List.getElem?_eq_getElem (by simp [tableR_length]; exact hp)]
    simp only [Option.getD_some, List.getElem_reverse, List.getElem_map, List.length_map]
    have e : (tableR k ms.reverse).length - 1 - p = ms.length - 1 - p := by rw [hl]; simp
    simp only [e]
  have : (tableR k ms.reverse)[ms.length - 1 - p]'hi = (mAt ms p, F ms k p) := Prod.ext hfst hsnd
  rw [← this]; exact hmem

theorem entry_F {ms : List M} {k : Nat} (hs : ms.Pairwise lexLt) {m : M} {w : Nat}
    (h : (m, w) ∈ tableR k ms.reverse) : ∃ r, r < ms.length ∧ mAt ms r = m ∧ w = F ms k r := by
  have hm : m ∈ ms := by simpa using entry_memR h
  obtain ⟨r, hr, rfl⟩ := exists_mAt hm
  refine ⟨r, hr, rfl, ?_⟩
  exact tableR_unique ((List.reverse_perm ms).nodup_iff.mpr (nodup_of_lex hs)) h (mem_table_F hr)

/-- best finished non-overlapping predecessor of match `p` (0 when there is none) -/
def A (ms : List M) (k p : Nat) : Nat :=
  max0 (((tableR k ms.reverse).filter (fun e => nonov k e.1 (mAt ms p))).map (·.2))

/-- diagonal predecessor + 1 (0 when there is none) -/
def Bc (ms : List M) (k p : Nat) : Nat :=
  max0 (((tableR k ms.reverse).filter (fun e => cont e.1 (mAt ms p))).map (fun e => e.2 + 1))

theorem F_rec {ms : List M} {k p : Nat} (hk : 0 < k) (hs : ms.Pairwise lexLt) (hp : p < ms.length) :
    F ms k p = max (k + A ms k p) (Bc ms k p) :=
  tableR_fix hk ms.reverse (List.pairwise_reverse.mpr (sorted_x_of_lex hs)) _ _ (mem_table_F hp)

theorem k_le_F {ms : List M} {k p : Nat} (hk : 0 < k) (hs : ms.Pairwise lexLt) (hp : p < ms.length) : k ≤ F ms k p := by
  rw [F_rec hk hs hp]; omega

theorem A_eq {ms : List M} {k p v : Nat} (hs : ms.Pairwise lexLt)
    (hub : ∀ r, r < ms.length → nonov k (mAt ms r) (mAt ms p) = true → F ms k r ≤ v)
    (hat : v = 0 ∨ ∃ r, r < ms.length ∧ nonov k (mAt ms r) (mAt ms p) = true ∧ F ms k r = v) : A ms k p = v := by
  unfold A
  apply max0_eq_of
  · intro a ha
    rcases List.mem_map.mp ha with ⟨⟨m, w⟩, hmw, rfl⟩
    rcases List.mem_filter.mp hmw with ⟨hT, hn⟩
    obtain ⟨r, hr, rfl, rfl⟩ := entry_F hs hT
    exact hub r hr hn
  · rcases hat with h | ⟨r, hr, hn, hv⟩
    · left; exact h
    · right
      exact List.mem_map.mpr ⟨(mAt ms r, F ms k r), List.mem_filter.mpr ⟨mem_table_F hr, hn⟩, hv⟩

theorem Bc_eq {ms : List M} {k p v : Nat} (hs : ms.Pairwise lexLt)
    (hub : ∀ r, r < ms.length → cont (mAt ms r) (mAt ms p) = true → F ms k r + 1 ≤ v)
    (hat : v = 0 ∨ ∃ r, r < ms.length ∧ cont (mAt ms r) (mAt ms p) = true ∧ F ms k r + 1 = v) : Bc ms k p = v := by
  unfold Bc
  apply max0_eq_of
  · intro a ha
    rcases List.mem_map.mp ha with ⟨⟨m, w⟩, hmw, rfl⟩
    rcases List.mem_filter.mp hmw with ⟨hT, hn⟩
    obtain ⟨r, hr, rfl, rfl⟩ := entry_F hs hT
    exact hub r hr hn
  · rcases hat with h | ⟨r, hr, hn, hv⟩
    · left; exact h
    · right
      exact List.mem_map.mpr ⟨(mAt ms r, F ms k r), List.mem_filter.mpr ⟨mem_table_F hr, hn⟩, hv⟩

end RbV.Lemmas.Lcskpp
