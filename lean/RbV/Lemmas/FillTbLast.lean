import RbV.Lemmas.FillTbCols
import RbV.Lemmas.FillFinal
/-!
Traceback proof, fill side, part 4: the last column, which the two post-loops rewrite.

`P1 i`, `P2 i`: row `i` after the first / second post-loop.  Phase 1 (`rown_all`, induction over the rows): main-loop
facts of the row, goodness of the final I code for the final I value, and — rows `i < m` — goodness of the S code after
the main loop, after the first and after the second post-loop.  Phase 2: the registers `S[curr][m]`, S field of
`traceback[m][n]`, `Lx[n]` through both post-loops (`RegOK`), giving the goodness of the final code of cell `(m, n)` for
the reported score: `final_good`.
-/
namespace RbV.Model.PairwiseFill
open RbV.Align

section
variable (sc : Sc) (cl : Clip) (x y : List Nat)

/-- row `i` of the last column after the first / second post-loop -/
def P1 (i : Nat) : PSt := (p1L sc cl x y).getD i default
def P2 (i : Nat) : PSt := (p2L sc cl x y).getD i default

theorem P1_zero : P1 sc cl x y 0 = post1Step cl x (colAt sc cl x y y.length) 0 (p1init x (colAt sc cl x y y.length)) := by
  simp only [P1, p1L, post1_getD_zero]

theorem P1_succ (i : Nat) (hi : i + 1 ≤ x.length) :
    P1 sc cl x y (i + 1) = post1Step cl x (colAt sc cl x y y.length) (i + 1) (P1 sc cl x y i) := by
  simp only [P1, p1L, post1_getD_succ _ _ _ _ hi]

theorem P2_zero : P2 sc cl x y 0 = p2init x (p1L sc cl x y) := by
  simp only [P2, p2L, post2_getD_zero]

theorem P2_succ (i : Nat) (hi : i + 1 ≤ x.length) :
    P2 sc cl x y (i + 1) = post2Step sc cl x (p1L sc cl x y) (i + 1) (P2 sc cl x y i) := by
  simp only [P2, p2L, post2_getD_succ _ _ _ _ _ hi]

end

section
variable {sc : Sc} {cl : Clip} {x y : List Nat} {W : Int}

/-! ### the loop bodies, by cases on `i = m` -/

theorem post1Step_lt (col : List Row) (i : Nat) (p : PSt) (hm : i ≠ x.length) :
    post1Step cl x col i p =
      ⟨upd (col.getD i default).sn (col.getD i default).s,
        upd (upd (col.getD i default).sn (col.getD i default).s + cl.xs) p.xm,
        (col.getD i default).i,
        if (col.getD i default).sn > (col.getD i default).s then .ysuf else (col.getD i default).t.ts,
        (col.getD i default).t.ti,
        if upd (col.getD i default).sn (col.getD i default).s + cl.xs > p.xm then .xsuf else p.sm,
        if upd (col.getD i default).sn (col.getD i default).s + cl.xs > p.xm then x.length - i else p.lx⟩ := by
  simp only [post1Step, if_neg hm]

theorem post1Step_last (hxs : cl.xs ≤ 0) (col : List Row) (i : Nat) (p : PSt) (hm : i = x.length) :
    post1Step cl x col i p =
      ⟨upd (col.getD i default).sn p.xm, upd (col.getD i default).sn p.xm, (col.getD i default).i,
        if (col.getD i default).sn > p.xm then .ysuf else p.sm, (col.getD i default).t.ti,
        if (col.getD i default).sn > p.xm then .ysuf else p.sm, p.lx⟩ := by
  simp only [post1Step, if_pos hm]
  rw [upd_of_le (show upd (col.getD i default).sn p.xm + cl.xs ≤ upd (col.getD i default).sn p.xm by omega)]
  rw [if_neg (show ¬ (upd (col.getD i default).sn p.xm + cl.xs > upd (col.getD i default).sn p.xm) by omega)]
  rw [if_neg (show ¬ (upd (col.getD i default).sn p.xm + cl.xs > upd (col.getD i default).sn p.xm) by omega)]

theorem post2Step_iv (s1 : List PSt) (i : Nat) (p : PSt) :
    (post2Step sc cl x s1 i p).iv =
      (if p.s + sc.go + sc.ge > (s1.getD i default).iv then p.s + sc.go + sc.ge else (s1.getD i default).iv) ∧
    (post2Step sc cl x s1 i p).ti =
      (if p.s + sc.go + sc.ge > (s1.getD i default).iv then p.ts else (s1.getD i default).ti) := by
  unfold post2Step
  dsimp only
  by_cases hm : i = x.length
  · simp only [if_pos hm]
    by_cases hc : p.s + sc.go + sc.ge > p.xm
    · rw [if_pos hc]; exact ⟨rfl, rfl⟩
    · rw [if_neg hc]; exact ⟨rfl, rfl⟩
  · simp only [if_neg hm]
    by_cases hc : p.s + sc.go + sc.ge > (s1.getD i default).s
    · rw [if_pos hc]; exact ⟨rfl, rfl⟩
    · rw [if_neg hc]; exact ⟨rfl, rfl⟩

theorem post2Step_lt (s1 : List PSt) (i : Nat) (p : PSt) (hm : i ≠ x.length) :
    ((post2Step sc cl x s1 i p).s = (if p.s + sc.go + sc.ge > (s1.getD i default).s then p.s + sc.go + sc.ge
        else (s1.getD i default).s)) ∧
    ((post2Step sc cl x s1 i p).ts = (if p.s + sc.go + sc.ge > (s1.getD i default).s then .ins
        else (s1.getD i default).ts)) ∧
    (((post2Step sc cl x s1 i p).xm = p.xm ∧ (post2Step sc cl x s1 i p).sm = p.sm ∧
        (post2Step sc cl x s1 i p).lx = p.lx) ∨
      ((post2Step sc cl x s1 i p).sm = .xsuf ∧ (post2Step sc cl x s1 i p).lx = x.length - i ∧
        (post2Step sc cl x s1 i p).xm = (post2Step sc cl x s1 i p).s + cl.xs)) := by
  unfold post2Step
  simp only [if_neg hm]
  by_cases hc : p.s + sc.go + sc.ge > (s1.getD i default).s
  · rw [if_pos hc, if_pos hc, if_pos hc]
    refine ⟨rfl, rfl, ?_⟩
    dsimp only
    unfold upd
    by_cases hd : p.s + sc.go + sc.ge + cl.xs > p.xm
    · right; rw [if_pos hd, if_pos hd, if_pos hd]; exact ⟨rfl, rfl, rfl⟩
    · left; rw [if_neg hd, if_neg hd, if_neg hd]; exact ⟨rfl, rfl, rfl⟩
  · rw [if_neg hc, if_neg hc, if_neg hc]
    exact ⟨rfl, rfl, Or.inl ⟨rfl, rfl, rfl⟩⟩

theorem post2Step_last (hxs : cl.xs ≤ 0) (s1 : List PSt) (i : Nat) (p : PSt) (hm : i = x.length) :
    (post2Step sc cl x s1 i p).lx = p.lx ∧ (post2Step sc cl x s1 i p).ts = (post2Step sc cl x s1 i p).sm ∧
    (post2Step sc cl x s1 i p).s = (post2Step sc cl x s1 i p).xm ∧
    ((post2Step sc cl x s1 i p).xm = (if p.s + sc.go + sc.ge > p.xm then p.s + sc.go + sc.ge else p.xm)) ∧
    ((post2Step sc cl x s1 i p).sm = (if p.s + sc.go + sc.ge > p.xm then .ins else p.sm)) := by
  unfold post2Step
  simp only [if_pos hm]
  have hno : ¬ (p.s + sc.go + sc.ge + cl.xs > p.s + sc.go + sc.ge) := by omega
  by_cases hc : p.s + sc.go + sc.ge > p.xm
  · simp only [if_pos hc, if_neg hno, upd_of_le (show p.s + sc.go + sc.ge + cl.xs ≤ p.s + sc.go + sc.ge by omega)]
    simp
  · simp only [if_neg hc]
    simp

/-! ### phase 1: row by row -/

theorem P1_eq (i : Nat) (hi : i ≤ x.length) :
    ∃ p, P1 sc cl x y i = post1Step cl x (colAt sc cl x y y.length) i p := by
  cases i with
  | zero => exact ⟨_, P1_zero sc cl x y⟩
  | succ k => exact ⟨_, P1_succ sc cl x y k hi⟩

theorem P1_iv_ti (i : Nat) (hi : i ≤ x.length) :
    (P1 sc cl x y i).iv = (cell sc cl x y y.length i).i ∧ (P1 sc cl x y i).ti = (cell sc cl x y y.length i).t.ti := by
  obtain ⟨p, hp⟩ := P1_eq (sc := sc) (cl := cl) (x := x) (y := y) i hi
  rw [hp]; exact ⟨rfl, rfl⟩

/-- S cell of row `i < m` after the first post-loop -/
theorem P1_s_ts (i : Nat) (hi : i < x.length) :
    (P1 sc cl x y i).s = upd (cell sc cl x y y.length i).sn (cell sc cl x y y.length i).s ∧
    (P1 sc cl x y i).ts = (if (cell sc cl x y y.length i).sn > (cell sc cl x y y.length i).s then .ysuf
      else (cell sc cl x y y.length i).t.ts) := by
  obtain ⟨p, hp⟩ := P1_eq (sc := sc) (cl := cl) (x := x) (y := y) i (by omega)
  rw [hp, post1Step_lt _ _ _ (by omega)]
  exact ⟨rfl, rfl⟩

/-- the columns before the last are done -/
def ColsOK (sc : Sc) (cl : Clip) (x y : List Nat) : Prop :=
  ∀ jj, jj < y.length → ∀ i, i ≤ x.length → GCA sc cl x y jj i

/-- `TB_YCLIP_SUFFIX` in the last column is good for `Sn[i]` whenever `Sn[i]` beats a value that is at least the S
cell of the main loop -/
theorem ysuf_good (H : Hyp sc cl x y W)
    (hs : minScore + ((x.length : Int) + y.length) * W < 2 * sc.go + sc.ge * ((x.length : Int) + y.length))
    (hcols : ColsOK sc cl x y) (i : Nat) (hi : i ≤ x.length) (hsn : SnOK sc cl x y y.length i) (c : Int)
    (hc : (cell sc cl x y y.length i).s ≤ c) (hgt : (cell sc cl x y y.length i).sn > c) :
    GoodF sc cl x y i y.length .ysuf (cell sc cl x y y.length i).sn := by
  have hmin := cell_s_gt_min H hs i y.length hi (Nat.le_refl _)
  have hys := H.ys
  rcases hsn with h0 | ⟨jj, hjj, hly, hv⟩
  · omega
  · have hjn : jj < y.length := by
      rcases Nat.lt_or_ge jj y.length with h | h
      · exact h
      · have : jj = y.length := by omega
        subst this; omega
    have hly' : (finalT sc cl x y).ly i = y.length - jj := by rw [table_ly, hly]
    have hG := (hcols jj hjn i hi).S
    rw [← table_tS_lt sc cl x y i jj hjn] at hG
    refine good_ysuf (sc := sc) (cl := cl) (x := x) (y := y) (T := finalT sc cl x y) (i := i)
      (v' := (cell sc cl x y jj i).s) (by rw [hly']; omega) (by rw [hly']; omega) ?_ hv
    rw [hly', show y.length - (y.length - jj) = jj by omega]
    exact hG

theorem p1_good (H : Hyp sc cl x y W)
    (hs : minScore + ((x.length : Int) + y.length) * W < 2 * sc.go + sc.ge * ((x.length : Int) + y.length))
    (hcols : ColsOK sc cl x y) (i : Nat) (hi : i < x.length)
    (hmain : GoodF sc cl x y i y.length (cell sc cl x y y.length i).t.ts (cell sc cl x y y.length i).s)
    (hsn : SnOK sc cl x y y.length i) :
    GoodF sc cl x y i y.length (P1 sc cl x y i).ts (P1 sc cl x y i).s := by
  obtain ⟨e1, e2⟩ := P1_s_ts (sc := sc) (cl := cl) (x := x) (y := y) i hi
  rw [e1, e2]
  unfold upd
  by_cases hc : (cell sc cl x y y.length i).sn > (cell sc cl x y y.length i).s
  · rw [if_pos hc, if_pos hc]
    exact ysuf_good H hs hcols i (by omega) hsn _ (Int.le_refl _) hc
  · rw [if_neg hc, if_neg hc]; exact hmain

/-- values only grow through the post-loops -/
theorem P1_s_ge (i : Nat) (hi : i < x.length) : (cell sc cl x y y.length i).s ≤ (P1 sc cl x y i).s := by
  rw [(P1_s_ts (sc := sc) (cl := cl) (x := x) (y := y) i hi).1]
  unfold upd; split <;> omega

theorem P2_zero_fields :
    (P2 sc cl x y 0).s = (P1 sc cl x y 0).s ∧ (P2 sc cl x y 0).ts = (P1 sc cl x y 0).ts ∧
    (P2 sc cl x y 0).iv = (P1 sc cl x y 0).iv ∧ (P2 sc cl x y 0).ti = (P1 sc cl x y 0).ti := by
  rw [P2_zero]; exact ⟨rfl, rfl, rfl, rfl⟩

theorem P2_s_ge (i : Nat) (hi : i < x.length) : (P1 sc cl x y i).s ≤ (P2 sc cl x y i).s := by
  cases i with
  | zero => rw [P2_zero_fields.1]; exact Int.le_refl _
  | succ k =>
    rw [P2_succ sc cl x y k (by omega)]
    have := (post2Step_lt (sc := sc) (cl := cl) (x := x) (p1L sc cl x y) (k + 1) (P2 sc cl x y k) (by omega)).1
    rw [this]
    have e : (p1L sc cl x y).getD (k + 1) default = P1 sc cl x y (k + 1) := rfl
    rw [e]
    split <;> omega

theorem P2_iv_ge (i : Nat) (hi : i ≤ x.length) : (cell sc cl x y y.length i).i ≤ (P2 sc cl x y i).iv := by
  cases i with
  | zero => rw [P2_zero_fields.2.2.1, (P1_iv_ti 0 hi).1]; exact Int.le_refl _
  | succ k =>
    rw [P2_succ sc cl x y k hi, (post2Step_iv _ _ _).1]
    have e : (p1L sc cl x y).getD (k + 1) default = P1 sc cl x y (k + 1) := rfl
    rw [e, (P1_iv_ti (k + 1) hi).1]
    split <;> omega

/-- the final I code of row `i + 1` is good for the final I value -/
theorem finalI_succ (H : Hyp sc cl x y W)
    (hs : minScore + ((x.length : Int) + y.length) * W < 2 * sc.go + sc.ge * ((x.length : Int) + y.length))
    (i : Nat) (hi : i + 1 ≤ x.length)
    (hfin : GoodF sc cl x y i y.length (P2 sc cl x y i).ts (P2 sc cl x y i).s)
    (hmain : (finalT sc cl x y).tI (i + 1) y.length = (cell sc cl x y y.length (i + 1)).t.ti →
      GoodF sc cl x y (i + 1) y.length .ins (cell sc cl x y y.length (i + 1)).i) :
    GoodF sc cl x y (i + 1) y.length .ins (P2 sc cl x y (i + 1)).iv := by
  have hT := table_tI_n sc cl x y (i + 1)
  have e : (p1L sc cl x y).getD (i + 1) default = P1 sc cl x y (i + 1) := rfl
  obtain ⟨e1, e2⟩ := post2Step_iv (sc := sc) (cl := cl) (x := x) (p1L sc cl x y) (i + 1) (P2 sc cl x y i)
  rw [e, (P1_iv_ti (i + 1) hi).1] at e1
  rw [e, (P1_iv_ti (i + 1) hi).1, (P1_iv_ti (i + 1) hi).2] at e2
  have hP2 : (p2L sc cl x y).getD (i + 1) default = P2 sc cl x y (i + 1) := rfl
  rw [hP2, P2_succ sc cl x y i hi] at hT
  rw [P2_succ sc cl x y i hi, e1]
  rw [e2] at hT
  by_cases hc : (P2 sc cl x y i).s + sc.go + sc.ge > (cell sc cl x y y.length (i + 1)).i
  · rw [if_pos hc] at hT ⊢
    exact good_ins_open H.go (by omega) hT hfin (Int.le_refl _)
  · rw [if_neg hc] at hT ⊢
    exact hmain hT

/-- what phase 1 establishes for row `i` of the last column `c = n` -/
def RowN (sc : Sc) (cl : Clip) (x y : List Nat) (c i : Nat) : Prop :=
  MR sc cl x y c i ∧
  (1 ≤ i → GoodF sc cl x y i c .ins (P2 sc cl x y i).iv) ∧
  (i < x.length → GoodF sc cl x y i c (cell sc cl x y c i).t.ts (cell sc cl x y c i).s ∧
    GoodF sc cl x y i c (P1 sc cl x y i).ts (P1 sc cl x y i).s ∧
    GoodF sc cl x y i c (P2 sc cl x y i).ts (P2 sc cl x y i).s)

/-- rows `< m`: from the main-loop facts to the three S codes -/
theorem rown_of_mr (H : Hyp sc cl x y W)
    (hs : minScore + ((x.length : Int) + y.length) * W < 2 * sc.go + sc.ge * ((x.length : Int) + y.length))
    (hcols : ColsOK sc cl x y) (i : Nat) (hi : i ≤ x.length) (hmr : MR sc cl x y y.length i)
    (hI : 1 ≤ i → GoodF sc cl x y i y.length .ins (P2 sc cl x y i).iv) : RowN sc cl x y y.length i := by
  refine ⟨hmr, hI, fun hlt => ?_⟩
  have hmain : GoodF sc cl x y i y.length (cell sc cl x y y.length i).t.ts (cell sc cl x y y.length i).s := by
    rcases hmr.S with h | ⟨hm, _⟩
    · exact h.1
    · omega
  have hp1 := p1_good H hs hcols i hlt hmain hmr.Sn
  refine ⟨hmain, hp1, ?_⟩
  cases i with
  | zero => rw [P2_zero_fields.1, P2_zero_fields.2.1]; exact hp1
  | succ k =>
    have e : (p1L sc cl x y).getD (k + 1) default = P1 sc cl x y (k + 1) := rfl
    obtain ⟨e1, e2, _⟩ := post2Step_lt (sc := sc) (cl := cl) (x := x) (p1L sc cl x y) (k + 1) (P2 sc cl x y k) (by omega)
    rw [P2_succ sc cl x y k hi, e1, e2, e]
    by_cases hc : (P2 sc cl x y k).s + sc.go + sc.ge > (P1 sc cl x y (k + 1)).s
    · rw [if_pos hc, if_pos hc]
      refine good_mono (hI (by omega)) ?_
      rw [P2_succ sc cl x y k hi, (post2Step_iv _ _ _).1]
      split <;> omega
    · rw [if_neg hc, if_neg hc]; exact hp1

theorem cell_row0_le_P2 (j : Nat) (hj : j + 1 = y.length) (hm : 0 < x.length) :
    max cl.yp (sc.go + sc.ge * ((j + 1 : Nat) : Int)) ≤ (P2 sc cl x y 0).s := by
  have h1 := cell_row0_ge (sc := sc) (cl := cl) (x := x) (y := y) j
  have h2 := P1_s_ge (sc := sc) (cl := cl) (x := x) (y := y) 0 hm
  have h3 := P2_s_ge (sc := sc) (cl := cl) (x := x) (y := y) 0 hm
  rw [← hj] at h2
  omega

/-- **phase 1**: all rows of the last column -/
theorem rown_all (H : Hyp sc cl x y W)
    (hs : minScore + ((x.length : Int) + y.length) * W < 2 * sc.go + sc.ge * ((x.length : Int) + y.length))
    (hcols : ColsOK sc cl x y) : ∀ i, i ≤ x.length → ∀ k, k ≤ i → RowN sc cl x y y.length k := by
  intro i
  induction i with
  | zero =>
    intro _ k hk
    have : k = 0 := by omega
    subst this
    refine rown_of_mr H hs hcols 0 (Nat.zero_le _) ?_ (fun h => by omega)
    rcases Nat.eq_zero_or_pos y.length with hn | hn
    · rw [hn]; exact mr_row00
    · obtain ⟨j, hj⟩ : ∃ j, y.length = j + 1 := ⟨y.length - 1, by omega⟩
      rw [hj]
      exact (mr_rowJ0 H hs j (by omega) (hcols j (by omega) 0 (Nat.zero_le _)).mr
        (fun jj hjj => (hcols jj (by omega) 0 (Nat.zero_le _)).S)).1
  | succ i ih =>
    intro hi k hk
    by_cases hki : k ≤ i
    · exact ih (by omega) k hki
    · have : k = i + 1 := by omega
      subst this
      have hup := ih (by omega)
      obtain ⟨hmr_i, hI_i, hS_i⟩ := hup i (Nat.le_refl _)
      obtain ⟨hmain_i, _, hfin_i⟩ := hS_i (by omega)
      obtain ⟨_, _, hS_0⟩ := hup 0 (Nat.zero_le _)
      obtain ⟨_, _, hfin_0⟩ := hS_0 (by omega)
      -- the I code of the main loop is good for the I value of the main loop
      have hmainI : (finalT sc cl x y).tI (i + 1) y.length = (cell sc cl x y y.length (i + 1)).t.ti →
          GoodF sc cl x y (i + 1) y.length .ins (cell sc cl x y y.length (i + 1)).i := by
        intro hT
        have hIprev : 1 ≤ i → GoodF sc cl x y i y.length .ins (cell sc cl x y y.length i).i :=
          fun h1 => good_mono (hI_i h1) (P2_iv_ge i (by omega))
        rcases Nat.eq_zero_or_pos y.length with hn | hn
        · -- column 0 is the last column
          rw [hn] at hT hmain_i hIprev hfin_0 ⊢
          have hO : OriginOK sc cl x y := by
            refine ⟨(P2 sc cl x y 0).s, ?_, ?_⟩
            · have := table_tS_n sc cl x y 0
              rw [hn] at this
              rw [this]; exact hfin_0
            · have h2 := P1_s_ge (sc := sc) (cl := cl) (x := x) (y := y) 0 (by omega)
              have h3 := P2_s_ge (sc := sc) (cl := cl) (x := x) (y := y) 0 (by omega)
              rw [hn, cell_zero_zero] at h2
              simp only [row00] at h2
              omega
          rw [cell_zero_succ _ _ _ _ _ hi] at hT ⊢
          exact step0_good_I H.go _ hi hT hO (fun h1 => ⟨hIprev h1, cell_col0_i_ge H.xs i (by omega) h1⟩)
        · obtain ⟨j, hj⟩ : ∃ j, y.length = j + 1 := ⟨y.length - 1, by omega⟩
          rw [hj] at hT hmain_i hIprev ⊢
          have hcell := cell_succ_succ sc cl x y j i hi
          rw [hcell] at hT ⊢
          refine ins_good_main H.go (cell sc cl x y (j + 1) i) hi hT hmain_i hIprev (fun h0 => ?_)
          subst h0
          have h1 := cell_s_go_row0 H hs (j + 1) (by omega)
          have h2 : (cell sc cl x y (j + 1) 0).i = minScore := by rw [cell_succ_zero]; rfl
          omega
      have hfinI := finalI_succ H hs i hi hfin_i hmainI
      have hmI : GoodF sc cl x y (i + 1) y.length .ins (cell sc cl x y y.length (i + 1)).i :=
        good_mono hfinI (P2_iv_ge (i + 1) hi)
      refine rown_of_mr H hs hcols (i + 1) hi ?_ (fun _ => hfinI)
      rcases Nat.eq_zero_or_pos y.length with hn | hn
      · rw [hn] at hmI hfin_0 hmr_i ⊢
        have hO : OriginOK sc cl x y := by
          refine ⟨(P2 sc cl x y 0).s, ?_, ?_⟩
          · have := table_tS_n sc cl x y 0
            rw [hn] at this
            rw [this]; exact hfin_0
          · have h2 := P1_s_ge (sc := sc) (cl := cl) (x := x) (y := y) 0 (by omega)
            have h3 := P2_s_ge (sc := sc) (cl := cl) (x := x) (y := y) 0 (by omega)
            rw [hn, cell_zero_zero] at h2
            simp only [row00] at h2
            omega
        exact mr_step0 H hs i hi hO hmI (fun hlt => hmr_i.Trk hlt)
      · obtain ⟨j, hj⟩ : ∃ j, y.length = j + 1 := ⟨y.length - 1, by omega⟩
        have hX : ∃ v0, GoodF sc cl x y 0 (j + 1) ((finalT sc cl x y).tS 0 (j + 1)) v0 ∧
            max cl.yp (sc.go + sc.ge * ((j + 1 : Nat) : Int)) ≤ v0 := by
          refine ⟨(P2 sc cl x y 0).s, ?_, cell_row0_le_P2 j hj.symm (by omega)⟩
          have := table_tS_n sc cl x y 0
          rw [hj] at this hfin_0
          rw [this]; exact hfin_0
        have hY : ∃ v0, GoodF sc cl x y (i + 1) 0 ((finalT sc cl x y).tS (i + 1) 0) v0 ∧
            sc.go + sc.ge * ((i + 1 : Nat) : Int) ≤ v0 := by
          refine ⟨(cell sc cl x y 0 (i + 1)).s, ?_, cell_col0_ge H.xs i hi⟩
          rw [table_tS_lt sc cl x y (i + 1) 0 (by omega)]
          exact (hcols 0 (by omega) (i + 1) hi).S
        rw [hj] at hmI hmr_i ⊢
        exact mr_stepJ H hs j i (by omega) hi (hcols j (by omega) i (by omega)).S
          (hcols j (by omega) (i + 1) hi).S (hcols j (by omega) (i + 1) hi).mr.D
          (hcols j (by omega) (i + 1) hi).mr.Sn hmI hX hY (hmr_i.Trk (by omega))

/-! ### phase 2: the registers of row `m` -/

/-- the S code of `traceback[m][n]`, the value of `S[curr][m]` and `Lx[n]` fit together: `TB_XCLIP_SUFFIX` is explained
by a row `k < m` (with its *final* value), any other code is good as it stands -/
def RegOK (sc : Sc) (cl : Clip) (x y : List Nat) (sm : Tb) (xm : Int) (lx : Nat) : Prop :=
  (sm = .xsuf → ∃ k, k < x.length ∧ lx = x.length - k ∧ xm ≤ (P2 sc cl x y k).s + cl.xs) ∧
  (sm ≠ .xsuf → GoodF sc cl x y x.length y.length sm xm)

theorem reg1_step (H : Hyp sc cl x y W)
    (hs : minScore + ((x.length : Int) + y.length) * W < 2 * sc.go + sc.ge * ((x.length : Int) + y.length))
    (hcols : ColsOK sc cl x y) (hmr : MR sc cl x y y.length x.length) (i : Nat) (hi : i ≤ x.length) (p : PSt)
    (hp : RegOK sc cl x y p.sm p.xm p.lx) (hmono : (cell sc cl x y y.length x.length).s ≤ p.xm)
    (hP1 : P1 sc cl x y i = post1Step cl x (colAt sc cl x y y.length) i p) :
    RegOK sc cl x y (P1 sc cl x y i).sm (P1 sc cl x y i).xm (P1 sc cl x y i).lx ∧
      (cell sc cl x y y.length x.length).s ≤ (P1 sc cl x y i).xm := by
  by_cases hm : i = x.length
  · -- row `m`: the cell is the register
    have e := post1Step_last (cl := cl) (x := x) H.xs (colAt sc cl x y y.length) i p hm
    have er : (colAt sc cl x y y.length).getD i default = cell sc cl x y y.length x.length := by rw [hm]; rfl
    rw [er] at e
    rw [hP1, e]
    dsimp only
    unfold upd
    by_cases hc : (cell sc cl x y y.length x.length).sn > p.xm
    · rw [if_pos hc, if_pos hc]
      refine ⟨⟨nofun, fun _ => ?_⟩, by omega⟩
      exact ysuf_good H hs hcols x.length (Nat.le_refl _) hmr.Sn p.xm hmono hc
    · rw [if_neg hc, if_neg hc]
      exact ⟨hp, hmono⟩
  · have e := post1Step_lt (cl := cl) (x := x) (colAt sc cl x y y.length) i p hm
    have e1 := (P1_s_ts (sc := sc) (cl := cl) (x := x) (y := y) i (by omega)).1
    have er : (colAt sc cl x y y.length).getD i default = cell sc cl x y y.length i := rfl
    rw [er] at e
    rw [hP1, e]
    dsimp only
    rw [← e1]
    unfold upd
    by_cases hc : (P1 sc cl x y i).s + cl.xs > p.xm
    · rw [if_pos hc, if_pos hc, if_pos hc]
      refine ⟨⟨fun _ => ⟨i, by omega, rfl, ?_⟩, fun h => absurd rfl h⟩, by omega⟩
      have := P2_s_ge (sc := sc) (cl := cl) (x := x) (y := y) i (by omega)
      omega
    · rw [if_neg hc, if_neg hc, if_neg hc]
      exact ⟨hp, hmono⟩

theorem reg1_all (H : Hyp sc cl x y W)
    (hs : minScore + ((x.length : Int) + y.length) * W < 2 * sc.go + sc.ge * ((x.length : Int) + y.length))
    (hcols : ColsOK sc cl x y) (hm1 : 1 ≤ x.length) (hmr : MR sc cl x y y.length x.length) : ∀ i, i ≤ x.length →
    RegOK sc cl x y (P1 sc cl x y i).sm (P1 sc cl x y i).xm (P1 sc cl x y i).lx ∧
      (cell sc cl x y y.length x.length).s ≤ (P1 sc cl x y i).xm := by
  intro i
  induction i with
  | zero =>
    intro _
    refine reg1_step H hs hcols hmr 0 (Nat.zero_le _) (p1init x (colAt sc cl x y y.length)) ?_ ?_ (P1_zero sc cl x y)
    · -- the registers as the main loop left them
      have hx := cell_xm_eq_s (sc := sc) (cl := cl) (x := x) (y := y) y.length
      have e1 : (p1init x (colAt sc cl x y y.length)).sm = (cell sc cl x y y.length x.length).t.ts := rfl
      have e2 : (p1init x (colAt sc cl x y y.length)).xm = (cell sc cl x y y.length x.length).xm := rfl
      have e3 : (p1init x (colAt sc cl x y y.length)).lx = (cell sc cl x y y.length x.length).t.lx := rfl
      rw [e1, e2, e3, hx]
      rcases hmr.S with ⟨hg, hne⟩ | ⟨_, hts, k, hk1, hk2, hlx, hv⟩
      · exact ⟨fun h => absurd h (hne hm1), fun _ => hg⟩
      · refine ⟨fun _ => ⟨k, hk2, hlx, ?_⟩, fun h => absurd hts h⟩
        have h2 := P1_s_ge (sc := sc) (cl := cl) (x := x) (y := y) k hk2
        have h3 := P2_s_ge (sc := sc) (cl := cl) (x := x) (y := y) k hk2
        omega
    · have hx := cell_xm_eq_s (sc := sc) (cl := cl) (x := x) (y := y) y.length
      have e2 : (p1init x (colAt sc cl x y y.length)).xm = (cell sc cl x y y.length x.length).xm := rfl
      rw [e2, hx]; exact Int.le_refl _
  | succ i ih =>
    intro hi
    obtain ⟨h1, h2⟩ := ih (by omega)
    exact reg1_step H hs hcols hmr (i + 1) hi (P1 sc cl x y i) h1 h2 (P1_succ sc cl x y i hi)

theorem reg2_all (H : Hyp sc cl x y W)
    (hm1 : 1 ≤ x.length)
    (hreg1 : RegOK sc cl x y (P1 sc cl x y x.length).sm (P1 sc cl x y x.length).xm (P1 sc cl x y x.length).lx)
    (hfinI : GoodF sc cl x y x.length y.length .ins (P2 sc cl x y x.length).iv) : ∀ i, i ≤ x.length →
    RegOK sc cl x y (P2 sc cl x y i).sm (P2 sc cl x y i).xm (P2 sc cl x y i).lx := by
  intro i
  induction i with
  | zero => intro _; rw [P2_zero]; exact hreg1
  | succ i ih =>
    intro hi
    have hp := ih (by omega)
    by_cases hm : i + 1 = x.length
    · obtain ⟨e1, _, _, e4, e5⟩ := post2Step_last (sc := sc) (cl := cl) (x := x) H.xs (p1L sc cl x y) (i + 1)
        (P2 sc cl x y i) hm
      rw [P2_succ sc cl x y i hi, e1, e4, e5]
      by_cases hc : (P2 sc cl x y i).s + sc.go + sc.ge > (P2 sc cl x y i).xm
      · rw [if_pos hc, if_pos hc]
        refine ⟨nofun, fun _ => good_mono hfinI ?_⟩
        rw [← hm, P2_succ sc cl x y i hi, (post2Step_iv _ _ _).1]
        split <;> omega
      · rw [if_neg hc, if_neg hc]; exact hp
    · obtain ⟨_, _, e3⟩ := post2Step_lt (sc := sc) (cl := cl) (x := x) (p1L sc cl x y) (i + 1) (P2 sc cl x y i) hm
      rw [← P2_succ sc cl x y i hi] at e3
      rcases e3 with ⟨h1, h2, h3⟩ | ⟨h1, h2, h3⟩
      · rw [h1, h2, h3]; exact hp
      · rw [h1, h2, h3]
        exact ⟨fun _ => ⟨i + 1, by omega, rfl, Int.le_refl _⟩, fun h => absurd rfl h⟩

/-- **the final code of cell `(m, n)` is good for the reported score** -/
theorem final_good (H : Hyp sc cl x y W)
    (hs : minScore + ((x.length : Int) + y.length) * W < 2 * sc.go + sc.ge * ((x.length : Int) + y.length))
    (hcols : ColsOK sc cl x y) :
    GoodF sc cl x y x.length y.length (P2 sc cl x y x.length).ts (P2 sc cl x y x.length).s := by
  have hrows := rown_all H hs hcols x.length (Nat.le_refl _)
  obtain ⟨hmr, hfinI, _⟩ := hrows x.length (Nat.le_refl _)
  rcases Nat.eq_zero_or_pos x.length with hm0 | hm1
  · -- `m = 0`: row 0 is the register row
    have e := post1Step_last (cl := cl) (x := x) H.xs (colAt sc cl x y y.length) 0
      (p1init x (colAt sc cl x y y.length)) hm0.symm
    have er : (colAt sc cl x y y.length).getD 0 default = cell sc cl x y y.length 0 := rfl
    have hx := cell_xm_eq_s (sc := sc) (cl := cl) (x := x) (y := y) y.length
    have e1 : (p1init x (colAt sc cl x y y.length)).sm = (cell sc cl x y y.length x.length).t.ts := rfl
    have e2 : (p1init x (colAt sc cl x y y.length)).xm = (cell sc cl x y y.length x.length).xm := rfl
    rw [er, e1, e2, hx] at e
    rw [hm0] at e hmr ⊢
    rw [P2_zero_fields.1, P2_zero_fields.2.1, P1_zero, e]
    dsimp only
    unfold upd
    have hmain : GoodF sc cl x y 0 y.length (cell sc cl x y y.length 0).t.ts (cell sc cl x y y.length 0).s := by
      rcases hmr.S with h | ⟨_, _, k, hk1, hk2, _⟩
      · exact h.1
      · omega
    by_cases hc : (cell sc cl x y y.length 0).sn > (cell sc cl x y y.length 0).s
    · rw [if_pos hc, if_pos hc]
      exact ysuf_good H hs hcols 0 (Nat.zero_le _) hmr.Sn _ (Int.le_refl _) hc
    · rw [if_neg hc, if_neg hc]; exact hmain
  · have hreg1 := (reg1_all H hs hcols hm1 hmr x.length (Nat.le_refl _)).1
    have hreg2 := reg2_all H hm1 hreg1 (hfinI hm1) x.length (Nat.le_refl _)
    obtain ⟨i, hi⟩ : ∃ i, x.length = i + 1 := ⟨x.length - 1, by omega⟩
    obtain ⟨_, e2, e3, _, _⟩ := post2Step_last (sc := sc) (cl := cl) (x := x) H.xs (p1L sc cl x y) (i + 1)
      (P2 sc cl x y i) hi.symm
    rw [← P2_succ sc cl x y i (by omega), ← hi] at e2 e3
    rw [e2, e3]
    by_cases hx : (P2 sc cl x y x.length).sm = .xsuf
    · obtain ⟨k, hk, hlx, hv⟩ := hreg2.1 hx
      rw [hx]
      have hl : (finalT sc cl x y).lx y.length = x.length - k := by
        rw [table_lx_n]; exact hlx
      have hG := ((hrows k (by omega)).2.2 hk).2.2
      have hts := table_tS_n sc cl x y k
      refine good_xsuf (sc := sc) (cl := cl) (x := x) (y := y) (T := finalT sc cl x y)
        (v' := (P2 sc cl x y k).s) (by rw [hl]; omega) (by rw [hl]; omega) ?_ hv
      rw [hl, show x.length - (x.length - k) = k by omega, hts]
      exact hG
    · exact hreg2.2 hx

end

end RbV.Model.PairwiseFill
