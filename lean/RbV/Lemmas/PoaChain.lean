import RbV.Model.Poa
/-!
# The POA recurrence on a graph built from one sequence computes the Needleman–Wunsch optimum

`Model.chainScore` runs the row functions of the mirror model (`row0`, `col0`, `firstCands`, `predCands`,
`insScan` — the same ones the general DP uses) over the chain `0 → 1 → … → m-1`.  The Rust recurrence differs
from the textbook one in two places: it works on prefixes (rows = reference nodes in order) and the first
node has no "delete this node after j insertions" candidate.  `chainScore_eq_nwBest` shows that neither
matters: the last cell equals `nwBest sc x y` for every scoring function, reference and query.
-/
namespace RbV.Poa.Model
open RbV.NW RbV.Poa

/-! ## Reversal invariance of the optimum -/

theorem score_append (sc : Sc) : ∀ (o1 : List Op) (x1 y1 x2 y2 : List Nat) (o2 : List Op) (a b : Int),
    score sc x1 y1 o1 = some a → score sc x2 y2 o2 = some b →
    score sc (x1 ++ x2) (y1 ++ y2) (o1 ++ o2) = some (a + b) := by
  intro o1
  induction o1 with
  | nil =>
    intro x1 y1 x2 y2 o2 a b h1 h2
    cases x1 <;> cases y1 <;> simp [score] at h1
    subst h1; simpa using h2
  | cons o r ih =>
    intro x1 y1 x2 y2 o2 a b h1 h2
    cases o with
    | mat =>
      cases x1 with
      | nil => simp [score] at h1
      | cons c x1 =>
        cases y1 with
        | nil => simp [score] at h1
        | cons d y1 =>
          simp only [score] at h1
          cases h' : score sc x1 y1 r with
          | none => simp [h'] at h1
          | some u =>
            simp [h'] at h1
            have := ih x1 y1 x2 y2 o2 u b h' h2
            simp only [List.cons_append, score, this, Option.map_some]
            congr 1; omega
    | ins =>
      cases y1 with
      | nil => cases x1 <;> simp [score] at h1
      | cons d y1 =>
        cases x1 with
        | nil =>
          simp only [score] at h1
          cases h' : score sc [] y1 r with
          | none => simp [h'] at h1
          | some u =>
            simp [h'] at h1
            have := ih [] y1 x2 y2 o2 u b h' h2
            cases x2 with
            | nil =>
              simp only [List.nil_append, List.cons_append] at this ⊢
              simp only [score, this, Option.map_some]; congr 1; omega
            | cons e x2 =>
              simp only [List.nil_append, List.cons_append] at this ⊢
              simp only [score, this, Option.map_some]; congr 1; omega
        | cons c x1 =>
          simp only [score] at h1
          cases h' : score sc (c :: x1) y1 r with
          | none => simp [h'] at h1
          | some u =>
            simp [h'] at h1
            have := ih (c :: x1) y1 x2 y2 o2 u b h' h2
            simp only [List.cons_append] at this ⊢
            simp only [score, this, Option.map_some]; congr 1; omega
    | del =>
      cases x1 with
      | nil => cases y1 <;> simp [score] at h1
      | cons c x1 =>
        simp only [score] at h1
        cases h' : score sc x1 y1 r with
        | none => simp [h'] at h1
        | some u =>
          simp [h'] at h1
          have := ih x1 y1 x2 y2 o2 u b h' h2
          cases hy : y1 ++ y2 with
          | nil =>
            rw [hy] at this
            simp only [List.cons_append, score, this, Option.map_some]; congr 1; omega
          | cons e t =>
            rw [hy] at this
            simp only [List.cons_append, score, this, Option.map_some]; congr 1; omega

theorem score_reverse (sc : Sc) : ∀ (ops : List Op) (x y : List Nat) (v : Int),
    score sc x y ops = some v → score sc x.reverse y.reverse ops.reverse = some v := by
  intro ops
  induction ops with
  | nil =>
    intro x y v h
    cases x <;> cases y <;> simp [score] at h
    subst h; simp [score]
  | cons o r ih =>
    intro x y v h
    cases o with
    | mat =>
      cases x with
      | nil => simp [score] at h
      | cons c x =>
        cases y with
        | nil => simp [score] at h
        | cons d y =>
          simp only [score] at h
          cases h' : score sc x y r with
          | none => simp [h'] at h
          | some u =>
            simp [h'] at h
            have h1 := ih x y u h'
            have h2 : score sc [c] [d] [Op.mat] = some (0 + sc.w c d) := by simp [score]
            have := score_append sc _ _ _ _ _ _ _ _ h1 h2
            simp only [List.reverse_cons]
            rw [this]; congr 1; omega
    | ins =>
      cases y with
      | nil => cases x <;> simp [score] at h
      | cons d y =>
        have hx : ∃ u, score sc x y r = some u ∧ v = u + sc.gap := by
          cases x with
          | nil =>
            simp only [score] at h
            cases h' : score sc [] y r with
            | none => simp [h'] at h
            | some u => simp [h'] at h; exact ⟨u, rfl, by omega⟩
          | cons c x =>
            simp only [score] at h
            cases h' : score sc (c :: x) y r with
            | none => simp [h'] at h
            | some u => simp [h'] at h; exact ⟨u, rfl, by omega⟩
        obtain ⟨u, h', hv⟩ := hx
        have h1 := ih x y u h'
        have h2 : score sc [] [d] [Op.ins] = some (0 + sc.gap) := by simp [score]
        have := score_append sc _ _ _ _ _ _ _ _ h1 h2
        simp only [List.reverse_cons]
        simp only [List.append_nil] at this
        rw [this]; congr 1; omega
    | del =>
      cases x with
      | nil => cases y <;> simp [score] at h
      | cons c x =>
        simp only [score] at h
        cases h' : score sc x y r with
        | none => simp [h'] at h
        | some u =>
          simp [h'] at h
          have h1 := ih x y u h'
          have h2 : score sc [c] [] [Op.del] = some (0 + sc.gap) := by simp [score]
          have := score_append sc _ _ _ _ _ _ _ _ h1 h2
          simp only [List.reverse_cons]
          simp only [List.append_nil] at this
          rw [this]; congr 1; omega

theorem nwBest_reverse_le (sc : Sc) (x y : List Nat) : nwBest sc x.reverse y.reverse ≤ nwBest sc x y := by
  obtain ⟨ops, h⟩ := nw_attained sc x.reverse y.reverse
  have := score_reverse sc ops _ _ _ h
  simp only [List.reverse_reverse] at this
  exact nw_upper sc _ _ _ _ this

theorem nwBest_reverse (sc : Sc) (x y : List Nat) : nwBest sc x.reverse y.reverse = nwBest sc x y := by
  have h1 := nwBest_reverse_le sc x y
  have h2 := nwBest_reverse_le sc x.reverse y.reverse
  simp only [List.reverse_reverse] at h2
  omega

/-! ## Closed forms on the border, and the one inequality the missing candidate needs -/

theorem nwBest_nil_left (sc : Sc) : ∀ y : List Nat, nwBest sc [] y = (y.length : Int) * sc.gap := by
  intro y
  induction y with
  | nil => simp [nwBest]
  | cons b y ih =>
    rw [nwBest, ih]
    simp only [List.length_cons, Int.natCast_add, Int.add_mul]
    omega

theorem nwBest_nil_right (sc : Sc) : ∀ x : List Nat, nwBest sc x [] = (x.length : Int) * sc.gap := by
  intro x
  induction x with
  | nil => simp [nwBest]
  | cons a x ih =>
    rw [nwBest, ih]
    simp only [List.length_cons, Int.natCast_add, Int.add_mul]
    omega

theorem nwBest_del_ge (sc : Sc) (a : Nat) (x y : List Nat) : sc.gap + nwBest sc x y ≤ nwBest sc (a :: x) y := by
  cases y with
  | nil => rw [nwBest]; omega
  | cons b y => rw [nwBest]; omega

/-! ## Rows -/

/-- optimum of `xr` against every extension of the processed (reversed) query prefix `yr` by symbols of `q` -/
def specRowP (sc : Sc) (xr : List Nat) : List Nat → List Nat → List Int
  | _, [] => []
  | yr, b :: q => nwBest sc xr (b :: yr) :: specRowP sc xr (b :: yr) q

theorem cmax_score (a b : Cell) : (cmax a b).score = max a.score b.score := by
  unfold cmax; split <;> omega

theorem row0From_scores (sc : Sc) : ∀ (q yr : List Nat),
    (row0From sc.gap yr.length q.length).map (·.score) = specRowP sc [] yr q := by
  intro q
  induction q with
  | nil => intro yr; simp [row0From, specRowP]
  | cons b q ih =>
    intro yr
    simp only [List.length_cons, row0From, List.map_cons, specRowP]
    have := ih (b :: yr)
    simp only [List.length_cons] at this
    rw [this, nwBest_nil_left]
    simp

/-- a node with one predecessor: the Rust row is the spec row -/
theorem predRow_scores (sc : Sc) (a : Nat) (xr : List Nat) (mOp dOp iOp : POp) :
    ∀ (q yr : List Nat) (diag : Cell) (ups : List Cell) (left : Cell),
      diag.score = nwBest sc xr yr → ups.map (·.score) = specRowP sc xr yr q →
      left.score = nwBest sc (a :: xr) yr →
      (insScan sc.gap iOp left (predCands sc a mOp dOp diag ups q)).map (·.score) = specRowP sc (a :: xr) yr q := by
  intro q
  induction q with
  | nil =>
    intro yr diag ups left _ _ _
    cases ups <;> simp [predCands, insScan, specRowP]
  | cons b q ih =>
    intro yr diag ups left hd hu hl
    cases ups with
    | nil => simp [specRowP] at hu
    | cons up ups =>
      simp only [specRowP, List.map_cons, List.cons.injEq] at hu
      simp only [predCands, insScan, List.map_cons, specRowP]
      have hcell : (cmax (cmax ⟨diag.score + sc.w a b, mOp⟩ ⟨up.score + sc.gap, dOp⟩) ⟨left.score + sc.gap, iOp⟩).score
          = nwBest sc (a :: xr) (b :: yr) := by
        rw [cmax_score, cmax_score]
        simp only []
        rw [hd, hu.1, hl]
        conv => rhs; rw [nwBest]
        omega
      rw [ih (b :: yr) up ups _ hu.1 hu.2 hcell, hcell]

/-- the first node: no "delete after insertions" candidate, same row nevertheless -/
theorem firstRow_scores (sc : Sc) (a : Nat) (iOp : POp) :
    ∀ (q yr : List Nat) (cells : List Cell) (left : Cell),
      cells.map (·.score) = nwBest sc [] yr :: specRowP sc [] yr q →
      left.score = nwBest sc [a] yr →
      (insScan sc.gap iOp left (firstCands sc a cells q)).map (·.score) = specRowP sc [a] yr q := by
  intro q
  induction q with
  | nil =>
    intro yr cells left _ _
    cases cells <;> simp [firstCands, insScan, specRowP]
  | cons b q ih =>
    intro yr cells left hc hl
    cases cells with
    | nil => simp at hc
    | cons d rest =>
      simp only [List.map_cons, List.cons.injEq, specRowP] at hc
      simp only [firstCands, insScan, List.map_cons, specRowP]
      have hcell : (cmax (⟨d.score + sc.w a b, .m none⟩ : Cell) ⟨left.score + sc.gap, iOp⟩).score
          = nwBest sc [a] (b :: yr) := by
        rw [cmax_score]
        simp only []
        rw [hc.1, hl]
        have h1 := nwBest_del_ge sc a [] yr
        have h2 : nwBest sc [] (b :: yr) = sc.gap + nwBest sc [] yr := by rw [nwBest]
        conv => rhs; rw [nwBest]
        omega
      have hrest : rest.map (·.score) = nwBest sc [] (b :: yr) :: specRowP sc [] (b :: yr) q := by
        rw [hc.2]
      rw [ih (b :: yr) rest _ hrest hcell, hcell]

/-- scores of the full row that belongs to the processed reference prefix `xr` (reversed) -/
def specFull (sc : Sc) (xr y : List Nat) : List Int := nwBest sc xr [] :: specRowP sc xr [] y

theorem row0_scores (sc : Sc) (y : List Nat) : (row0 sc.gap y.length).map (·.score) = specFull sc [] y := by
  simp only [row0, List.map_cons, specFull]
  have := row0From_scores sc y []
  simp only [List.length_nil] at this
  rw [this]; simp [nwBest]

theorem col0_score (sc : Sc) (a : Nat) (xr : List Nat) :
    (col0 sc.gap xr.length).score = nwBest sc (a :: xr) [] := by
  rw [nwBest_nil_right]
  simp [col0]

theorem chainRows_scores (sc : Sc) (y : List Nat) :
    ∀ (x xr : List Nat) (pr : List Cell), pr.map (·.score) = specFull sc xr y →
      (chainRows sc y (row0 sc.gap y.length) xr.length (if xr = [] then none else some pr) x).map (·.score)
        = specFull sc (x.reverse ++ xr) y := by
  intro x
  induction x with
  | nil =>
    intro xr pr hpr
    simp only [chainRows, List.reverse_nil, List.nil_append]
    by_cases hx : xr = []
    · subst hx; simp [row0_scores]
    · simp [hx, hpr]
  | cons a x ih =>
    intro xr pr hpr
    simp only [chainRows]
    have hnext : (nodeRow sc y (row0 sc.gap y.length) xr.length a
        (match (if xr = [] then none else some pr) with | none => [] | some pr => [(xr.length - 1, pr)])).map (·.score)
        = specFull sc (a :: xr) y := by
      by_cases hx : xr = []
      · subst hx
        simp only [if_true, nodeRow, List.map_cons, specFull, List.length_nil]
        have h0 := row0_scores sc y
        have hc := col0_score sc a []
        simp only [List.length_nil] at hc
        rw [firstRow_scores sc a _ y [] _ _ (by simpa [specFull] using h0) hc, hc]
      · simp only [hx, if_false, nodeRow, List.foldl_nil, specFull]
        cases pr with
        | nil => simp [specFull] at hpr
        | cons d ups =>
          simp only [specFull, List.map_cons, List.cons.injEq] at hpr
          have hc := col0_score sc a xr
          simp only [List.map_cons]
          rw [predRow_scores sc a xr _ _ _ y [] d ups _ hpr.1 hpr.2 hc, hc]
    have := ih (a :: xr) _ hnext
    simp only [List.length_cons, reduceCtorEq, if_false] at this
    simp only [List.reverse_cons, List.append_assoc, List.singleton_append]
    exact this

theorem specRowP_last (sc : Sc) (xr : List Nat) : ∀ (q yr : List Nat),
    (nwBest sc xr yr :: specRowP sc xr yr q).getLast? = some (nwBest sc xr (q.reverse ++ yr)) := by
  intro q
  induction q with
  | nil => intro yr; simp [specRowP]
  | cons b q ih =>
    intro yr
    simp only [specRowP, List.getLast?_cons_cons]
    rw [ih (b :: yr)]
    simp

/-- **refinement theorem**: the score `Aligner::global` computes on the graph built from `x` alone, as
mirrored by the model's row functions, is the Needleman–Wunsch optimum -/
theorem chainScore_eq_nwBest (sc : Sc) (x y : List Nat) : chainScore sc x y = nwBest sc x y := by
  unfold chainScore
  have h2 := chainRows_scores sc y x [] (row0 sc.gap y.length) (row0_scores sc y)
  simp only [List.length_nil, if_true, List.append_nil] at h2
  rw [← List.getLast?_map, h2, specFull, specRowP_last]
  simp only [List.append_nil, Option.getD_some]
  exact nwBest_reverse sc x y

end RbV.Poa.Model
