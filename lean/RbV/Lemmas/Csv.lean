import RbV.Model.Tsv
/-! Lemmas on the csv layer of `Model/Tsv.lean` (quoting writer, state-machine reader) for C13. Core Lean only. -/
namespace RbV.Tsv

/-! ## bytes -/

theorem needsQuote_false {c : Nat} (h : needsQuote c = false) : c ≠ TAB ∧ c ≠ QUOTE ∧ c ≠ CR ∧ c ≠ LF := by
  unfold needsQuote at h
  simp only [Bool.or_eq_false_iff, beq_eq_false_iff_ne, ne_eq] at h
  exact ⟨h.1.1.1, h.1.1.2, h.1.2, h.2⟩

theorem isTerm_of_plain {c : Nat} (h : needsQuote c = false) : isTerm c = false := by
  obtain ⟨_, _, h3, h4⟩ := needsQuote_false h
  simp [isTerm, h3, h4]

theorem isTerm_LF : isTerm LF = true := by decide
theorem isTerm_TAB : isTerm TAB = false := by decide
theorem isTerm_QUOTE : isTerm QUOTE = false := by decide

/-! ## the reader, one byte at a time -/

theorem run_cons (s : Csv) (c : Nat) (r : List Nat) :
    run s (c :: r) = (step s c).2.toList ++ run (step s c).1 r := by
  rw [run]

/-- state after a byte string -/
def runState : Csv → List Nat → Csv
  | s, [] => s
  | s, c :: r => runState (step s c).1 r

/-- records completed inside a byte string -/
def emitted : Csv → List Nat → List (List (List Nat))
  | _, [] => []
  | s, c :: r => (step s c).2.toList ++ emitted (step s c).1 r

theorem run_append (a b : List Nat) : ∀ s : Csv, run s (a ++ b) = emitted s a ++ run (runState s a) b := by
  induction a with
  | nil => intro s; simp [emitted, runState]
  | cons c r ih =>
    intro s
    rw [List.cons_append, run_cons, ih]
    simp [emitted, runState]

theorem run_eq_emitted (a : List Nat) (s : Csv) : run s a = emitted s a ++ finish (runState s a) := by
  have := run_append a [] s
  simpa [run] using this

/-! ## reading what the writer wrote -/

/-- an unquoted field body is copied byte by byte -/
theorem run_inField_plain (f : List Nat) (hf : f.any needsQuote = false) : ∀ (acc : List Nat)
    (flds : List (List Nat)) (rest : List Nat),
    run ⟨.inField, acc, flds⟩ (f ++ rest) = run ⟨.inField, acc ++ f, flds⟩ rest := by
  induction f with
  | nil => intro acc flds rest; simp
  | cons c t ih =>
    intro acc flds rest
    simp only [List.any_cons, Bool.or_eq_false_iff] at hf
    obtain ⟨hc, ht⟩ := hf
    obtain ⟨h1, _, _, _⟩ := needsQuote_false hc
    have hterm := isTerm_of_plain hc
    rw [List.cons_append, run_cons]
    simp only [step, h1, hterm, if_false, Bool.false_eq_true]
    rw [ih ht]
    simp

/-- a quoted field body (quotes doubled) up to the closing quote gives back the field -/
theorem run_inQuoted_escaped (f : List Nat) : ∀ (acc : List Nat) (flds : List (List Nat)) (rest : List Nat),
    run ⟨.inQuoted, acc, flds⟩ (escapeQuotes f ++ QUOTE :: rest) = run ⟨.quoteInQuoted, acc ++ f, flds⟩ rest := by
  induction f with
  | nil =>
    intro acc flds rest
    simp only [escapeQuotes, List.nil_append, List.append_nil]
    rw [run_cons]
    simp [step]
  | cons c t ih =>
    intro acc flds rest
    by_cases hc : c = QUOTE
    · subst hc
      simp only [escapeQuotes, if_true, List.cons_append]
      rw [run_cons]
      simp only [step, if_true]
      rw [run_cons]
      simp only [step, if_true]
      rw [ih]
      simp
    · simp only [escapeQuotes, hc, if_false, List.cons_append]
      rw [run_cons]
      simp only [step, hc, if_false]
      rw [ih]
      simp

/-- a byte `e` that ends a field (TAB, CR or LF) in one of the states in which a field can end -/
theorem run_end (st : CsvSt) (hst : st = .startField ∨ st = .inField ∨ st = .quoteInQuoted)
    (acc : List Nat) (hacc : st = .startField → acc = []) (flds : List (List Nat)) (e : Nat) (rest : List Nat)
    (he : e = TAB ∨ isTerm e = true) :
    run ⟨st, acc, flds⟩ (e :: rest)
      = if e = TAB then run ⟨.startField, [], flds ++ [acc]⟩ rest else (flds ++ [acc]) :: run Csv.start rest := by
  have heq : e ≠ QUOTE := by
    rcases he with h | h
    · rw [h]; decide
    · intro h'; rw [h'] at h; exact absurd h (by decide)
  rw [run_cons]
  have htq : TAB ≠ QUOTE := by decide
  by_cases ht : e = TAB
  · subst ht
    rcases hst with h | h | h
    · subst h; rw [hacc rfl]; simp [step, stepField, htq]
    · subst h; simp [step]
    · subst h; simp [step, htq]
  · have hterm : isTerm e = true := by
      rcases he with h | h
      · exact absurd h ht
      · exact h
    rcases hst with h | h | h
    · subst h; rw [hacc rfl]; simp [step, stepField, ht, heq, hterm]
    · subst h; simp [step, ht, hterm]
    · subst h; simp [step, ht, heq, hterm]

/-- what the reader does with a written field followed by a byte `e` that ends it (TAB, CR or LF), starting in
`StartField`: the field is read back, whatever it contains -/
theorem run_field (f : List Nat) (flds : List (List Nat)) (e : Nat) (rest : List Nat)
    (he : e = TAB ∨ isTerm e = true) :
    run ⟨.startField, [], flds⟩ (quoteField f ++ e :: rest)
      = if e = TAB then run ⟨.startField, [], flds ++ [f]⟩ rest else (flds ++ [f]) :: run Csv.start rest := by
  unfold quoteField
  by_cases hq : f.any needsQuote = true
  · simp only [hq, if_true, List.cons_append, List.append_assoc]
    rw [run_cons]
    simp only [step, stepField, if_true, Option.toList_none, List.nil_append]
    rw [run_inQuoted_escaped, List.nil_append]
    exact run_end .quoteInQuoted (by simp) f (by simp) flds e rest he
  · have hq' : f.any needsQuote = false := by simpa using hq
    simp only [hq', Bool.false_eq_true, if_false]
    cases f with
    | nil => exact run_end .startField (by simp) [] (by simp) flds e rest he
    | cons c t =>
      simp only [List.any_cons, Bool.or_eq_false_iff] at hq'
      obtain ⟨hc, ht'⟩ := hq'
      obtain ⟨h1, h2, _, _⟩ := needsQuote_false hc
      have hterm := isTerm_of_plain hc
      rw [List.cons_append, run_cons]
      simp only [step, stepField, h1, h2, hterm, if_false, Bool.false_eq_true, Option.toList_none,
        List.nil_append]
      rw [run_inField_plain t ht', List.singleton_append]
      exact run_end .inField (by simp) (c :: t) (by simp) flds e rest he

/-- a whole written record (at least one field), starting in `StartField` -/
theorem run_fields : ∀ (fs : List (List Nat)), fs ≠ [] → ∀ (flds : List (List Nat)) (rest : List Nat),
    run ⟨.startField, [], flds⟩ (join TAB (fs.map quoteField) ++ LF :: rest)
      = (flds ++ fs) :: run Csv.start rest := by
  intro fs
  induction fs with
  | nil => intro h; exact absurd rfl h
  | cons f t ih =>
    intro _ flds rest
    cases t with
    | nil =>
      simp only [List.map_cons, List.map_nil, join]
      rw [run_field f flds LF rest (Or.inr isTerm_LF)]
      simp [LF, TAB]
    | cons g u =>
      simp only [List.map_cons, join, List.append_assoc, List.cons_append]
      rw [run_field f flds TAB _ (Or.inl rfl)]
      simp only [if_true]
      have := ih (by simp) (flds ++ [f]) rest
      simp only [List.map_cons] at this
      rw [this]
      simp

/-- in `StartRecord` a byte that neither ends a line nor opens a comment is handled as in `StartField` -/
theorem run_start_eq (c : Nat) (r : List Nat) (h1 : isTerm c = false) (h2 : c ≠ HASH) :
    run Csv.start (c :: r) = run ⟨.startField, [], []⟩ (c :: r) := by
  rw [run_cons, run_cons]
  simp [step, Csv.start, h1, h2]

theorem join_cons_cons' (sep : Nat) (p q : List Nat) (r : List (List Nat)) :
    join sep (p :: q :: r) = p ++ sep :: join sep (q :: r) := rfl

/-- the first byte of a written record is neither a line end nor `#` (unless the record is `hashStart`) -/
theorem recordBody_head (fs : List (List Nat)) (hne : fs ≠ []) (hh : hashStart fs = false) (rest : List Nat) :
    ∃ c r, join TAB (fs.map quoteField) ++ LF :: rest = c :: r ∧
      (fs = [[]] ∨ (isTerm c = false ∧ c ≠ HASH)) := by
  cases fs with
  | nil => exact absurd rfl hne
  | cons f t =>
    by_cases hq : f.any needsQuote = true
    · refine ⟨QUOTE, ?_, ?_, Or.inr ⟨by decide, by decide⟩⟩
      · exact escapeQuotes f ++ QUOTE :: ((match t with
          | [] => [] | g :: u => TAB :: join TAB ((g :: u).map quoteField)) ++ LF :: rest)
      · cases t with
        | nil => simp [join, quoteField, hq]
        | cons g u => simp [join, quoteField, hq]
    · have hq' : f.any needsQuote = false := by simpa using hq
      cases f with
      | nil =>
        cases t with
        | nil => exact ⟨LF, rest, by simp [join, quoteField], Or.inl rfl⟩
        | cons g u =>
          exact ⟨TAB, join TAB ((g :: u).map quoteField) ++ LF :: rest, by simp [join, quoteField],
            Or.inr ⟨by decide, by decide⟩⟩
      | cons c f' =>
        have hc : needsQuote c = false := by
          simp only [List.any_cons, Bool.or_eq_false_iff] at hq'
          exact hq'.1
        have hhash : c ≠ HASH := by
          intro e
          have h2 : hashStart ((c :: f') :: t) = (some c == some HASH && !(c :: f').any needsQuote) := rfl
          rw [h2, hq', e] at hh
          simp at hh
        refine ⟨c, ?_, ?_, Or.inr ⟨isTerm_of_plain hc, hhash⟩⟩
        · exact f' ++ ((match t with
            | [] => [] | g :: u => TAB :: join TAB ((g :: u).map quoteField)) ++ LF :: rest)
        · cases t with
          | nil => simp [join, quoteField, hq']
          | cons g u => simp [join, quoteField, hq']

/-- **csv record round trip**: a written record followed by LF is read back as the original fields, whatever
bytes they contain, and the reader is at the start of a record again -/
theorem run_empty_record (rest : List Nat) :
    run Csv.start ([QUOTE, QUOTE] ++ LF :: rest) = [[]] :: run Csv.start rest := by
  simp only [List.cons_append, List.nil_append]
  rw [run_cons, run_cons, run_cons]
  simp [step, stepField, Csv.start, isTerm, QUOTE, HASH, LF, TAB, CR]

theorem join_quote_isEmpty (fs : List (List Nat)) (hne : fs ≠ [])
    (hb : (join TAB (fs.map quoteField)).isEmpty = true) : fs = [[]] := by
  cases fs with
  | nil => exact absurd rfl hne
  | cons f t =>
    cases t with
    | nil =>
      simp only [List.map_cons, List.map_nil, join, List.isEmpty_iff] at hb
      unfold quoteField at hb
      by_cases hq : f.any needsQuote = true
      · simp [hq] at hb
      · have hq' : f.any needsQuote = false := by simpa using hq
        simp only [hq', Bool.false_eq_true, if_false] at hb
        rw [hb]
    | cons g u =>
      simp only [List.map_cons, join, List.isEmpty_iff] at hb
      simp at hb

theorem run_record (fs : List (List Nat)) (hne : fs ≠ []) (hh : hashStart fs = false) (rest : List Nat) :
    run Csv.start (recordBody fs ++ LF :: rest) = fs :: run Csv.start rest := by
  unfold recordBody
  by_cases hb : (join TAB (fs.map quoteField)).isEmpty = true
  · -- only `[[]]` is written as zero bytes
    have hfs := join_quote_isEmpty fs hne hb
    simp only [hb, if_true]
    rw [hfs]
    exact run_empty_record rest
  · have hb' : (join TAB (fs.map quoteField)).isEmpty = false := by simpa using hb
    simp only [hb', Bool.false_eq_true, if_false]
    obtain ⟨c, r, hcr, hc⟩ := recordBody_head fs hne hh rest
    rcases hc with hc | ⟨hc1, hc2⟩
    · subst hc
      simp [join, quoteField] at hb
    · have := run_fields fs hne [] rest
      rw [hcr] at this ⊢
      rw [run_start_eq c r hc1 hc2, this]
      simp

/-! ## comment lines and blank lines -/

theorem run_comment_body (t : List Nat) (h : LF ∉ t) (rest : List Nat) :
    run ⟨.inComment, [], []⟩ (t ++ LF :: rest) = run Csv.start rest := by
  induction t with
  | nil =>
    simp only [List.nil_append]
    rw [run_cons]
    simp [step]
  | cons c u ih =>
    have hc : c ≠ LF := by
      intro e; apply h; simp [e]
    have hu : LF ∉ u := by
      intro e; apply h; simp [e]
    rw [List.cons_append, run_cons]
    simp only [step, hc, if_false]
    exact ih hu

theorem run_comment (t : List Nat) (h : LF ∉ t) (rest : List Nat) :
    run Csv.start (HASH :: t ++ LF :: rest) = run Csv.start rest := by
  rw [List.cons_append, run_cons]
  have : isTerm HASH = false := by decide
  simp only [step, Csv.start, this, Bool.false_eq_true, if_false, if_true]
  exact run_comment_body t h rest

theorem run_blank (rest : List Nat) : run Csv.start (LF :: rest) = run Csv.start rest := by
  rw [run_cons]
  simp [step, Csv.start, isTerm_LF]

/-- **files**: record lines (written records), comment lines and blank lines in any order are read as exactly
the records -/
theorem rows_fileOf : ∀ (items : List Item) (fss : List (List (List Nat))),
    items.filterMap Item.rec? = fss.map recordBody →
    (∀ fs ∈ fss, fs ≠ [] ∧ hashStart fs = false) →
    (∀ t, Item.comment t ∈ items → LF ∉ t) →
    rows (fileOf items) = fss := by
  intro items
  unfold rows fileOf
  induction items with
  | nil =>
    intro fss h _ _
    have : fss = [] := by
      cases fss with
      | nil => rfl
      | cons _ _ => simp at h
    subst this
    decide
  | cons it rest ih =>
    intro fss h hok hc
    have hc' : ∀ t, Item.comment t ∈ rest → LF ∉ t := fun t ht => hc t (by simp [ht])
    cases it with
    | record l =>
      cases fss with
      | nil => simp [Item.rec?] at h
      | cons fs fss' =>
        simp only [List.filterMap_cons, Item.rec?, List.map_cons, List.cons.injEq] at h
        obtain ⟨hl, hrest⟩ := h
        subst hl
        obtain ⟨hne, hh⟩ := hok fs (by simp)
        simp only [List.map_cons, Item.line, render, List.append_assoc, List.cons_append]
        rw [run_record fs hne hh]
        rw [ih fss' hrest (fun x hx => hok x (by simp [hx])) hc']
    | comment t =>
      simp only [List.filterMap_cons, Item.rec?] at h
      simp only [List.map_cons, Item.line, render, List.append_assoc, List.cons_append]
      have := run_comment t (hc t (by simp)) (render (rest.map Item.line) ++ [LF])
      simp only [List.cons_append] at this
      rw [this]
      exact ih fss h hok hc'
    | blank =>
      simp only [List.filterMap_cons, Item.rec?] at h
      simp only [List.map_cons, Item.line, render, List.nil_append, List.cons_append]
      rw [run_blank]
      exact ih fss h hok hc'

/-! ## what follows a line break outside quotes never changes what was read before it -/

/-- the bytes end inside an open quoted field -/
def openQuote (a : List Nat) : Bool := (runState Csv.start a).st == .inQuoted

theorem step_LF_start (s : Csv) (h : s.st ≠ .inQuoted) : (step s LF).1 = Csv.start := by
  obtain ⟨st, fld, flds⟩ := s
  cases st <;> simp_all [step, stepField, isTerm, LF, QUOTE, TAB, CR, Csv.start]

theorem rows_append (a b : List Nat) (h : openQuote a = false) : rows (a ++ LF :: b) = rows a ++ rows b := by
  have hst : (runState Csv.start a).st ≠ .inQuoted := by
    unfold openQuote at h
    simpa using h
  have h1 := step_LF_start _ hst
  unfold rows
  rw [List.append_assoc, run_append a, run_append a [LF], List.cons_append, List.append_assoc]
  congr 1
  rw [run_cons, run_cons]
  cases hs : step (runState Csv.start a) LF with
  | mk s' o =>
    rw [hs] at h1
    simp only at h1
    subst h1
    cases o with
    | none => simp [run, finish, Csv.start]
    | some rec => simp [run, finish, Csv.start]

end RbV.Tsv
