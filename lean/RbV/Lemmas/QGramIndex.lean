import RbV.Model.QGramIndex
import RbV.Lemmas.QGram
/-! Counting-sort correctness of the q-gram index model. Core Lean only. -/
namespace RbV.QGram
open RbV

/-! ### arrays as lists -/

theorem getD_set (l : List Nat) (i j v : Nat) :
    (l.set i v).getD j 0 = if i = j ∧ i < l.length then v else l.getD j 0 := by
  simp only [List.getD_eq_getElem?_getD, List.getElem?_set]
  by_cases h : i = j
  · subst h
    by_cases hl : i < l.length
    · simp [hl]
    · simp [hl]
  · simp [h]

theorem getD_replicate_zero (n j : Nat) : (List.replicate n 0).getD j 0 = 0 := by
  simp only [List.getD_eq_getElem?_getD, List.getElem?_replicate]
  split <;> rfl

/-! ### positions of a code, ascending -/

def posFrom (c : Nat) : Nat → List Nat → List Nat
  | _, [] => []
  | off, x :: l => if x = c then off :: posFrom c (off + 1) l else posFrom c (off + 1) l

theorem posFrom_snoc (c off : Nat) (l : List Nat) (x : Nat) :
    posFrom c off (l ++ [x]) = posFrom c off l ++ (if x = c then [off + l.length] else []) := by
  induction l generalizing off with
  | nil => simp [posFrom]
  | cons y l ih =>
    simp only [List.cons_append, posFrom, List.length_cons]
    have e : off + 1 + l.length = off + (l.length + 1) := by omega
    split <;> simp [ih, e]

theorem length_posFrom (c off : Nat) (l : List Nat) : (posFrom c off l).length = l.count c := by
  induction l generalizing off with
  | nil => simp [posFrom]
  | cons y l ih =>
    simp only [posFrom, List.count_cons]
    split
    · rename_i h; simp [ih, h]
    · rename_i h
      have : (y == c) = false := by simpa using h
      simp [ih, this]

theorem mem_posFrom (c off : Nat) (l : List Nat) (i : Nat) :
    i ∈ posFrom c off l ↔ off ≤ i ∧ l[i - off]? = some c := by
  induction l generalizing off with
  | nil => simp [posFrom]
  | cons y l ih =>
    simp only [posFrom]
    by_cases hy : y = c
    · simp only [hy, if_true, List.mem_cons, ih]
      constructor
      · rintro (rfl | ⟨h1, h2⟩)
        · simp
        · refine ⟨by omega, ?_⟩
          have : i - off = (i - (off + 1)) + 1 := by omega
          rw [this]; simpa using h2
      · rintro ⟨h1, h2⟩
        by_cases hi : i = off
        · left; exact hi
        · right
          refine ⟨by omega, ?_⟩
          have : i - off = (i - (off + 1)) + 1 := by omega
          rw [this] at h2; simpa using h2
    · simp only [hy, if_false, ih]
      constructor
      · rintro ⟨h1, h2⟩
        refine ⟨by omega, ?_⟩
        have : i - off = (i - (off + 1)) + 1 := by omega
        rw [this]; simpa using h2
      · rintro ⟨h1, h2⟩
        by_cases hi : i = off
        · subst hi; simp at h2; exact absurd h2 hy
        · refine ⟨by omega, ?_⟩
          have : i - off = (i - (off + 1)) + 1 := by omega
          rw [this] at h2; simpa using h2

theorem posFrom_lower (c off : Nat) (l : List Nat) : ∀ i ∈ posFrom c off l, off ≤ i :=
  fun i hi => ((mem_posFrom c off l i).mp hi).1

theorem posFrom_sorted (c off : Nat) (l : List Nat) : (posFrom c off l).Pairwise (· < ·) := by
  induction l generalizing off with
  | nil => simp [posFrom]
  | cons y l ih =>
    simp only [posFrom]
    split
    · rw [List.pairwise_cons]
      exact ⟨fun j hj => by have := posFrom_lower c (off + 1) l j hj; omega, ih (off + 1)⟩
    · exact ih (off + 1)

/-! ### counting -/

theorem length_bump1 (l : List Nat) (i : Nat) : (bump1 l i).length = l.length := by simp [bump1]

theorem length_foldl_bump1 (codes T : List Nat) : (codes.foldl bump1 T).length = T.length := by
  induction codes generalizing T with
  | nil => rfl
  | cons c codes ih => simp only [List.foldl_cons]; rw [ih, length_bump1]

theorem getD_foldl_bump1 (codes T : List Nat) (hc : ∀ c ∈ codes, c < T.length) (j : Nat) :
    (codes.foldl bump1 T).getD j 0 = T.getD j 0 + codes.count j := by
  induction codes generalizing T with
  | nil => simp
  | cons c codes ih =>
    simp only [List.foldl_cons]
    rw [ih (bump1 T c) (by intro x hx; rw [length_bump1]; exact hc x (by simp [hx]))]
    have hcl : c < T.length := hc c (by simp)
    unfold bump1
    rw [getD_set, List.count_cons]
    by_cases h : c = j
    · subst h; simp [hcl]; omega
    · have : (c == j) = false := by simpa using h
      simp [h, this]

/-! ### prefix sums -/

theorem length_prescan (s : Nat) (l : List Nat) : (prescan s l).length = l.length := by
  induction l generalizing s with
  | nil => rfl
  | cons v t ih => simp [prescan, ih]

theorem getD_prescan (s : Nat) (l : List Nat) (j : Nat) (hj : j < l.length) :
    (prescan s l).getD j 0 = s + (l.take j).sum := by
  induction l generalizing s j with
  | nil => simp at hj
  | cons v t ih =>
    cases j with
    | zero => simp [prescan]
    | succ j =>
      simp only [prescan, List.getD_eq_getElem?_getD, List.getElem?_cons_succ, List.take_succ_cons, List.sum_cons]
      have := ih (s + v) j (by simpa using hj)
      simp only [List.getD_eq_getElem?_getD] at this
      rw [this]; omega

theorem sum_take_succ (l : List Nat) (c : Nat) : (l.take (c + 1)).sum = (l.take c).sum + l.getD c 0 := by
  induction l generalizing c with
  | nil => simp
  | cons v t ih =>
    cases c with
    | zero => simp
    | succ c =>
      simp only [List.take_succ_cons, List.sum_cons, ih c]
      simp only [List.getD_eq_getElem?_getD, List.getElem?_cons_succ]
      omega

theorem sum_take_mono (l : List Nat) {c c' : Nat} (h : c ≤ c') : (l.take c).sum ≤ (l.take c').sum := by
  induction h with
  | refl => exact Nat.le_refl _
  | step _ ih => rw [sum_take_succ]; omega


/-! ### the fill loop -/

theorem getD_append_left (l r : List Nat) (t : Nat) (h : t < l.length) : (l ++ r).getD t 0 = l.getD t 0 := by
  simp only [List.getD_eq_getElem?_getD, List.getElem?_append_left h]

theorem getD_append_length (l : List Nat) (x : Nat) : (l ++ [x]).getD l.length 0 = x := by
  simp [List.getD_eq_getElem?_getD]

/-- invariant of the loop after the codes `P` have been processed -/
def FillInv (m : List Nat) (size : Nat) (P : List Nat) (st : List Nat × List Nat) : Prop :=
  st.1.length = (m.take size).sum ∧ st.2.length = size ∧
  ∀ c, c < size → m.getD c 0 ≠ 0 →
    st.2.getD c 0 = (posFrom c 0 P).length ∧
    ∀ t, t < (posFrom c 0 P).length → st.1.getD ((m.take c).sum + t) 0 = (posFrom c 0 P).getD t 0

theorem fillInv_step (m : List Nat) (size : Nat) (address codes : List Nat)
    (haddr : ∀ c, c ≤ size → address.getD c 0 = (m.take c).sum)
    (hmc : ∀ c, c < size → m.getD c 0 = 0 ∨ m.getD c 0 = codes.count c)
    (P : List Nat) (x : Nat) (rest : List Nat) (hsplit : codes = P ++ x :: rest) (hx : x < size)
    (st : List Nat × List Nat) (hinv : FillInv m size P st) :
    FillInv m size (P ++ [x]) (fillStep address st P.length x) := by
  obtain ⟨hl1, hl2, hinv⟩ := hinv
  have hdiff : address.getD (x + 1) 0 - address.getD x 0 = m.getD x 0 := by
    rw [haddr (x + 1) (by omega), haddr x (by omega), sum_take_succ]; omega
  have hcount : ∀ c, (posFrom c 0 P).length ≤ codes.count c := by
    intro c; rw [length_posFrom, hsplit, List.count_append]; omega
  unfold fillStep
  simp only [hdiff]
  by_cases hm0 : m.getD x 0 = 0
  · -- masked (or absent) q-gram: nothing happens
    simp only [hm0, bne_self_eq_false, Bool.false_eq_true, if_false]
    refine ⟨hl1, hl2, fun c hc hmc0 => ?_⟩
    have hcx : ¬ x = c := by intro h; rw [h] at hm0; exact hmc0 hm0
    rw [posFrom_snoc]; simp only [hcx, if_false, List.append_nil]
    exact hinv c hc hmc0
  · have hne : (m.getD x 0 != 0) = true := by simpa using hm0
    simp only [hne, if_true]
    obtain ⟨hoffx, hposx⟩ := hinv x hx hm0
    have hmx : m.getD x 0 = codes.count x := by
      rcases hmc x hx with h | h
      · exact absurd h hm0
      · exact h
    have hlt : (posFrom x 0 P).length < m.getD x 0 := by
      rw [hmx, length_posFrom, hsplit, List.count_append, List.count_cons]; simp
    have hAx1 : (m.take (x + 1)).sum = (m.take x).sum + m.getD x 0 := sum_take_succ m x
    have hAle : (m.take (x + 1)).sum ≤ (m.take size).sum := sum_take_mono m (by omega)
    rw [haddr x (by omega), hoffx]
    refine ⟨by simp [hl1], by simp [hl2], fun c hc hmc0 => ?_⟩
    simp only [getD_set, hl1, hl2]
    rw [posFrom_snoc]
    by_cases hcx : x = c
    · subst hcx
      simp only [if_true, List.length_append, List.length_singleton, Nat.zero_add, true_and, hx]
      intro t ht
      by_cases ht' : t < (posFrom x 0 P).length
      · have hne' : ¬ ((m.take x).sum + (posFrom x 0 P).length = (m.take x).sum + t ∧
            (m.take x).sum + (posFrom x 0 P).length < (m.take size).sum) := by
          intro h; omega
        rw [if_neg hne', getD_append_left _ _ _ ht']
        exact hposx t ht'
      · have hteq : t = (posFrom x 0 P).length := by omega
        subst hteq
        rw [if_pos ⟨rfl, by omega⟩, getD_append_length]
    · simp only [hcx, false_and, if_false, List.append_nil]
      obtain ⟨hoffc, hposc⟩ := hinv c hc hmc0
      refine ⟨hoffc, fun t ht => ?_⟩
      have hmcc : m.getD c 0 = codes.count c := by
        rcases hmc c hc with h | h
        · exact absurd h hmc0
        · exact h
      have htc : t < m.getD c 0 := by have := hcount c; omega
      have hAc1 : (m.take (c + 1)).sum = (m.take c).sum + m.getD c 0 := sum_take_succ m c
      have hne' : ¬ ((m.take x).sum + (posFrom x 0 P).length = (m.take c).sum + t ∧
          (m.take x).sum + (posFrom x 0 P).length < (m.take size).sum) := by
        rintro ⟨heq, _⟩
        rcases Nat.lt_or_gt_of_ne hcx with h | h
        · have := sum_take_mono m (show x + 1 ≤ c by omega); omega
        · have := sum_take_mono m (show c + 1 ≤ x by omega); omega
      rw [if_neg hne']
      exact hposc t ht

theorem fillInv_fill (m : List Nat) (size : Nat) (address codes : List Nat)
    (haddr : ∀ c, c ≤ size → address.getD c 0 = (m.take c).sum)
    (hmc : ∀ c, c < size → m.getD c 0 = 0 ∨ m.getD c 0 = codes.count c)
    (hcodes : ∀ c ∈ codes, c < size) :
    ∀ (rest P : List Nat) (st : List Nat × List Nat), codes = P ++ rest → FillInv m size P st →
      FillInv m size codes (fill address P.length rest st) := by
  intro rest
  induction rest with
  | nil => intro P st hs h; simp only [fill]; rw [hs]; simpa using h
  | cons x rest ih =>
    intro P st hs hinv
    simp only [fill]
    have hx : x < size := hcodes x (by rw [hs]; simp)
    have := ih (P ++ [x]) (fillStep address st P.length x) (by rw [hs]; simp)
      (fillInv_step m size address codes haddr hmc P x rest hs hx st hinv)
    simpa using this

theorem getLastD_eq_getD (l : List Nat) (n : Nat) (h : l.length = n + 1) : l.getLastD 0 = l.getD n 0 := by
  have hne : l ≠ [] := by intro h0; rw [h0] at h; simp at h
  rw [List.getLastD_eq_getLast?, List.getLast?_eq_getElem?, h]
  simp [List.getD_eq_getElem?_getD]

/-- **counting-sort correctness**: when every code is below the table size, the slice reported for a code is the
ascending list of its positions — or nothing when it occurs more than `mc` times -/
theorem buildIndex_correct (size mc : Nat) (codes : List Nat) (hcodes : ∀ c ∈ codes, c < size) (c : Nat)
    (hc : c < size) :
    qgramMatchesModel (buildIndex size mc codes) c = if codes.count c > mc then [] else posFrom c 0 codes := by
  -- the three tables
  let counts := codes.foldl bump1 (List.replicate (size + 1) 0)
  let m := counts.map (fun a => if a > mc then 0 else a)
  let address := prescan 0 m
  have hcl : counts.length = size + 1 := by simp [counts, length_foldl_bump1]
  have hml : m.length = size + 1 := by simp [m, hcl]
  have hcounts : ∀ j, counts.getD j 0 = codes.count j := by
    intro j
    have := getD_foldl_bump1 codes (List.replicate (size + 1) 0)
      (by intro x hx; have := hcodes x hx; simp; omega) j
    rw [getD_replicate_zero] at this
    simpa [counts] using this
  have hm : ∀ j, j < size + 1 → m.getD j 0 = if codes.count j > mc then 0 else codes.count j := by
    intro j hj
    simp only [m, List.getD_eq_getElem?_getD, List.getElem?_map]
    have : counts[j]? = some (counts.getD j 0) := by
      rw [List.getD_eq_getElem?_getD, List.getElem?_eq_getElem (by omega)]; simp
    rw [this, hcounts j]; rfl
  have haddr : ∀ j, j ≤ size → address.getD j 0 = (m.take j).sum := by
    intro j hj
    have := getD_prescan 0 m j (by omega)
    simpa [address] using this
  have hmc : ∀ j, j < size → m.getD j 0 = 0 ∨ m.getD j 0 = codes.count j := by
    intro j hj; rw [hm j (by omega)]; split
    · left; rfl
    · right; rfl
  have hlast : address.getLastD 0 = (m.take size).sum := by
    rw [getLastD_eq_getD address size (by simp [address, length_prescan, hml]), haddr size (Nat.le_refl _)]
  have hinit : FillInv m size [] (List.replicate (address.getLastD 0) 0, List.replicate size 0) := by
    refine ⟨?_, List.length_replicate, fun j _ _ => ?_⟩
    · show (List.replicate (address.getLastD 0) 0).length = _
      rw [List.length_replicate, hlast]
    · simp only [posFrom, List.length_nil]
      exact ⟨getD_replicate_zero _ _, fun t ht => absurd ht (Nat.not_lt_zero _)⟩
  obtain ⟨hl1, _, hfin⟩ := fillInv_fill m size address codes haddr hmc hcodes codes [] _ (by simp) hinit
  have hAc1 : (m.take (c + 1)).sum = (m.take c).sum + m.getD c 0 := sum_take_succ m c
  have hAle : (m.take (c + 1)).sum ≤ (m.take size).sum := sum_take_mono m (by omega)
  show List.take (address.getD (c + 1) 0 - address.getD c 0)
      (List.drop (address.getD c 0) (fill address 0 codes (List.replicate (address.getLastD 0) 0, List.replicate size 0)).1) = _
  simp only [List.length_nil] at hl1 hfin
  rw [haddr (c + 1) (by omega), haddr c (by omega), hAc1, Nat.add_sub_cancel_left]
  by_cases hmasked : codes.count c > mc
  · have : m.getD c 0 = 0 := by rw [hm c (by omega)]; simp [hmasked]
    rw [this, List.take_zero, if_pos hmasked]
  · simp only [hmasked, if_false]
    have hmcnt : m.getD c 0 = codes.count c := by rw [hm c (by omega)]; simp [hmasked]
    by_cases h0 : m.getD c 0 = 0
    · rw [h0, List.take_zero]
      have : (posFrom c 0 codes).length = 0 := by rw [length_posFrom]; omega
      exact (List.eq_nil_of_length_eq_zero this).symm
    · obtain ⟨_, hpos⟩ := hfin c hc h0
      have hlen : (posFrom c 0 codes).length = m.getD c 0 := by rw [length_posFrom]; omega
      apply List.ext_getElem
      · simp only [List.length_take, List.length_drop, hl1, hlen]; omega
      · intro t h1 h2
        have ht : t < (posFrom c 0 codes).length := h2
        have := hpos t ht
        simp only [List.getD_eq_getElem?_getD] at this
        rw [List.getElem_take, List.getElem_drop]
        have e1 : (fill address 0 codes (List.replicate (address.getLastD 0) 0, List.replicate size 0)).1[(m.take c).sum + t]? =
            some ((fill address 0 codes (List.replicate (address.getLastD 0) 0, List.replicate size 0)).1[(m.take c).sum + t]'(by
              simp only [List.length_take, List.length_drop] at h1; omega)) := List.getElem?_eq_getElem _
        have e2 : (posFrom c 0 codes)[t]? = some ((posFrom c 0 codes)[t]) := List.getElem?_eq_getElem ht
        rw [e1, e2] at this
        simpa using this


/-! ### from codes back to q-grams -/

theorem getElem?_fwdCodes (alpha : List Nat) (q : Nat) (text : List Nat) (i : Nat) :
    (fwdCodes alpha q text)[i]? =
      if i < text.length + 1 - q then some (code (bitsFor alpha.length) ((window q text i).map (rank alpha))) else none := by
  simp only [fwdCodes, windows, List.getElem?_map, List.length_map]
  by_cases h : i < text.length + 1 - q
  · rw [List.getElem?_range h]; simp [h, window, List.map_take, List.map_drop]
  · rw [if_neg h, List.getElem?_eq_none (by simp; omega)]; rfl

theorem posFrom_fwdCodes (alpha : List Nat) (q : Nat) (text gram : List Nat) (_hq : 0 < q)
    (ht : ∀ c ∈ text, c ∈ alpha) (hg : ∀ c ∈ gram, c ∈ alpha) (hgl : gram.length = q) :
    posFrom (code (bitsFor alpha.length) (gram.map (rank alpha))) 0 (fwdCodes alpha q text) = occurrences gram text := by
  apply sorted_eq_of_mem_iff _ _ (posFrom_sorted _ _ _) (occurrences_sorted _ _)
  intro i
  rw [mem_posFrom, mem_occurrences, Nat.sub_zero, getElem?_fwdCodes]
  unfold OccursAt
  rw [hgl]
  constructor
  · rintro ⟨_, h⟩
    split at h
    · rename_i hi
      have hi' : i + q ≤ text.length := by omega
      simp only [Option.some.injEq] at h
      refine ⟨hi', ?_⟩
      exact code_rank_injective alpha (window q text i) gram
        (fun c hc => ht c (List.mem_of_mem_drop (List.mem_of_mem_take hc))) hg
        (by rw [window_length hi', hgl]) h
    · cases h
  · rintro ⟨hi, hw⟩
    refine ⟨Nat.zero_le _, ?_⟩
    rw [if_pos (by omega)]
    unfold window
    rw [hw]

/-- **the index model answers `qgram_matches` exactly**: built over the codes of the text with `2^(bits·q)` (+1)
address slots, the slice for the code of a q-gram is `qgramPositions` of that q-gram -/
theorem indexModel_eq (alpha : List Nat) (q mc : Nat) (text gram : List Nat) (hq : 0 < q)
    (ht : ∀ c ∈ text, c ∈ alpha) (hg : ∀ c ∈ gram, c ∈ alpha) (hgl : gram.length = q) :
    qgramMatchesModel (buildIndex (2 ^ (bitsFor alpha.length * q)) mc (fwdCodes alpha q text))
        (code (bitsFor alpha.length) (gram.map (rank alpha))) = qgramPositions mc gram text := by
  have fits : ∀ c ∈ alpha, rank alpha c < 2 ^ bitsFor alpha.length :=
    fun c hc => Nat.lt_of_lt_of_le (rank_lt_length hc) (le_two_pow_bitsFor _)
  have hbound : ∀ w : List Nat, (∀ c ∈ w, c ∈ alpha) → w.length = q →
      code (bitsFor alpha.length) (w.map (rank alpha)) < 2 ^ (bitsFor alpha.length * q) := by
    intro w hw hwl
    have := code_lt (bitsFor alpha.length) (w.map (rank alpha))
      (by intro r hr; rcases List.mem_map.mp hr with ⟨c, hc, rfl⟩; exact fits c (hw c hc))
    simpa [hwl] using this
  rw [buildIndex_correct _ mc _ ?_ _ (hbound gram hg hgl)]
  · rw [← length_posFrom _ 0, posFrom_fwdCodes alpha q text gram hq ht hg hgl]
    rfl
  · intro c hc
    obtain ⟨i, hi⟩ := List.getElem?_of_mem hc
    rw [getElem?_fwdCodes] at hi
    split at hi
    · rename_i hlt
      simp only [Option.some.injEq] at hi
      rw [← hi]
      have hi' : i + q ≤ text.length := by omega
      exact hbound (window q text i) (fun c hc => ht c (List.mem_of_mem_drop (List.mem_of_mem_take hc)))
        (window_length hi')
    · cases hi

end RbV.QGram
