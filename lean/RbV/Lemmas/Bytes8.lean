import RbV.Model.RankSelect
/-
Bridge between the "block = list of at most 8 booleans" abstraction of `RbV.Model.RankSelect` and the `u8`
operations used by `rank_select.rs` (`count_ones`, `count_zeros`, `b & mask`, `b & bit`).  Core Lean only.
-/
namespace RbV.Lemmas.Bytes8
open RbV.Model.RankSelect

/-- the byte `get_block` returns for a block given as its list of bits (bit i of the byte = element i; little endian;
missing elements = zero padding) -/
def byteOf : List Bool → Nat
  | [] => 0
  | b :: r => (if b then 1 else 0) + 2 * byteOf r

/-- `u8::count_ones` -/
def popcount8 (x : Nat) : Nat := ((List.range 8).filter (fun i => x.testBit i)).length

/-- `((2u16 << j) - 1) as u8` -/
def rankMask (j : Nat) : Nat := ((2 <<< j) - 1) % 256

theorem byteOf_lt_two_pow (blk : List Bool) : byteOf blk < 2 ^ blk.length := by
  induction blk with
  | nil => simp [byteOf]
  | cons b r ih =>
    simp only [byteOf, List.length_cons, Nat.pow_succ]
    cases b <;> simp <;> omega

theorem byteOf_lt (blk : List Bool) (h : blk.length ≤ 8) : byteOf blk < 256 := by
  have h1 := byteOf_lt_two_pow blk
  have h2 : 2 ^ blk.length ≤ 2 ^ 8 := Nat.pow_le_pow_right (by decide) h
  omega

theorem testBit_byteOf (blk : List Bool) (i : Nat) : (byteOf blk).testBit i = blk.getD i false := by
  induction blk generalizing i with
  | nil => simp [byteOf]
  | cons b r ih =>
    cases i with
    | zero =>
      simp only [byteOf, Nat.testBit_zero, List.getD_cons_zero]
      cases b <;> simp <;> omega
    | succ i =>
      simp only [byteOf, Nat.testBit_succ, List.getD_cons_succ]
      rw [← ih i]
      congr 1
      cases b <;> simp <;> omega

/-- `count true` of a block of at most 8 bits, as a count over the eight bit positions -/
theorem countOnes_eq_range (blk : List Bool) (h : blk.length ≤ 8) :
    countOnes blk = ((List.range 8).filter (fun i => blk.getD i false)).length := by
  have hr : List.range 8 = [0, 1, 2, 3, 4, 5, 6, 7] := rfl
  rw [hr]
  unfold countOnes
  match blk, h with
  | [], _ => rfl
  | [a], _ => cases a <;> rfl
  | [a, b], _ => cases a <;> cases b <;> rfl
  | [a, b, c], _ => cases a <;> cases b <;> cases c <;> rfl
  | [a, b, c, d], _ => cases a <;> cases b <;> cases c <;> cases d <;> rfl
  | [a, b, c, d, e], _ => cases a <;> cases b <;> cases c <;> cases d <;> cases e <;> rfl
  | [a, b, c, d, e, f], _ =>
    cases a <;> cases b <;> cases c <;> cases d <;> cases e <;> cases f <;> rfl
  | [a, b, c, d, e, f, g], _ =>
    cases a <;> cases b <;> cases c <;> cases d <;> cases e <;> cases f <;> cases g <;> rfl
  | [a, b, c, d, e, f, g, k], _ =>
    cases a <;> cases b <;> cases c <;> cases d <;> cases e <;> cases f <;> cases g <;> cases k <;> rfl
  | _ :: _ :: _ :: _ :: _ :: _ :: _ :: _ :: _ :: _, h => simp at h

/-- `get_block(b).count_ones()` -/
theorem popcount8_byteOf (blk : List Bool) (h : blk.length ≤ 8) : popcount8 (byteOf blk) = countOnes blk := by
  rw [countOnes_eq_range blk h]
  simp only [popcount8, testBit_byteOf]

/-- `get_block(b).count_zeros()` (u8: 8 − count_ones; the zero padding of a short last block is counted) -/
theorem countZeros_byteOf (blk : List Bool) (h : blk.length ≤ 8) : 8 - popcount8 (byteOf blk) = countZeros blk := by
  rw [popcount8_byteOf blk h]; rfl

theorem rankMask_eq (j : Nat) (hj : j < 8) : rankMask j = 2 ^ (j + 1) - 1 := by
  match j, hj with
  | 0, _ | 1, _ | 2, _ | 3, _ | 4, _ | 5, _ | 6, _ | 7, _ => all_goals decide

theorem getD_take (blk : List Bool) (n i : Nat) :
    (blk.take n).getD i false = (decide (i < n) && blk.getD i false) := by
  simp only [List.getD_eq_getElem?_getD, List.getElem?_take]
  by_cases h : i < n <;> simp [h]

/-- `(get_block(b) & mask).count_ones()` with `mask = ((2u16 << j) - 1) as u8`, `j = i % 8` -/
theorem popcount8_masked (blk : List Bool) (j : Nat) (h : blk.length ≤ 8) (hj : j < 8) :
    popcount8 (byteOf blk &&& rankMask j) = countOnes (blk.take (j + 1)) := by
  have hl : (blk.take (j + 1)).length ≤ 8 := by
    rw [List.length_take]; omega
  rw [countOnes_eq_range _ hl, rankMask_eq j hj]
  simp only [popcount8, Nat.testBit_and, testBit_byteOf, Nat.testBit_two_pow_sub_one, getD_take,
    Bool.and_comm]

theorem and_two_pow (x i : Nat) : x &&& 2 ^ i = if x.testBit i then 2 ^ i else 0 := by
  apply Nat.eq_of_testBit_eq
  intro k
  rw [Nat.testBit_and, Nat.testBit_two_pow]
  by_cases hk : i = k
  · subst hk
    cases hx : x.testBit i <;> simp
  · cases hx : x.testBit i <;> simp [hk]

/-- `is_match(b & bit)` for `select_1` (`bit = 1 << i`, `b & bit != 0`) and `select_0` (`b & bit == 0`) -/
theorem bit_test (blk : List Bool) (i : Nat) (hi : i < 8) :
    ((byteOf blk &&& (1 <<< i)) != 0) = blk.getD i false := by
  have _ := hi
  rw [Nat.one_shiftLeft, and_two_pow, testBit_byteOf]
  cases blk.getD i false
  · simp
  · simp

end RbV.Lemmas.Bytes8
