import RbV.Spec.QGram
import RbV.Lemmas.QGram
/-! `exactMatchesRef` (maximal runs of consecutive q-gram hits on a diagonal) = maximal exact matches of
length ≥ q, when no q-gram is masked. Core Lean only. -/
namespace RbV.QGram
open RbV

/-- `pat[ps .. ps+L)` and `text[ts .. ts+L)` exist and agree symbol by symbol -/
def Agree (pat text : List Nat) (ps ts L : Nat) : Prop :=
  ps + L ≤ pat.length ∧ ts + L ≤ text.length ∧ ∀ j, j < L → pat[ps + j]? = text[ts + j]?

/-- the symbols at `a` in the pattern and `b` in the text exist and are equal -/
def SymEq (pat text : List Nat) (a b : Nat) : Prop := a < pat.length ∧ b < text.length ∧ pat[a]? = text[b]?

/-- maximal exact match of length `L ≥ q` -/
def IsMEM (q : Nat) (pat text : List Nat) (ps ts L : Nat) : Prop :=
  q ≤ L ∧ Agree pat text ps ts L ∧
  ¬ (0 < ps ∧ 0 < ts ∧ SymEq pat text (ps - 1) (ts - 1)) ∧ ¬ SymEq pat text (ps + L) (ts + L)

variable {pat text : List Nat}

theorem Agree.mono {ps ts L L' : Nat} (h : Agree pat text ps ts L) (hl : L' ≤ L) : Agree pat text ps ts L' :=
  ⟨by have := h.1; omega, by have := h.2.1; omega, fun j hj => h.2.2 j (by omega)⟩

theorem agree_split (ps ts a b : Nat) :
    Agree pat text ps ts (a + b) ↔ Agree pat text ps ts a ∧ Agree pat text (ps + a) (ts + a) b := by
  constructor
  · intro h
    refine ⟨h.mono (by omega), by have := h.1; omega, by have := h.2.1; omega, fun j hj => ?_⟩
    have := h.2.2 (a + j) (by omega)
    rwa [← Nat.add_assoc, ← Nat.add_assoc] at this
  · rintro ⟨h1, h2⟩
    refine ⟨by have := h2.1; omega, by have := h2.2.1; omega, fun j hj => ?_⟩
    by_cases hja : j < a
    · exact h1.2.2 j hja
    · have := h2.2.2 (j - a) (by omega)
      have e1 : ps + a + (j - a) = ps + j := by omega
      have e2 : ts + a + (j - a) = ts + j := by omega
      rwa [e1, e2] at this

theorem agree_one (a b : Nat) : Agree pat text a b 1 ↔ SymEq pat text a b := by
  unfold Agree SymEq
  constructor
  · rintro ⟨h1, h2, h3⟩; exact ⟨by omega, by omega, by simpa using h3 0 (by omega)⟩
  · rintro ⟨h1, h2, h3⟩
    refine ⟨by omega, by omega, fun j hj => ?_⟩
    have : j = 0 := by omega
    subst this; simpa using h3

theorem agree_succ (ps ts L : Nat) :
    Agree pat text ps ts (L + 1) ↔ Agree pat text ps ts L ∧ SymEq pat text (ps + L) (ts + L) := by
  rw [agree_split, agree_one]

theorem agree_shift (ps ts L : Nat) :
    Agree pat text ps ts (L + 1) ↔ SymEq pat text ps ts ∧ Agree pat text (ps + 1) (ts + 1) L := by
  rw [Nat.add_comm L 1, agree_split, agree_one]

/-! ### hits -/

theorem getElem?_window (q : Nat) (l : List Nat) (i j : Nat) :
    (window q l i)[j]? = if j < q then l[i + j]? else none := by
  unfold window
  rw [List.getElem?_take]
  split <;> simp [List.getElem?_drop]

/-- (i, p) is a q-gram hit -/
def Hit (q : Nat) (pat text : List Nat) (i p : Nat) : Prop := Agree pat text i p q

theorem window_eq_iff (q i p : Nat) (_hi : i + q ≤ pat.length) (_hp : p + q ≤ text.length) :
    window q pat i = window q text p ↔ ∀ j, j < q → pat[i + j]? = text[p + j]? := by
  constructor
  · intro h j hj
    have := congrArg (fun l => l[j]?) h
    simpa [getElem?_window, hj] using this
  · intro h
    apply List.ext_getElem?
    intro j
    rw [getElem?_window, getElem?_window]
    split
    · exact h j (by assumption)
    · rfl

theorem isHit_iff (mc q : Nat) (hmc : ∀ g, (occurrences g text).length ≤ mc) (i p : Nat) :
    isHit mc q pat text i p = true ↔ Hit q pat text i p := by
  unfold isHit Hit Agree
  simp only [Bool.and_eq_true, decide_eq_true_eq, List.contains_iff_mem, mem_qgramPositions, OccursAt]
  constructor
  · rintro ⟨hi, ⟨hp, hw⟩, _⟩
    rw [window_length hi] at hp hw
    exact ⟨hi, hp, (window_eq_iff q i p hi hp).mp hw.symm⟩
  · rintro ⟨hi, hp, hw⟩
    refine ⟨hi, ⟨?_, ?_⟩, hmc _⟩
    · rw [window_length hi]; exact hp
    · rw [window_length hi]; exact ((window_eq_iff q i p hi hp).mpr hw).symm

theorem mem_hits_iff (mc q : Nat) (i p : Nat) :
    (i, p) ∈ hits mc q pat text ↔ isHit mc q pat text i p = true := by
  unfold hits isHit
  simp only [List.mem_flatMap, List.mem_range, List.mem_map, Prod.mk.injEq, Bool.and_eq_true,
    decide_eq_true_eq, List.contains_iff_mem]
  constructor
  · rintro ⟨i', hi', p', hp', rfl, rfl⟩
    by_cases hq : q ≤ pat.length
    · exact ⟨by omega, hp'⟩
    · omega
  · rintro ⟨hi, hp⟩
    exact ⟨i, by omega, p, hp, rfl, rfl⟩

/-! ### runs -/

theorem runLen_spec (mc q : Nat) (hq : 0 < q) (hmc : ∀ g, (occurrences g text).length ≤ mc) :
    ∀ fuel i p, pat.length < i + fuel →
      (∀ j, j < runLen mc q pat text fuel i p → Hit q pat text (i + j) (p + j)) ∧
      ¬ Hit q pat text (i + runLen mc q pat text fuel i p) (p + runLen mc q pat text fuel i p) := by
  intro fuel
  induction fuel with
  | zero =>
    intro i p h
    simp only [runLen, Nat.add_zero]
    refine ⟨fun j hj => by omega, fun hh => ?_⟩
    have := hh.1; omega
  | succ fuel ih =>
    intro i p h
    simp only [runLen]
    by_cases hh : isHit mc q pat text i p = true
    · simp only [hh, if_true]
      obtain ⟨h1, h2⟩ := ih (i + 1) (p + 1) (by omega)
      constructor
      · intro j hj
        cases j with
        | zero => exact (isHit_iff mc q hmc i p).mp hh
        | succ j =>
          have := h1 j (by omega)
          have e1 : i + 1 + j = i + (j + 1) := by omega
          have e2 : p + 1 + j = p + (j + 1) := by omega
          rwa [e1, e2] at this
      · have e1 : i + (runLen mc q pat text fuel (i + 1) (p + 1) + 1) = i + 1 + runLen mc q pat text fuel (i + 1) (p + 1) := by omega
        have e2 : p + (runLen mc q pat text fuel (i + 1) (p + 1) + 1) = p + 1 + runLen mc q pat text fuel (i + 1) (p + 1) := by omega
        rw [e1, e2]; exact h2
    · have hh' : isHit mc q pat text i p = false := by simpa using hh
      simp only [hh', Bool.false_eq_true, if_false, Nat.add_zero]
      exact ⟨fun j hj => by omega, fun hx => hh ((isHit_iff mc q hmc i p).mpr hx)⟩

/-- `n ≥ 1` consecutive hits starting at (i, p) = agreement over `n − 1 + q` symbols -/
theorem hits_run_iff (q : Nat) (hq : 0 < q) (i p : Nat) :
    ∀ n, (∀ j, j < n + 1 → Hit q pat text (i + j) (p + j)) ↔ Agree pat text i p (n + q) := by
  intro n
  induction n with
  | zero =>
    simp only [Nat.zero_add]
    constructor
    · intro h; have := h 0 (by omega); simpa [Hit] using this
    · intro h j hj
      have : j = 0 := by omega
      subst this; simpa [Hit] using h
  | succ n ih =>
    constructor
    · intro h
      have h1 := ih.mp (fun j hj => h j (by omega))
      have h2 : Hit q pat text (i + (n + 1)) (p + (n + 1)) := h (n + 1) (by omega)
      have : n + 1 + q = (n + 1) + q := rfl
      rw [agree_split]
      exact ⟨h1.mono (by omega), h2⟩
    · intro h j hj
      by_cases hjn : j < n + 1
      · exact ih.mpr (h.mono (by omega)) j hjn
      · have : j = n + 1 := by omega
        subst this
        exact ((agree_split i p (n + 1) q).mp h).2

theorem exactMatchesRef_iff_maximal (mc q : Nat) (hq : 0 < q) (hmc : ∀ g, (occurrences g text).length ≤ mc)
    (ps pe ts te : Nat) :
    (ps, pe, ts, te) ∈ exactMatchesRef mc q pat text ↔
      ∃ L, pe = ps + L ∧ te = ts + L ∧ IsMEM q pat text ps ts L := by
  unfold exactMatchesRef
  simp only [List.mem_filterMap]
  constructor
  · rintro ⟨⟨i, p⟩, hmem, hres⟩
    have hhit : isHit mc q pat text i p = true := (mem_hits_iff mc q i p).mp hmem
    simp only at hres
    split at hres
    · cases hres
    · rename_i hleft
      simp only [Option.some.injEq, Prod.mk.injEq] at hres
      obtain ⟨rfl, rfl, rfl, rfl⟩ := hres
      obtain ⟨hrun, hstop⟩ := runLen_spec (pat := pat) (text := text) mc q hq hmc (pat.length + 1) i p (by omega)
      -- the run has at least one hit
      have hn : 0 < runLen mc q pat text (pat.length + 1) i p := by
        simp only [runLen, hhit, if_true]; omega
      obtain ⟨n, hn'⟩ : ∃ n, runLen mc q pat text (pat.length + 1) i p = n + 1 := ⟨runLen mc q pat text (pat.length + 1) i p - 1, by omega⟩
      rw [hn'] at hrun hstop ⊢
      have hag : Agree pat text i p (n + q) := (hits_run_iff q hq i p n).mp hrun
      refine ⟨n + q, by omega, by omega, by omega, hag, ?_, ?_⟩
      · -- left maximal
        rintro ⟨hi0, hp0, hsym⟩
        apply hleft
        have hH : Hit q pat text (i - 1) (p - 1) := by
          have h1 : Agree pat text (i - 1) (p - 1) (q + 1) := by
            rw [agree_shift]
            have e1 : i - 1 + 1 = i := by omega
            have e2 : p - 1 + 1 = p := by omega
            rw [e1, e2]
            exact ⟨hsym, (isHit_iff mc q hmc i p).mp hhit⟩
          exact h1.mono (by omega)
        simp only [Bool.and_eq_true, decide_eq_true_eq]
        exact ⟨⟨hi0, hp0⟩, (isHit_iff mc q hmc _ _).mpr hH⟩
      · -- right maximal
        intro hsym
        apply hstop
        have h1 : Agree pat text i p (n + q + 1) := (agree_succ i p (n + q)).mpr ⟨hag, hsym⟩
        have h2 : n + q + 1 = (n + 1) + q := by omega
        rw [h2, agree_split] at h1
        exact h1.2
  · rintro ⟨L, rfl, rfl, hq', hag, hleft, hright⟩
    obtain ⟨n, rfl⟩ : ∃ n, L = n + q := ⟨L - q, by omega⟩
    have hrunAll : ∀ j, j < n + 1 → Hit q pat text (ps + j) (ts + j) := (hits_run_iff q hq ps ts n).mpr hag
    have hH0 : Hit q pat text ps ts := by simpa using hrunAll 0 (by omega)
    have hhit : isHit mc q pat text ps ts = true := (isHit_iff mc q hmc ps ts).mpr hH0
    refine ⟨(ps, ts), (mem_hits_iff mc q ps ts).mpr hhit, ?_⟩
    simp only
    have hnl : ¬ ((decide (ps > 0) && decide (ts > 0) && isHit mc q pat text (ps - 1) (ts - 1)) = true) := by
      simp only [Bool.and_eq_true, decide_eq_true_eq]
      rintro ⟨⟨hi0, hp0⟩, hh⟩
      apply hleft
      have hH := (isHit_iff mc q hmc _ _).mp hh
      have h1 : Agree pat text (ps - 1) (ts - 1) 1 := Agree.mono hH (by omega)
      exact ⟨hi0, hp0, (agree_one _ _).mp h1⟩
    rw [if_neg hnl]
    obtain ⟨hrun, hstop⟩ := runLen_spec (pat := pat) (text := text) mc q hq hmc (pat.length + 1) ps ts (by omega)
    have hlen : runLen mc q pat text (pat.length + 1) ps ts = n + 1 := by
      rcases Nat.lt_trichotomy (runLen mc q pat text (pat.length + 1) ps ts) (n + 1) with h | h | h
      · exact absurd (hrunAll _ h) hstop
      · exact h
      · exfalso
        apply hright
        have hHn : Hit q pat text (ps + (n + 1)) (ts + (n + 1)) := hrun (n + 1) h
        have h1 : Agree pat text ps ts ((n + 1) + q) := (agree_split ps ts (n + 1) q).mpr ⟨hag.mono (by omega), hHn⟩
        have h2 : n + 1 + q = (n + q) + 1 := by omega
        rw [h2, agree_succ] at h1
        exact h1.2
    simp only [hlen, Option.some.injEq, Prod.mk.injEq]
    exact ⟨trivial, by omega, trivial, by omega⟩

end RbV.QGram
