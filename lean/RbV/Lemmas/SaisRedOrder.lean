import RbV.Lemmas.SaisRel
import RbV.Lemmas.SaisLmsEq
import RbV.Lemmas.SaisNaming
/-
The reduced text of SA-IS: if the labels of the LMS positions compare exactly like the typed LMS substrings
(`key`), then the suffixes of the reduced text compare exactly like the suffixes of the text at the LMS positions.
-/
namespace RbV.Sais
open RbV

/-! ### generic list facts -/

theorem not_lexLt_nil (r : List Nat) : ¬ lexLt r [] := by
  cases r <;> simp [lexLt]

/-- `lexLt u v`: either a first difference, or `u` is a proper prefix of `v` -/
theorem lexLt_split (u v : List Nat) (h : lexLt u v) :
    (∃ k, k < u.length ∧ k < v.length ∧ (∀ j, j < k → u.getD j 0 = v.getD j 0) ∧ u.getD k 0 < v.getD k 0) ∨
    (u.length < v.length ∧ ∀ j, j < u.length → u.getD j 0 = v.getD j 0) := by
  induction u generalizing v with
  | nil =>
    cases v with
    | nil => exact absurd h (not_lexLt_nil _)
    | cons b bs => right; exact ⟨by simp, fun j hj => by simp at hj⟩
  | cons a as ih =>
    cases v with
    | nil => exact absurd h (not_lexLt_nil _)
    | cons b bs =>
      rw [lexLt_cons] at h
      rcases h with h | ⟨he, h⟩
      · left; exact ⟨0, by simp, by simp, fun j hj => by omega, by simpa using h⟩
      · rcases ih bs h with ⟨k, h1, h2, h3, h4⟩ | ⟨h1, h3⟩
        · left
          refine ⟨k + 1, by simpa using h1, by simpa using h2, ?_, by simpa using h4⟩
          intro j hj
          cases j with
          | zero => simpa using he
          | succ j => simpa using h3 j (by omega)
        · right
          refine ⟨by simpa using h1, ?_⟩
          intro j hj
          cases j with
          | zero => simpa using he
          | succ j => simpa using h3 j (by simpa using hj)

theorem getD_map_range (f : Nat → Nat) (a j : Nat) (hj : j < a) : ((List.range a).map f).getD j 0 = f j := by
  simp [List.getD_eq_getElem?_getD, hj]

theorem drop_getD (l : List Nat) (a : Nat) (ha : a < l.length) : l.drop a = l.getD a 0 :: l.drop (a + 1) :=
  drop_sym l a ha

/-! ### peeling equal leading symbols off two suffixes -/

theorem suf_peel (t : List Nat) : ∀ l x y, x + l ≤ t.length → y + l ≤ t.length →
    (∀ k, k < l → sym t (x + k) = sym t (y + k)) →
    (lexLt (t.drop x) (t.drop y) ↔ lexLt (t.drop (x + l)) (t.drop (y + l))) := by
  intro l
  induction l with
  | zero => intro x y _ _ _; exact Iff.rfl
  | succ l ih =>
    intro x y hx hy he
    have e0 := he 0 (by omega)
    simp only [Nat.add_zero] at e0
    have h1 := ih (x + 1) (y + 1) (by omega) (by omega) (fun k hk => by
      have := he (k + 1) (by omega)
      have e1 : x + 1 + k = x + (k + 1) := by omega
      have e2 : y + 1 + k = y + (k + 1) := by omega
      rw [e1, e2]; exact this)
    have e1 : x + 1 + l = x + (l + 1) := by omega
    have e2 : y + 1 + l = y + (l + 1) := by omega
    rw [e1, e2] at h1
    rw [drop_sym t x (by omega), drop_sym t y (by omega), lexLt_cons, ← h1]
    constructor
    · rintro (h | ⟨_, h⟩)
      · omega
      · exact h
    · intro h; exact Or.inr ⟨e0, h⟩

theorem enc_lt_cases (t : List Nat) (x y : Nat) (h : enc t x < enc t y) :
    sym t x < sym t y ∨ (sym t x = sym t y ∧ isS (tyOf t) x = false ∧ isS (tyOf t) y = true) := by
  unfold enc at h
  cases hx : isS (tyOf t) x <;> cases hy : isS (tyOf t) y <;> simp [hx, hy] at h ⊢ <;> omega

/-- equal typed symbols at offsets `< k`, a smaller typed symbol at offset `k`: a smaller suffix -/
theorem sufR_of_enc_lt (t : List Nat) (hv : Valid t) (x y k : Nat) (hx : x + k < t.length) (hy : y + k < t.length)
    (he : ∀ j, j < k → enc t (x + j) = enc t (y + j)) (hlt : enc t (x + k) < enc t (y + k)) : sufR t x y := by
  have hk : lexLt (t.drop (x + k)) (t.drop (y + k)) := by
    rcases enc_lt_cases t _ _ hlt with h | ⟨h1, h2, h3⟩
    · exact (indRel_suf t hv).ofSym _ _ hx hy h
    · exact (indRel_suf t hv).ofLS _ _ hx hy h1 h2 h3
  unfold sufR
  exact (suf_peel t k x y (by omega) (by omega) (fun j hj => (enc_inj t _ _ (he j hj)).1)).mpr hk

/-! ### (1) a smaller typed LMS substring gives a smaller suffix -/

theorem sufR_of_key_lt_main (t : List Nat) (hv : Valid t) (p q lp lq : Nat) (hp : NextLms t p lp)
    (hq : NextLms t q lq) (h : lexLt (key t p) (key t q)) : sufR t p q := by
  have hpn := nextLms_lt t p lp hp
  have hqn := nextLms_lt t q lq hq
  rw [key_eq_of_nextLms t p lp hp, key_eq_of_nextLms t q lq hq] at h
  rcases lexLt_split _ _ h with ⟨k, h1, h2, h3, h4⟩ | ⟨h1, h3⟩
  · simp only [List.length_map, List.length_range] at h1 h2
    rw [getD_map_range _ _ _ h1, getD_map_range _ _ _ h2] at h4
    refine sufR_of_enc_lt t hv p q k (by omega) (by omega) ?_ h4
    intro j hj
    have := h3 j hj
    rw [getD_map_range _ _ _ (by omega), getD_map_range _ _ _ (by omega)] at this
    exact this
  · simp only [List.length_map, List.length_range] at h1 h3
    exfalso
    have hE : ∀ j, j ≤ lp → enc t (p + j) = enc t (q + j) := by
      intro j hj
      have := h3 j (by omega)
      rw [getD_map_range _ _ _ (by omega), getD_map_range _ _ _ (by omega)] at this
      exact this
    have hl0 := hp.1
    have hlms := (isLms_iff _ _).mp hp.2.1
    have e1 := (enc_inj t _ _ (hE lp (Nat.le_refl _))).2
    have e2 := (enc_inj t _ _ (hE (lp - 1) (by omega))).2
    have hq' : isLms (tyOf t) (q + lp) = true := by
      rw [isLms_iff]
      refine ⟨by omega, by rw [← e1]; exact hlms.2.1, ?_⟩
      have a1 : q + lp - 1 = q + (lp - 1) := by omega
      have a2 : p + lp - 1 = p + (lp - 1) := by omega
      rw [a1, ← e2, ← a2]; exact hlms.2.2
    have := hq.2.2 lp hl0 (by omega)
    rw [this] at hq'; cases hq'

/-- a smaller typed LMS substring gives a smaller suffix -/
theorem sufR_of_key_lt (t : List Nat) (hv : Valid t) (p q : Nat)
    (hp : isLms (tyOf t) p = true) (hq : isLms (tyOf t) q = true)
    (h : lexLt (key t p) (key t q)) : sufR t p q := by
  have hpn := lt_of_isLms p hp
  have hqn := lt_of_isLms q hq
  have hne : p ≠ q := by intro e; subst e; exact lexLt_irrefl _ h
  by_cases hp1 : p + 1 < t.length
  · by_cases hq1 : q + 1 < t.length
    · obtain ⟨lp, hlp, _⟩ := exists_nextLms t hv p hp1
      obtain ⟨lq, hlq, _⟩ := exists_nextLms t hv q hq1
      exact sufR_of_key_lt_main t hv p q lp lq hlp hlq h
    · exfalso
      have e : q = t.length - 1 := by omega
      rw [e, key_last t hv.pos] at h
      unfold key at h
      rw [lexLt_cons] at h
      rcases h with h | ⟨h, _⟩
      · have := enc_lt_of_sym_lt t _ _ (hv.lastMin p hp1); omega
      · exact sym_ne_last hv p hp1 (enc_inj t _ _ h).1
  · have e : p = t.length - 1 := by omega
    have hq1 : q + 1 < t.length := by omega
    have := hv.lastMin q hq1
    rw [← e] at this
    exact (indRel_suf t hv).ofSym p q hpn hqn this

/-! ### (2) equal typed LMS substrings -/

/-- equal typed LMS substrings: the suffixes compare like the suffixes at the next LMS positions -/
theorem sufR_of_key_eq (t : List Nat) (hv : Valid t) (p q l : Nat) (hp : NextLms t p l) (hq : NextLms t q l)
    (h : key t p = key t q) : (sufR t p q ↔ sufR t (p + l) (q + l)) := by
  have _ := hv
  have hpn := nextLms_lt t p l hp
  have hqn := nextLms_lt t q l hq
  obtain ⟨_, henc⟩ := enc_eq_of_key_eq t p q l l hp hq h
  unfold sufR
  exact suf_peel t l p q (by omega) (by omega) (fun k hk => (enc_inj t _ _ (henc k (by omega))).1)

/-- the same with the next LMS positions named -/
theorem sufR_of_key_eq' (t : List Nat) (hv : Valid t) (p q p' q' : Nat) (hpp : p < p') (hqq : q < q')
    (hp : NextLms t p (p' - p)) (hq : NextLms t q (q' - q)) (h : key t p = key t q) :
    (sufR t p q ↔ sufR t p' q') := by
  obtain ⟨e, _⟩ := enc_eq_of_key_eq t p q _ _ hp hq h
  rw [← e] at hq
  have := sufR_of_key_eq t hv p q (p' - p) hp hq h
  have e1 : p + (p' - p) = p' := by omega
  have e2 : q + (p' - p) = q' := by omega
  rw [e1, e2] at this
  exact this

/-- two different positions with equal keys: neither is the last position -/
theorem key_eq_not_last (t : List Nat) (hv : Valid t) (p q : Nat) (hq : q < t.length)
    (hne : p ≠ q) (h : key t p = key t q) : p + 1 < t.length ∨ t.length ≤ p := by
  unfold key at h
  have he := (enc_inj t _ _ (List.cons.inj h).1).1
  apply Classical.byContradiction
  intro hc
  have e : p = t.length - 1 := by omega
  have := sym_ne_last hv q (by omega)
  rw [← e] at this
  exact this he.symm

/-! ### (3) the list of LMS positions -/

/-- `rho` is strictly monotone on LMS positions -/
theorem rho_mono (ty : List Bool) (q q' : Nat) (h : q < q') (hl : isLms ty q = true) : rho ty q < rho ty q' :=
  rho_lt ty q q' h hl

theorem lmsBelow_getD_spec (ty : List Bool) (n a : Nat) (ha : a < (lmsBelow ty n).length) :
    (lmsBelow ty n).getD a 0 < n ∧ isLms ty ((lmsBelow ty n).getD a 0) = true :=
  (mem_lmsBelow ty n _).mp (getD_mem_of_lt _ a ha)

/-- the list of LMS positions is strictly ascending -/
theorem lmsBelow_getD_mono (ty : List Bool) (n a b : Nat) (hab : a < b) (hb : b < (lmsBelow ty n).length) :
    (lmsBelow ty n).getD a 0 < (lmsBelow ty n).getD b 0 := by
  have ha : a < (lmsBelow ty n).length := by omega
  obtain ⟨_, _⟩ := lmsBelow_getD_spec ty n a ha
  obtain ⟨_, hb2⟩ := lmsBelow_getD_spec ty n b hb
  apply Classical.byContradiction
  intro hc
  by_cases he : (lmsBelow ty n).getD a 0 = (lmsBelow ty n).getD b 0
  · have := nodup_getD_inj _ (nodup_lmsBelow ty n) a b ha hb he; omega
  · have := rho_mono ty _ _ (show (lmsBelow ty n).getD b 0 < (lmsBelow ty n).getD a 0 by omega) hb2
    rw [rho_getD ty n a ha, rho_getD ty n b hb] at this; omega

theorem length_lmsBelow_of_last (ty : List Bool) (n : Nat) (hn : 0 < n) (hl : isLms ty (n - 1) = true) :
    (lmsBelow ty n).length = rho ty (n - 1) + 1 := by
  cases n with
  | zero => omega
  | succ n =>
    simp only [Nat.add_sub_cancel] at hl ⊢
    rw [lmsBelow_succ, if_pos hl]; simp [rho]

/-- the last LMS position is the last position of the text -/
theorem lmsBelow_getD_last (t : List Nat) (hv : Valid t) (h2 : 2 ≤ t.length) :
    (lmsBelow (tyOf t) t.length).getD ((lmsBelow (tyOf t) t.length).length - 1) 0 = t.length - 1 := by
  have hl := isLms_last hv h2
  have h1 := getD_rho (tyOf t) (t.length - 1) t.length (by omega) hl
  rw [length_lmsBelow_of_last (tyOf t) t.length (by omega) hl, Nat.add_sub_cancel]
  exact h1

theorem nextLms_of_rho (t : List Nat) (x y a : Nat) (hxy : x < y) (hx : isLms (tyOf t) x = true)
    (hy : isLms (tyOf t) y = true) (rx : rho (tyOf t) x = a) (ry : rho (tyOf t) y = a + 1) :
    NextLms t x (y - x) := by
  refine ⟨by omega, ?_, ?_⟩
  · have e : x + (y - x) = y := by omega
    rw [e]; exact hy
  · intro k hk0 hk
    cases hc : isLms (tyOf t) (x + k) with
    | false => rfl
    | true =>
      have r1 := rho_mono (tyOf t) x (x + k) (by omega) hx
      have r2 := rho_mono (tyOf t) (x + k) y (by omega) hc
      omega

/-- consecutive entries of the LMS list: the second one is the next LMS position after the first -/
theorem nextLms_lmsBelow (t : List Nat) (a : Nat) (ha : a + 1 < (lmsBelow (tyOf t) t.length).length) :
    NextLms t ((lmsBelow (tyOf t) t.length).getD a 0)
      ((lmsBelow (tyOf t) t.length).getD (a + 1) 0 - (lmsBelow (tyOf t) t.length).getD a 0) := by
  have hm := lmsBelow_getD_mono (tyOf t) t.length a (a + 1) (by omega) ha
  obtain ⟨_, ha2⟩ := lmsBelow_getD_spec (tyOf t) t.length a (by omega)
  obtain ⟨_, hb2⟩ := lmsBelow_getD_spec (tyOf t) t.length (a + 1) ha
  exact nextLms_of_rho t _ _ a hm ha2 hb2 (rho_getD (tyOf t) t.length a (by omega))
    (rho_getD (tyOf t) t.length (a + 1) ha)

/-- an entry of the LMS list that is not the last position of the text is not the last entry -/
theorem lmsBelow_succ_lt (t : List Nat) (hv : Valid t) (h2 : 2 ≤ t.length) (a : Nat)
    (ha : a < (lmsBelow (tyOf t) t.length).length)
    (h : (lmsBelow (tyOf t) t.length).getD a 0 + 1 < t.length) : a + 1 < (lmsBelow (tyOf t) t.length).length := by
  apply Classical.byContradiction
  intro hc
  have e : (lmsBelow (tyOf t) t.length).length - 1 = a := by omega
  have := lmsBelow_getD_last t hv h2
  rw [e] at this
  omega

/-- the step of the main induction for equal keys -/
theorem lms_step_eq (t : List Nat) (hv : Valid t) (h2 : 2 ≤ t.length) (a b : Nat)
    (ha : a < (lmsBelow (tyOf t) t.length).length) (hb : b < (lmsBelow (tyOf t) t.length).length) (hab : a ≠ b)
    (hke : key t ((lmsBelow (tyOf t) t.length).getD a 0) = key t ((lmsBelow (tyOf t) t.length).getD b 0)) :
    a + 1 < (lmsBelow (tyOf t) t.length).length ∧ b + 1 < (lmsBelow (tyOf t) t.length).length ∧
    (sufR t ((lmsBelow (tyOf t) t.length).getD a 0) ((lmsBelow (tyOf t) t.length).getD b 0) ↔
      sufR t ((lmsBelow (tyOf t) t.length).getD (a + 1) 0) ((lmsBelow (tyOf t) t.length).getD (b + 1) 0)) := by
  obtain ⟨ha1, _⟩ := lmsBelow_getD_spec (tyOf t) t.length a ha
  obtain ⟨hb1, _⟩ := lmsBelow_getD_spec (tyOf t) t.length b hb
  have hne : (lmsBelow (tyOf t) t.length).getD a 0 ≠ (lmsBelow (tyOf t) t.length).getD b 0 :=
    fun e => hab (nodup_getD_inj _ (nodup_lmsBelow _ _) a b ha hb e)
  have hp1 : (lmsBelow (tyOf t) t.length).getD a 0 + 1 < t.length := by
    rcases key_eq_not_last t hv _ _ hb1 hne hke with h | h
    · exact h
    · omega
  have hq1 : (lmsBelow (tyOf t) t.length).getD b 0 + 1 < t.length := by
    rcases key_eq_not_last t hv _ _ ha1 (fun e => hne e.symm) hke.symm with h | h
    · exact h
    · omega
  have ha' := lmsBelow_succ_lt t hv h2 a ha hp1
  have hb' := lmsBelow_succ_lt t hv h2 b hb hq1
  refine ⟨ha', hb', ?_⟩
  exact sufR_of_key_eq' t hv _ _ _ _ (lmsBelow_getD_mono _ _ a (a + 1) (by omega) ha')
    (lmsBelow_getD_mono _ _ b (b + 1) (by omega) hb') (nextLms_lmsBelow t a ha') (nextLms_lmsBelow t b hb') hke

theorem lms_suffix_order_aux (t : List Nat) (hv : Valid t) (h2 : 2 ≤ t.length) (red : List Nat)
    (hlen : red.length = (lmsBelow (tyOf t) t.length).length)
    (hord : ∀ a b, a < red.length → b < red.length →
      (red.getD a 0 < red.getD b 0 ↔
        lexLt (key t ((lmsBelow (tyOf t) t.length).getD a 0)) (key t ((lmsBelow (tyOf t) t.length).getD b 0))) ∧
      (red.getD a 0 = red.getD b 0 ↔
        key t ((lmsBelow (tyOf t) t.length).getD a 0) = key t ((lmsBelow (tyOf t) t.length).getD b 0))) :
    ∀ k a b, (red.length - a) + (red.length - b) ≤ k → a < red.length → b < red.length →
      (lexLt (red.drop a) (red.drop b) ↔
        sufR t ((lmsBelow (tyOf t) t.length).getD a 0) ((lmsBelow (tyOf t) t.length).getD b 0)) := by
  intro k
  induction k with
  | zero => intro a b hk ha hb; omega
  | succ k ih =>
    intro a b hk ha hb
    by_cases hab : a = b
    · subst hab
      exact ⟨fun h => absurd h (lexLt_irrefl _), fun h => absurd h (lexLt_irrefl _)⟩
    · obtain ⟨_, ha2⟩ := lmsBelow_getD_spec (tyOf t) t.length a (by omega)
      obtain ⟨_, hb2⟩ := lmsBelow_getD_spec (tyOf t) t.length b (by omega)
      obtain ⟨ho1, ho2⟩ := hord a b ha hb
      obtain ⟨ho3, _⟩ := hord b a hb ha
      rw [drop_getD red a ha, drop_getD red b hb, lexLt_cons]
      by_cases hke : key t ((lmsBelow (tyOf t) t.length).getD a 0) = key t ((lmsBelow (tyOf t) t.length).getD b 0)
      · have hre := ho2.mpr hke
        obtain ⟨ha', hb', hiff⟩ := lms_step_eq t hv h2 a b (by omega) (by omega) hab hke
        have hi := ih (a + 1) (b + 1) (by omega) (by omega) (by omega)
        rw [hiff, ← hi]
        constructor
        · rintro (h | ⟨_, h⟩)
          · omega
          · exact h
        · intro h; exact Or.inr ⟨hre, h⟩
      · rcases lexLt_total _ _ hke with h | h
        · exact ⟨fun _ => sufR_of_key_lt t hv _ _ ha2 hb2 h, fun _ => Or.inl (ho1.mpr h)⟩
        · have hlt := ho3.mpr h
          have hs := sufR_of_key_lt t hv _ _ hb2 ha2 h
          constructor
          · rintro (h' | ⟨h', _⟩) <;> omega
          · intro h'; exact absurd h' (lexLt_asymm hs)

theorem lms_suffix_order (t : List Nat) (hv : Valid t) (h2 : 2 ≤ t.length) (red : List Nat)
    (hlen : red.length = (lmsBelow (tyOf t) t.length).length)
    (hord : ∀ a b, a < red.length → b < red.length →
      (red.getD a 0 < red.getD b 0 ↔
        lexLt (key t ((lmsBelow (tyOf t) t.length).getD a 0)) (key t ((lmsBelow (tyOf t) t.length).getD b 0))) ∧
      (red.getD a 0 = red.getD b 0 ↔
        key t ((lmsBelow (tyOf t) t.length).getD a 0) = key t ((lmsBelow (tyOf t) t.length).getD b 0)))
    (a b : Nat) (ha : a < red.length) (hb : b < red.length) :
    (lexLt (red.drop a) (red.drop b) ↔
      sufR t ((lmsBelow (tyOf t) t.length).getD a 0) ((lmsBelow (tyOf t) t.length).getD b 0)) :=
  lms_suffix_order_aux t hv h2 red hlen hord _ a b (Nat.le_refl _) ha hb

end RbV.Sais
