import RbV.Lemmas.SaisLabelsDef
/-
The naming loop of `sort_lms_suffixes` as a fold, reduced to the pure label sequence `labels` of the scanned LMS
positions: `label` = last label, `reduced_text[reduced_text_pos[q]]` = label of `q`.
-/
namespace RbV.Sais
open RbV

/-! ### index of an LMS position among the LMS positions -/

/-- `reduced_text_pos[q]` for an LMS position `q`: the number of LMS positions before it -/
def rho (ty : List Bool) (q : Nat) : Nat := (lmsBelow ty q).length

theorem lmsBelow_split (ty : List Bool) (q n : Nat) (hq : q < n) (hl : isLms ty q = true) :
    ∃ rest, lmsBelow ty n = lmsBelow ty q ++ q :: rest := by
  induction n with
  | zero => omega
  | succ n ih =>
    by_cases hqn : q = n
    · subst hqn
      exact ⟨[], by rw [lmsBelow_succ, if_pos hl]⟩
    · obtain ⟨rest, hr⟩ := ih (by omega)
      rw [lmsBelow_succ]
      by_cases hn : isLms ty n = true
      · exact ⟨rest ++ [n], by rw [if_pos hn, hr]; simp⟩
      · exact ⟨rest, by rw [if_neg hn, hr]⟩

theorem rho_lt (ty : List Bool) (q n : Nat) (hq : q < n) (hl : isLms ty q = true) : rho ty q < (lmsBelow ty n).length := by
  obtain ⟨rest, hr⟩ := lmsBelow_split ty q n hq hl
  rw [hr]; unfold rho; simp

theorem getD_rho (ty : List Bool) (q n : Nat) (hq : q < n) (hl : isLms ty q = true) :
    (lmsBelow ty n).getD (rho ty q) 0 = q := by
  obtain ⟨rest, hr⟩ := lmsBelow_split ty q n hq hl
  rw [hr]; unfold rho
  simp [List.getD_eq_getElem?_getD]

theorem mem_lmsBelow (ty : List Bool) (n p : Nat) : p ∈ lmsBelow ty n ↔ p < n ∧ isLms ty p = true := by
  unfold lmsBelow; simp

theorem nodup_lmsBelow (ty : List Bool) (n : Nat) : (lmsBelow ty n).Nodup :=
  List.Nodup.sublist List.filter_sublist List.nodup_range

theorem nodup_getD_inj (l : List Nat) (hnd : l.Nodup) (a b : Nat) (ha : a < l.length) (hb : b < l.length)
    (h : l.getD a 0 = l.getD b 0) : a = b := by
  unfold List.Nodup at hnd
  rw [List.pairwise_iff_getElem] at hnd
  rw [List.getD_eq_getElem?_getD, List.getD_eq_getElem?_getD, List.getElem?_eq_getElem ha,
    List.getElem?_eq_getElem hb] at h
  simp only [Option.getD_some] at h
  apply Classical.byContradiction
  intro hne
  rcases Nat.lt_or_gt_of_ne hne with h' | h'
  · exact hnd _ _ ha hb h' h
  · exact hnd _ _ hb ha h' h.symm

theorem rho_getD (ty : List Bool) (n j : Nat) (hj : j < (lmsBelow ty n).length) :
    rho ty ((lmsBelow ty n).getD j 0) = j := by
  have hm := getD_mem_of_lt (lmsBelow ty n) j hj
  rw [mem_lmsBelow] at hm
  have h1 := getD_rho ty _ n hm.1 hm.2
  have h2 := rho_lt ty _ n hm.1 hm.2
  exact nodup_getD_inj _ (nodup_lmsBelow ty n) _ _ h2 hj h1

theorem rho_inj (ty : List Bool) (n p q : Nat) (hp : p < n) (hq : q < n) (hlp : isLms ty p = true)
    (hlq : isLms ty q = true) (h : rho ty p = rho ty q) : p = q := by
  have h1 := getD_rho ty p n hp hlp
  have h2 := getD_rho ty q n hq hlq
  rw [h] at h1; omega

/-! ### the fold -/

/-- the writes `reduced_text[reduced_text_pos[q]] = label` of the loop -/
def redOf (redPos : List Nat) : List Nat → List Nat → List Nat → List Nat
  | red, q :: qs, lab :: labs => redOf redPos (red.set (redPos.getD q 0) lab) qs labs
  | red, _, _ => red

theorem foldl_nameStep_filter (t : List Nat) (ty : List Bool) (redPos : List Nat) (pos : List Nat) (st : Naming) :
    pos.foldl (nameStep t ty redPos) st = (pos.filter (isLms ty)).foldl (nameStep t ty redPos) st := by
  induction pos generalizing st with
  | nil => rfl
  | cons p pos ih =>
    simp only [List.foldl_cons, List.filter_cons]
    by_cases hl : isLms ty p = true
    · rw [if_pos hl, List.foldl_cons]; exact ih _
    · rw [if_neg hl]
      have : nameStep t ty redPos st p = st := by unfold nameStep; rw [if_neg hl]
      rw [this]; exact ih _

theorem foldl_nameStep_run (t : List Nat) (ty : List Bool) (redPos : List Nat) (qs : List Nat)
    (hq : ∀ q ∈ qs, isLms ty q = true) (st : Naming) :
    let r := qs.foldl (nameStep t ty redPos) st
    let labs := labelsGo (lmsSubEq t ty) st.prev st.label qs
    r.label = labs.getLastD st.label ∧ r.red = redOf redPos st.red qs labs := by
  induction qs generalizing st with
  | nil => simp [labelsGo, redOf]
  | cons q qs ih =>
    have hlq : isLms ty q = true := hq q (by simp)
    have ih' := ih (fun x hx => hq x (by simp [hx])) (nameStep t ty redPos st q)
    simp only [List.foldl_cons]
    cases hprev : st.prev with
    | none =>
      have hst : nameStep t ty redPos st q =
          { label := st.label, prev := some q, red := st.red.set (redPos.getD q 0) st.label } := by
        unfold nameStep; rw [if_pos hlq, hprev]
      rw [hst] at ih' ⊢
      simp only [labelsGo, redOf, List.getLastD_cons] at ih' ⊢
      exact ih'
    | some p =>
      have hst : nameStep t ty redPos st q =
          { label := (if !lmsSubEq t ty p q then st.label + 1 else st.label), prev := some q,
            red := st.red.set (redPos.getD q 0) (if !lmsSubEq t ty p q then st.label + 1 else st.label) } := by
        unfold nameStep; rw [if_pos hlq, hprev]
      rw [hst] at ih' ⊢
      simp only [labelsGo, redOf, List.getLastD_cons] at ih' ⊢
      exact ih'

theorem length_redOf (redPos : List Nat) (red qs labs : List Nat) : (redOf redPos red qs labs).length = red.length := by
  induction qs generalizing red labs with
  | nil => cases labs <;> simp [redOf]
  | cons q qs ih =>
    cases labs with
    | nil => simp [redOf]
    | cons lab labs => simp only [redOf]; rw [ih]; simp

/-- an index that is not written keeps its value -/
theorem redOf_getD_other (redPos : List Nat) (red qs labs : List Nat) (j : Nat)
    (hj : ∀ q ∈ qs, redPos.getD q 0 ≠ j) : (redOf redPos red qs labs).getD j 0 = red.getD j 0 := by
  induction qs generalizing red labs with
  | nil => cases labs <;> simp [redOf]
  | cons q qs ih =>
    cases labs with
    | nil => simp [redOf]
    | cons lab labs =>
      simp only [redOf]
      rw [ih _ _ (fun x hx => hj x (by simp [hx])), getD_set_ne _ _ _ _ _ (hj q (by simp))]

/-- the value written for the `a`-th scanned position -/
theorem redOf_getD (redPos : List Nat) (red qs labs : List Nat) (a : Nat) (ha : a < qs.length)
    (hlen : labs.length = qs.length)
    (hinj : ∀ a b, a < b → b < qs.length → redPos.getD (qs.getD a 0) 0 ≠ redPos.getD (qs.getD b 0) 0)
    (hlt : ∀ a, a < qs.length → redPos.getD (qs.getD a 0) 0 < red.length) :
    (redOf redPos red qs labs).getD (redPos.getD (qs.getD a 0) 0) 0 = labs.getD a 0 := by
  induction qs generalizing red labs a with
  | nil => simp at ha
  | cons q qs ih =>
    cases labs with
    | nil => simp at hlen
    | cons lab labs =>
      simp only [redOf]
      cases a with
      | zero =>
        simp only [List.getD_cons_zero]
        rw [redOf_getD_other]
        · exact getD_set_eq _ _ _ _ (by have := hlt 0 (by simp); simpa using this)
        · intro x hx
          obtain ⟨b, hb, he⟩ := exists_getD_of_mem qs x hx
          have := hinj 0 (b + 1) (by omega) (by simpa using hb)
          simp only [List.getD_cons_zero, List.getD_cons_succ] at this
          rw [he] at this
          exact fun e => this e.symm
      | succ a =>
        simp only [List.getD_cons_succ]
        apply ih
        · simpa using ha
        · simpa using hlen
        · intro a b hab hb
          have := hinj (a + 1) (b + 1) (by omega) (by simpa using hb)
          simpa using this
        · intro a ha
          have := hlt (a + 1) (by simpa using ha)
          simpa using this

theorem set_replicate_self (n k : Nat) (a : Nat) : (List.replicate n a).set k a = List.replicate n a := by
  apply List.ext_getElem?
  intro i
  rw [List.getElem?_set]
  by_cases hk : k = i
  · subst hk
    by_cases hkn : k < n
    · simp [hkn]
    · simp [hkn]
  · simp [hk]

/-- **the naming loop**: with `qs` = the LMS positions in the order in which `pos` lists them -/
theorem naming_eq (t : List Nat) (ty : List Bool) (cnt : Nat) (s : St) :
    let qs := s.pos.filter (isLms ty)
    let labs := labels (lmsSubEq t ty) qs
    (naming t ty cnt s).label = labs.getLastD 0 ∧
    (naming t ty cnt s).red = redOf s.redPos (List.replicate cnt 0) qs labs := by
  unfold naming
  simp only []
  rw [set_replicate_self, foldl_nameStep_filter]
  have := foldl_nameStep_run t ty s.redPos (s.pos.filter (isLms ty))
    (fun q hq => (List.mem_filter.mp hq).2) { label := 0, prev := none, red := List.replicate cnt 0 }
  exact this

end RbV.Sais
