import RbV.Lemmas.FillTbLast
/-!
End of the traceback proof: the functional mirror of the whole of `Aligner::custom` (`PairwiseFill.custom`: fill,
post-loops, traceback loop) terminates within its fuel and reports an alignment that the acceptance function of the
property accepts — real alignment of the reported sub-ranges, clip representation rule, recomputed score (clip penalties
included) equal to the reported score, reported score optimal.

The traceback yields an alignment whose value is *at least* the reported score (`final_good`: a path through a clip
may re-open a gap that the alignment merely extends); it is *at most* the optimum, which the reported score equals
(`fill_score_eq_opt_aux`); hence equality.
-/
namespace RbV.Model.PairwiseFill
open RbV.Align

section
variable {sc : Sc} {cl : Clip} {x y : List Nat} {W : Int}

theorem P2_last_s_xm (hxs : cl.xs ≤ 0) : (P2 sc cl x y x.length).s = (P2 sc cl x y x.length).xm := by
  rcases Nat.eq_zero_or_pos x.length with hm0 | hm1
  · have e := post1Step_last (cl := cl) (x := x) hxs (colAt sc cl x y y.length) 0
      (p1init x (colAt sc cl x y y.length)) hm0.symm
    have h1 : (P2 sc cl x y 0).s = (P1 sc cl x y 0).s := P2_zero_fields.1
    have h2 : (P2 sc cl x y 0).xm = (P1 sc cl x y x.length).xm := by rw [P2_zero]; rfl
    rw [hm0] at h2 ⊢
    rw [h1, h2, P1_zero, e]
  · obtain ⟨i, hi⟩ : ∃ i, x.length = i + 1 := ⟨x.length - 1, by omega⟩
    obtain ⟨_, _, e3, _, _⟩ := post2Step_last (sc := sc) (cl := cl) (x := x) hxs (p1L sc cl x y) (i + 1)
      (P2 sc cl x y i) hi.symm
    rw [← P2_succ sc cl x y i (by omega), ← hi] at e3
    exact e3

theorem fill_score_P2 : (fill sc cl x y).score = (P2 sc cl x y x.length).xm := fill_score sc cl x y

/-- **the model of the whole function is accepted** (auxiliary form, side conditions bundled in `Hyp`) -/
theorem custom_accept_aux (H : Hyp sc cl x y W)
    (hs : minScore + ((x.length : Int) + y.length) * W < 2 * sc.go + sc.ge * ((x.length : Int) + y.length)) :
    ∃ o, custom sc cl x y = some o ∧ accept sc cl false x y o = true := by
  have hcols : ColsOK sc cl x y := fun jj hjj i hi => gca_all H hs jj hjj jj (Nat.le_refl _) i hi
  have hg := final_good H hs hcols
  have hopt := fill_score_eq_opt_aux H hs
  have hsc : (fill sc cl x y).score = (P2 sc cl x y x.length).s := by
    rw [fill_score_P2, P2_last_s_xm H.xs]
  have hts : (finalT sc cl x y).tS x.length y.length = (P2 sc cl x y x.length).ts := table_tS_n sc cl x y x.length
  rw [← hts, ← hsc] at hg
  obtain ⟨k, st', hk, hrun, hl, P, xs, xe, ys, ye, hops, hw, hxc, hyc, r1, r2, r3, r4⟩ :=
    hg [] 0 0 x.length y.length
  have hloop := run_tbLoop hrun (2 * (x.length + y.length) + 16) (by omega)
  obtain ⟨c, h1, h2, h3, h4, h5, h6, h7, h8, hscore, hle, _, _⟩ := hw
  have hops' : st'.ops = P := by simpa using hops
  have e1 : st'.xstart = xs := by rw [r1]; split <;> omega
  have e2 : st'.ystart = ys := by rw [r2]; split <;> omega
  have e3 : st'.xend = xe := by rw [r3]; split <;> omega
  have e4 : st'.yend = ye := by rw [r4]; split <;> omega
  refine ⟨⟨(fill sc cl x y).score, xs, xe, ys, ye, x.length, y.length, P⟩, ?_, ?_⟩
  · -- the run
    have hT : (fill sc cl x y).table x.length y.length = finalT sc cl x y := rfl
    simp only [custom, hT, hloop, e1, e2, e3, e4, hops']
  · rw [accept_iff]
    have hval : valid (slice x xs xe) (slice y ys ye) (coreOps P) = true :=
      (valid_iff_score sc .none _ _ _).mpr ⟨c, hscore⟩
    have haln : IsAln x y (Out.toAln ⟨(fill sc cl x y).score, xs, xe, ys, ye, x.length, y.length, P⟩) :=
      ⟨h1, h2, h4, h5, hval⟩
    have hcp : clipPen cl x.length y.length xs xe ys ye =
        pre cl xs ys + (if xe < x.length then cl.xs else 0) + (if ye < y.length then cl.ys else 0) := by
      simp only [clipPen, pre]; omega
    have hub : c + clipPen cl x.length y.length xs xe ys ye ≤ opt sc cl x y :=
      valid_le_opt sc cl x y ⟨xs, xe, ys, ye, coreOps P⟩ _ haln ⟨c, hscore, rfl⟩
    refine ⟨haln, ⟨rfl, rfl, ?_⟩, ⟨c, hscore, ?_⟩, ?_⟩
    · simp only [if_false, Bool.false_eq_true]
      exact ⟨hxc, hyc⟩
    · show (fill sc cl x y).score = c + clipPen cl x.length y.length xs xe ys ye
      omega
    · show Optimal sc cl x y (fill sc cl x y).score
      rw [hopt]; exact opt_optimal sc cl x y

end

end RbV.Model.PairwiseFill
