import RbV.Model.OrfScanP
import RbV.Lemmas.OrfScan
/-!
# The ORF model is sound and complete for every length test inside the freedom of the property (C20)

`Model/OrfScanP.lean`: `stepP P` / `runP P` / `findAllP P` = the mirror model of `Matches::next` with the length test of the
flush loop replaced by `P index start_pos`.  The pending-start lists and the window do not depend on `P`; only the
emitted prefix `takeWhile (P index)` does.  Hence, by a simulation over the run,

* `findAllP P <+ findAllP P'` (sublist) whenever `P` implies `P'` on the arguments that occur (`2 ≤ s ≤ index`);
* with `P' = pinnedTest 0` (everything pending is emitted) the right-hand side is `findAll … 0`, all of whose members
  are open reading frames with the right offset, without duplicates (`orf_sound_complete`);
* with `P = pinnedTest minLen` the left-hand side is `findAll … minLen`, which contains every frame longer than
  `minLen + 2`;
* everything `findAllP P` emits passed `P`, hence is at least `minLen` long (`LenTestOk.hi`).

Core Lean only.
-/
namespace RbV.Lemmas.OrfScanP
open RbV.Orf RbV.Model.OrfScan RbV.Lemmas.OrfScan

/-! ## the fields after one step -/

theorem get_with_codon (st : State) (c : List Nat) (f : Nat) : ({ st with codon := c } : State).get f = st.get f := rfl
theorem get_with_out (st : State) (o : List (Nat × Nat × Nat)) (f : Nat) : ({ st with out := o } : State).get f = st.get f := rfl

theorem stepP_out (P : Nat → Nat → Bool) (starts stops : List (List Nat)) (st : State) (i c : Nat) :
    (stepP P starts stops st i c).out = st.out ++ Model.OrfScan.emitted P starts stops st i c := by
  rw [stepP_def]; unfold Model.OrfScan.emitted
  cases h : flushes starts stops st i c
  · simp [set_out]
  · simp

theorem stepP_codon (P : Nat → Nat → Bool) (starts stops : List (List Nat)) (st : State) (i c : Nat) :
    (stepP P starts stops st i c).codon = window st c := by
  rw [stepP_def]
  cases h : flushes starts stops st i c
  · simp [set_codon]
  · simp [set_codon]

theorem stepP_get_same (P : Nat → Nat → Bool) (starts stops : List (List Nat)) (st : State) (i c : Nat) :
    (stepP P starts stops st i c).get ((i + 1) % 3)
      = if flushes starts stops st i c then [] else pendingNow starts st i c := by
  rw [stepP_def]
  have h3 : (i + 1) % 3 < 3 := Nat.mod_lt _ (by omega)
  cases h : flushes starts stops st i c
  · simp only [Bool.false_eq_true, if_false]
    exact get_set_same _ _ _ h3
  · simp only [if_true]
    rw [get_with_out]
    exact get_set_same _ _ _ h3

theorem stepP_get_other (P : Nat → Nat → Bool) (starts stops : List (List Nat)) (st : State) (i c f : Nat)
    (hf : f < 3) (hne : f ≠ (i + 1) % 3) : (stepP P starts stops st i c).get f = st.get f := by
  rw [stepP_def]
  have h3 : (i + 1) % 3 < 3 := Nat.mod_lt _ (by omega)
  cases h : flushes starts stops st i c
  · simp only [Bool.false_eq_true, if_false]
    rw [get_set_other _ _ _ _ h3 hf hne, get_with_codon]
  · simp only [if_true]
    rw [get_with_out, get_set_other _ _ _ _ h3 hf hne, get_with_codon]

/-! ## bounds on the pending starts -/

/-- after `n` symbols every pending start is the index of the last base of a start codon already read, and the window
holds at most `n` symbols -/
structure PB (n : Nat) (st : State) : Prop where
  pend : ∀ f, f < 3 → ∀ s ∈ st.get f, 2 ≤ s ∧ s < n
  win : st.codon.length ≤ n
  win3 : st.codon.length ≤ 3

theorem init_PB : PB 0 State.init := by
  refine ⟨?_, by simp [State.init], by simp [State.init]⟩
  intro f _ s hs
  unfold State.get State.init at hs
  split at hs
  · simp at hs
  · split at hs <;> simp at hs

theorem window_length_le {n : Nat} {st : State} (h : st.codon.length ≤ n) (c : Nat) : (window st c).length ≤ n + 1 := by
  unfold window
  split <;> simp <;> omega

theorem window_length_le3 {st : State} (h : st.codon.length ≤ 3) (c : Nat) : (window st c).length ≤ 3 := by
  unfold window
  split <;> simp <;> omega

theorem pendingNow_bounds {starts : List (List Nat)} (h3s : ∀ c ∈ starts, c.length = 3) {n : Nat} {st : State}
    (hpb : PB n st) (c : Nat) : ∀ s ∈ pendingNow starts st n c, 2 ≤ s ∧ s ≤ n := by
  intro s hs
  have h3 : (n + 1) % 3 < 3 := Nat.mod_lt _ (by omega)
  unfold pendingNow at hs
  split at hs
  · rename_i hc
    rcases List.mem_append.mp hs with h | h
    · have := hpb.pend _ h3 s h; omega
    · have hs' : s = n := by simpa using h
      have hm : window st c ∈ starts := by simpa using hc
      have hl := h3s _ hm
      have := window_length_le hpb.win c
      omega
  · have := hpb.pend _ h3 s hs; omega

theorem stepP_PB {starts : List (List Nat)} (h3s : ∀ c ∈ starts, c.length = 3) (P : Nat → Nat → Bool)
    (stops : List (List Nat)) {n : Nat} {st : State} (hpb : PB n st) (c : Nat) :
    PB (n + 1) (stepP P starts stops st n c) := by
  refine ⟨?_, ?_, ?_⟩
  · intro f hf s hs
    by_cases hne : f = (n + 1) % 3
    · subst hne
      rw [stepP_get_same] at hs
      split at hs
      · simp at hs
      · have := pendingNow_bounds h3s hpb c s hs; omega
    · rw [stepP_get_other _ _ _ _ _ _ _ hf hne] at hs
      have := hpb.pend f hf s hs; omega
  · rw [stepP_codon]; exact window_length_le hpb.win c
  · rw [stepP_codon]; exact window_length_le3 hpb.win3 c

/-! ## the accumulator -/

theorem runP_out (P : Nat → Nat → Bool) (starts stops : List (List Nat)) (seq : List Nat) :
    ∀ (st : State) (i : Nat), (runP P starts stops st i seq).out = st.out ++ emitsP P starts stops st i seq := by
  induction seq with
  | nil => intro st i; simp [runP, emitsP]
  | cons c rest ih =>
    intro st i
    simp only [runP, emitsP]
    rw [ih, stepP_out, List.append_assoc]

theorem findAllP_eq_emitsP (P : Nat → Nat → Bool) (starts stops : List (List Nat)) (seq : List Nat) :
    findAllP P starts stops seq = emitsP P starts stops State.init 0 seq := by
  unfold findAllP; rw [runP_out]; simp [State.init]

/-! ## simulation: the pending lists do not depend on the test -/

/-- two states with the same pending lists and window (they may differ in what has been emitted) -/
def Same (st st' : State) : Prop := (∀ f, f < 3 → st.get f = st'.get f) ∧ st.codon = st'.codon

theorem Same.window {st st' : State} (h : Same st st') (c : Nat) : window st c = window st' c := by
  unfold Model.OrfScan.window; rw [h.2]

theorem Same.pendingNow {st st' : State} (h : Same st st') (starts : List (List Nat)) (i c : Nat) :
    pendingNow starts st i c = pendingNow starts st' i c := by
  unfold Model.OrfScan.pendingNow
  rw [h.window c, h.1 _ (Nat.mod_lt _ (by omega))]

theorem Same.flushes {st st' : State} (h : Same st st') (starts stops : List (List Nat)) (i c : Nat) :
    flushes starts stops st i c = flushes starts stops st' i c := by
  unfold Model.OrfScan.flushes
  rw [h.pendingNow starts i c, h.window c]

theorem Same.step {st st' : State} (h : Same st st') (P P' : Nat → Nat → Bool) (starts stops : List (List Nat))
    (i c : Nat) : Same (stepP P starts stops st i c) (stepP P' starts stops st' i c) := by
  refine ⟨?_, ?_⟩
  · intro f hf
    by_cases hne : f = (i + 1) % 3
    · subst hne
      rw [stepP_get_same, stepP_get_same, h.flushes starts stops i c, h.pendingNow starts i c]
    · rw [stepP_get_other _ _ _ _ _ _ _ hf hne, stepP_get_other _ _ _ _ _ _ _ hf hne]
      exact h.1 f hf
  · rw [stepP_codon, stepP_codon, h.window c]

theorem takeWhile_sublist_takeWhile {α : Type} (p q : α → Bool) :
    ∀ (l : List α), (∀ x ∈ l, p x = true → q x = true) → (l.takeWhile p).Sublist (l.takeWhile q) := by
  intro l
  induction l with
  | nil => intro _; simp
  | cons a t ih =>
    intro h
    by_cases hp : p a = true
    · have hq : q a = true := h a (List.mem_cons_self) hp
      simp only [List.takeWhile_cons, hp, hq, if_true]
      exact (ih (fun x hx => h x (List.mem_cons_of_mem _ hx))).cons_cons a
    · simp only [List.takeWhile_cons, hp, Bool.false_eq_true, if_false]
      exact List.nil_sublist _

theorem mem_takeWhile {α : Type} (p : α → Bool) : ∀ (l : List α) (x : α), x ∈ l.takeWhile p → x ∈ l ∧ p x = true := by
  intro l
  induction l with
  | nil => intro x h; simp at h
  | cons a t ih =>
    intro x h
    by_cases hp : p a = true
    · simp only [List.takeWhile_cons, hp, if_true, List.mem_cons] at h
      rcases h with rfl | h
      · exact ⟨List.mem_cons_self, hp⟩
      · exact ⟨List.mem_cons_of_mem _ (ih x h).1, (ih x h).2⟩
    · simp [hp] at h

/-- if `P` implies `P'` on the arguments that occur, everything the `P`-run emits is emitted by the `P'`-run, in the
same order -/
theorem emitsP_sublist {starts stops : List (List Nat)} (h3s : ∀ c ∈ starts, c.length = 3) (P P' : Nat → Nat → Bool)
    (B : Nat) (himp : ∀ i s, i < B → 2 ≤ s → s ≤ i → P i s = true → P' i s = true) :
    ∀ (rest : List Nat) (st st' : State) (n : Nat), Same st st' → PB n st → n + rest.length ≤ B →
      (emitsP P starts stops st n rest).Sublist (emitsP P' starts stops st' n rest) := by
  intro rest
  induction rest with
  | nil => intro st st' n _ _ _; simp [emitsP]
  | cons c rest ih =>
    intro st st' n hs hpb hB
    simp only [emitsP]
    simp only [List.length_cons] at hB
    refine List.Sublist.append ?_ (ih _ _ (n + 1) (hs.step P P' starts stops n c) (stepP_PB h3s P stops hpb c) (by omega))
    unfold Model.OrfScan.emitted
    rw [← hs.flushes starts stops n c, ← hs.pendingNow starts n c]
    split
    · refine List.Sublist.map _ (takeWhile_sublist_takeWhile _ _ _ ?_)
      intro s hs' hp
      have := pendingNow_bounds h3s hpb c s hs'
      exact himp n s (by omega) this.1 this.2 hp
    · exact List.Sublist.refl _

theorem same_refl (st : State) : Same st st := ⟨fun _ _ => rfl, rfl⟩

theorem findAllP_sublist {starts stops : List (List Nat)} (h3s : ∀ c ∈ starts, c.length = 3) (P P' : Nat → Nat → Bool)
    (seq : List Nat) (himp : ∀ i s, i < seq.length → 2 ≤ s → s ≤ i → P i s = true → P' i s = true) :
    (findAllP P starts stops seq).Sublist (findAllP P' starts stops seq) := by
  rw [findAllP_eq_emitsP, findAllP_eq_emitsP]
  exact emitsP_sublist h3s P P' seq.length himp seq _ _ 0 (same_refl _) init_PB (by omega)

/-- everything the `P`-run emits passed the test -/
theorem emitsP_len {starts stops : List (List Nat)} (h3s : ∀ c ∈ starts, c.length = 3) (P : Nat → Nat → Bool)
    (minLen B : Nat) (hP : LenTestOk P minLen B) :
    ∀ (rest : List Nat) (st : State) (n : Nat), PB n st → n + rest.length ≤ B →
      ∀ t ∈ emitsP P starts stops st n rest, minLen ≤ t.2.1 - t.1 := by
  intro rest
  induction rest with
  | nil => intro st n _ _ t ht; simp [emitsP] at ht
  | cons c rest ih =>
    intro st n hpb hB t ht
    simp only [emitsP] at ht
    simp only [List.length_cons] at hB
    rcases List.mem_append.mp ht with h | h
    · unfold Model.OrfScan.emitted at h
      split at h
      · obtain ⟨s, hs, rfl⟩ := List.mem_map.mp h
        have hp : P n s = true := (mem_takeWhile _ _ s hs).2
        have hb := pendingNow_bounds h3s hpb c s (mem_takeWhile _ _ s hs).1
        have := hP.hi n s (by omega) hb.1 hb.2 hp
        simp only
        omega
      · simp at h
    · exact ih _ (n + 1) (stepP_PB h3s P stops hpb c) (by omega) t h

theorem findAllP_len {starts stops : List (List Nat)} (h3s : ∀ c ∈ starts, c.length = 3) (P : Nat → Nat → Bool)
    (minLen : Nat) (seq : List Nat) (hP : LenTestOk P minLen seq.length) :
    ∀ t ∈ findAllP P starts stops seq, minLen ≤ t.2.1 - t.1 := by
  rw [findAllP_eq_emitsP]
  exact emitsP_len h3s P minLen seq.length hP seq _ 0 init_PB (by omega)

/-- every test in the freedom emits at most what the test "always" emits … -/
theorem findAllP_sublist_all {starts stops : List (List Nat)} (h3s : ∀ c ∈ starts, c.length = 3) (P : Nat → Nat → Bool)
    (seq : List Nat) : (findAllP P starts stops seq).Sublist (findAll starts stops 0 seq) := by
  rw [findAll_eq_findAllP]
  refine findAllP_sublist h3s P _ seq ?_
  intro i s _ _ hs _
  unfold pinnedTest
  simp only [decide_eq_true_eq]; omega

/-- … and at least what the pinned test `> minLen` emits -/
theorem findAll_sublist_findAllP {starts stops : List (List Nat)} (h3s : ∀ c ∈ starts, c.length = 3)
    (P : Nat → Nat → Bool) (minLen : Nat) (seq : List Nat) (hP : LenTestOk P minLen seq.length) :
    (findAll starts stops minLen seq).Sublist (findAllP P starts stops seq) := by
  rw [findAll_eq_findAllP]
  refine findAllP_sublist h3s _ P seq ?_
  intro i s hi h2 hs hp
  unfold pinnedTest at hp
  simp only [decide_eq_true_eq] at hp
  exact hP.lo i s hi h2 hs (by omega)

/-- the pinned test is inside the freedom -/
theorem pinnedTest_ok (minLen B : Nat) : LenTestOk (pinnedTest minLen) minLen B := by
  constructor
  · intro i s _ _ _ h; unfold pinnedTest; simp only [decide_eq_true_eq]; omega
  · intro i s _ _ _ h; unfold pinnedTest at h; simp only [decide_eq_true_eq] at h; omega

end RbV.Lemmas.OrfScanP
