import RbV.Lemmas.SaisTransform
/-
What the property C03 (and SA-IS) need of the output of `suffix_array::transform_text` — **not** the concrete numbers the
pinned text happens to produce (builder gensa; docs/notes/C03.md, "transform_text modulo the sentinel order").

`Transform.Ok t tt`: `tt` has the length of `t`; every non-sentinel symbol is mapped to `rank + (sentinel_count − 1)`;
the sentinel occurrences get pairwise distinct values below `sentinel_count`, the final one the least
(`SentinelOrder t c (tt[·])`).  Any such `tt`
* compares positions like the key text of the property under the sentinel order it chose (`Ok.iso`), so a sorted
  suffix permutation of `tt` satisfies `IsSA t` (`Ok.isSA`), and
* is a text SA-IS accepts (`Ok.valid`: last symbol the unique minimum, dense alphabet — the sentinel values fill
  `0 … c−1` by pigeonhole).
`ok_transformText`: the mirror model (decreasing ranks) is one instance; `ok_of_up`: ranks `(k+1) % c` for the `k`-th
occurrence (seeded change C03-H1) is another.
-/
namespace RbV.Transform
open RbV RbV.Sais

structure Ok (t tt : List Nat) : Prop where
  len : tt.length = t.length
  sent : SentinelOrder t (t.count (sentinelOf t)) (fun p => tt.getD p 0)
  other : ∀ p, p < t.length → ¬ IsSentPos t p →
    tt.getD p 0 = rankOf t (t.getD p 0) + (t.count (sentinelOf t) - 1)

/-- the mirror model of the pinned text is an instance -/
theorem ok_transformText (t : List Nat) (hne : t ≠ []) : Ok t (transformText t) := by
  refine ⟨length_transformText t, ?_, ?_⟩
  · have ho := sentinelOrder_rkAfter t hne
    have hv : ∀ p, IsSentPos t p → (transformText t).getD p 0 = rkAfter t p := by
      intro p hp
      rw [transformText_getD t p (sentPos_getD t p hp).1, if_pos hp]
    have hlast := isSentPos_last t hne
    refine ⟨?_, ?_, ?_⟩
    · intro p hp; rw [hv p hp]; exact ho.bound p hp
    · intro p q hp hq; rw [hv p hp, hv q hq]; exact ho.inj p q hp hq
    · intro q hq hne'; rw [hv q hq, hv _ hlast]; exact ho.last q hq hne'
  · intro p hp hns
    rw [transformText_getD t p hp, if_neg hns]

/-- `tt` compares every pair of positions like the key text of the specification under the sentinel order it chose -/
theorem Ok.iso {t tt : List Nat} (h : Ok t tt) (hne : t ≠ [])
    (hmin : ∀ p, p < t.length → sentinelOf t ≤ t.getD p 0) (p q : Nat) (hp : p < t.length) (hq : q < t.length) :
    (tt.getD p 0 < tt.getD q 0 ↔
      keyAt t (t.count (sentinelOf t)) (fun p => tt.getD p 0) p < keyAt t (t.count (sentinelOf t)) (fun p => tt.getD p 0) q) := by
  have ho := h.sent
  rw [keyAt_lt_iff t _ _ ho]
  have hsent_mem := sentinelOf_mem t hne
  have hrank1 : ∀ x, x < t.length → ¬ IsSentPos t x → 1 ≤ rankOf t (t.getD x 0) := by
    intro x hx hns
    have h1 := hmin x hx
    have h2 : t.getD x 0 ≠ sentinelOf t := fun e => hns ((isSentPos_iff_getD t x hx).mpr e)
    have := rankOf_strict t (sentinelOf t) (t.getD x 0) (by omega) hsent_mem
    omega
  by_cases hsp : IsSentPos t p <;> by_cases hsq : IsSentPos t q
  · simp [hsp, hsq]
  · have hb := ho.bound p hsp
    have hr := hrank1 q hq hsq
    have e := h.other q hq hsq
    simp only [hsp, hsq, not_true_eq_false, not_false_eq_true, true_and, false_and, and_false,
      and_true, or_false, or_true, iff_true] at hb ⊢
    omega
  · have hb := ho.bound q hsq
    have hr := hrank1 p hp hsp
    have e := h.other p hp hsp
    simp only [hsp, hsq, not_true_eq_false, not_false_eq_true, true_and, false_and, and_false,
      or_false, iff_false] at hb ⊢
    omega
  · have e1 := h.other p hp hsp
    have e2 := h.other q hq hsq
    simp only [hsp, hsq, not_false_eq_true, true_and, false_and, false_or]
    rw [e1, e2]
    constructor
    · intro hlt
      apply Classical.byContradiction
      intro hge
      have := rankOf_mono t (t.getD q 0) (t.getD p 0) (by omega)
      omega
    · intro hlt
      have := rankOf_strict t _ _ hlt (getD_mem t p hp)
      omega

/-- **if SA-IS sorts `tt`, the result satisfies C03** (sentinel order: the one `tt` chose) -/
theorem Ok.isSA {t tt : List Nat} (h : Ok t tt) (hne : t ≠ [])
    (hmin : ∀ p, p < t.length → sentinelOf t ≤ t.getD p 0) (sa : List Nat) (hs : SuffixSorted tt sa) : IsSA t sa := by
  refine ⟨t.count (sentinelOf t), fun p => tt.getD p 0, h.sent, ?_⟩
  obtain ⟨hp, hpw⟩ := hs
  rw [h.len] at hp
  refine ⟨by rw [length_keyText]; exact hp, ?_⟩
  have hiso : ∀ p q, p < tt.length → q < tt.length →
      (tt.getD p 0 < tt.getD q 0 ↔
        (keyText t (t.count (sentinelOf t)) (fun p => tt.getD p 0)).getD p 0 <
          (keyText t (t.count (sentinelOf t)) (fun p => tt.getD p 0)).getD q 0) := by
    intro p q hp' hq'
    rw [h.len] at hp' hq'
    rw [getD_keyText t _ _ p hp', getD_keyText t _ _ q hq']
    exact h.iso hne hmin p q hp' hq'
  refine hpw.imp ?_
  intro a b hab
  unfold sufLt at hab ⊢
  exact (lexLt_drop_congr tt (keyText t _ _) (by rw [h.len, length_keyText]) hiso _ a b rfl).mp hab

/-! ### the sentinel positions, as a list -/

def sentPosList (t : List Nat) : List Nat := (List.range t.length).filter (fun p => decide (IsSentPos t p))

theorem mem_sentPosList (t : List Nat) (p : Nat) : p ∈ sentPosList t ↔ IsSentPos t p := by
  unfold sentPosList
  rw [List.mem_filter, List.mem_range, decide_eq_true_eq]
  exact ⟨fun h => h.2, fun h => ⟨(sentPos_getD t p h).1, h⟩⟩

theorem length_filter_getD (l : List Nat) (s : Nat) :
    ((List.range l.length).filter (fun p => decide (l[p]? = some s))).length = l.count s := by
  induction l with
  | nil => simp
  | cons a l ih =>
    rw [List.length_cons, List.range_succ_eq_map, List.filter_cons, List.filter_map, List.count_cons]
    have e : ((fun p => decide ((a :: l)[p]? = some s)) ∘ Nat.succ) = (fun p => decide (l[p]? = some s)) := by
      funext p; simp
    rw [e]
    by_cases h : a = s <;> simp [h, ih]

theorem length_sentPosList (t : List Nat) : (sentPosList t).length = t.count (sentinelOf t) :=
  length_filter_getD t (sentinelOf t)

/-- the sentinel values of an `Ok` text fill `0 … c − 1` -/
theorem Ok.sent_surj {t tt : List Nat} (h : Ok t tt) (c : Nat) (hc : c < t.count (sentinelOf t)) :
    ∃ p, IsSentPos t p ∧ tt.getD p 0 = c := by
  have hnd : ((sentPosList t).map (fun p => tt.getD p 0)).Nodup := by
    unfold List.Nodup
    rw [List.pairwise_map]
    have hnd0 : (sentPosList t).Pairwise (· ≠ ·) := List.Pairwise.filter _ List.nodup_range
    refine List.Pairwise.imp_of_mem ?_ hnd0
    intro a b ha hb hab he
    exact hab (h.sent.inj a b ((mem_sentPosList t a).mp ha) ((mem_sentPosList t b).mp hb) he)
  have := nodup_subset_surj ((sentPosList t).map (fun p => tt.getD p 0)) (List.range (t.count (sentinelOf t))) hnd
    (by
      intro x hx
      obtain ⟨p, hp, rfl⟩ := List.mem_map.mp hx
      rw [List.mem_range]
      exact h.sent.bound p ((mem_sentPosList t p).mp hp))
    (by rw [List.length_map, length_sentPosList, List.length_range]; exact Nat.le_refl _)
    c (List.mem_range.mpr hc)
  obtain ⟨p, hp, he⟩ := List.mem_map.mp this
  exact ⟨p, (mem_sentPosList t p).mp hp, he⟩

/-- an `Ok` text is one SA-IS accepts: non-empty, last symbol the unique minimum, dense alphabet -/
theorem Ok.valid {t tt : List Nat} (h : Ok t tt) (hne : t ≠ [])
    (hmin : ∀ p, p < t.length → sentinelOf t ≤ t.getD p 0) : Valid tt := by
  have hlen := h.len
  have hpos : 0 < t.length := List.length_pos_iff.mpr hne
  have hsm := sentinelOf_mem t hne
  have hcnt : 0 < t.count (sentinelOf t) := List.count_pos_iff.mpr hsm
  have hlast := isSentPos_last t hne
  have hmemT : ∀ p, p < t.length → tt.getD p 0 ∈ tt := fun p hp => getD_mem _ p (by omega)
  -- the last value is 0: some sentinel position holds 0, and the last one is the least
  have hlast0 : tt.getD (t.length - 1) 0 = 0 := by
    obtain ⟨p, hp, he⟩ := h.sent_surj 0 hcnt
    by_cases hpe : p = t.length - 1
    · rw [← hpe]; exact he
    · have := h.sent.last p hp hpe
      omega
  have hlarge : ∀ b, b ∈ t → 0 < rankOf t b → rankOf t b + (t.count (sentinelOf t) - 1) ∈ tt := by
    intro b hb hr
    obtain ⟨q, hq, hqe⟩ := exists_getD_of_mem t b hb
    have hns : ¬ IsSentPos t q := by
      intro hs
      have := (isSentPos_iff_getD t q hq).mp hs
      exact ne_sentinel_of_rank_pos t hmin b hr (by omega)
    have := h.other q hq hns
    rw [hqe] at this
    rw [← this]
    exact hmemT q hq
  refine ⟨by omega, ?_, ?_⟩
  · intro i hi
    rw [hlen] at hi ⊢
    unfold sym
    rw [hlast0]
    by_cases hs : IsSentPos t i
    · have := h.sent.last i hs (by omega)
      omega
    · rw [h.other i (by omega) hs]
      have h1 := hmin i (by omega)
      have h2 : t.getD i 0 ≠ sentinelOf t := fun e => hs ((isSentPos_iff_getD t i (by omega)).mpr e)
      have := rankOf_strict t (sentinelOf t) (t.getD i 0) (by omega) hsm
      omega
  · intro c x hx hcx
    by_cases hc : c < t.count (sentinelOf t)
    · obtain ⟨p, hp, he⟩ := h.sent_surj c hc
      rw [← he]
      exact hmemT p (sentPos_getD t p hp).1
    · obtain ⟨p, hp, hpe⟩ := exists_getD_of_mem _ x hx
      rw [hlen] at hp
      by_cases hs : IsSentPos t p
      · have hb := h.sent.bound p hs
        omega
      · rw [h.other p hp hs] at hpe
        have ha := getD_mem t p hp
        by_cases hr : c - (t.count (sentinelOf t) - 1) = rankOf t (t.getD p 0)
        · have := hlarge _ ha (by omega)
          have e : rankOf t (t.getD p 0) + (t.count (sentinelOf t) - 1) = c := by omega
          rw [e] at this; exact this
        · obtain ⟨b, hb1, _, hb3⟩ :=
            exists_rankOf_eq t (t.getD p 0) (c - (t.count (sentinelOf t) - 1)) (by omega)
          have := hlarge b hb1 (by omega)
          have e : rankOf t b + (t.count (sentinelOf t) - 1) = c := by omega
          rw [e] at this; exact this

/-! ### another instance: ranks counted up modulo the count (seeded change C03-H1) -/

/-- `s += 1; push(s % c)` for a sentinel, `push(rank + offset)` otherwise -/
def transformGoUp (rk : Nat → Nat) (sent offset c : Nat) : List Nat → Nat → List Nat
  | [], _ => []
  | a :: as, s =>
    if a = sent then ((s + 1) % c) :: transformGoUp rk sent offset c as (s + 1)
    else (rk a + offset) :: transformGoUp rk sent offset c as s

def transformTextUp (t : List Nat) : List Nat :=
  transformGoUp (rankOf t) (sentinelOf t) (t.count (sentinelOf t) - 1) (t.count (sentinelOf t)) t 0

theorem length_transformGoUp (rk : Nat → Nat) (sent offset c : Nat) (xs : List Nat) (s : Nat) :
    (transformGoUp rk sent offset c xs s).length = xs.length := by
  induction xs generalizing s with
  | nil => rfl
  | cons a as ih => simp only [transformGoUp]; split <;> simp [ih]

theorem transformGoUp_getD (rk : Nat → Nat) (sent offset c : Nat) (xs : List Nat) (s i : Nat) (hi : i < xs.length) :
    (transformGoUp rk sent offset c xs s).getD i 0 =
      if xs.getD i 0 = sent then (s + xs.count sent - (xs.drop (i + 1)).count sent) % c else rk (xs.getD i 0) + offset := by
  induction xs generalizing i s with
  | nil => simp at hi
  | cons a as ih =>
    simp only [transformGoUp]
    by_cases ha : a = sent
    · subst ha
      rw [if_pos rfl]
      cases i with
      | zero =>
        simp only [List.getD_cons_zero, if_true, List.count_cons_self, Nat.zero_add, List.drop_succ_cons, List.drop_zero]
        congr 1; omega
      | succ i =>
        have := ih (s + 1) i (by simpa using hi)
        simp only [List.getD_cons_succ, List.count_cons_self, List.drop_succ_cons] at this ⊢
        rw [this]
        split
        · congr 1; omega
        · rfl
    · have hc : (a :: as).count sent = as.count sent := by rw [List.count_cons]; simp [ha]
      rw [if_neg ha, hc]
      cases i with
      | zero => simp [ha]
      | succ i =>
        have := ih s i (by simpa using hi)
        simpa using this

theorem count_take_drop (t : List Nat) (s k : Nat) : (t.take k).count s + (t.drop k).count s = t.count s := by
  rw [← List.count_append, List.take_append_drop]

/-- ranks `1, 2, …, c−1` in text order and `0` for the final sentinel: an instance of the specification -/
theorem ok_transformTextUp (t : List Nat) (hne : t ≠ []) : Ok t (transformTextUp t) := by
  have ho := sentinelOrder_rkAfter t hne
  have hlast := isSentPos_last t hne
  have hcnt : 0 < t.count (sentinelOf t) := List.count_pos_iff.mpr (sentinelOf_mem t hne)
  have hv : ∀ p, IsSentPos t p →
      (transformTextUp t).getD p 0 = (t.count (sentinelOf t) - rkAfter t p) % t.count (sentinelOf t) := by
    intro p hp
    obtain ⟨hpl, hpv⟩ := sentPos_getD t p hp
    unfold transformTextUp rkAfter
    rw [transformGoUp_getD _ _ _ _ t 0 p hpl, if_pos hpv, Nat.zero_add]
  refine ⟨length_transformGoUp _ _ _ _ t 0, ⟨?_, ?_, ?_⟩, ?_⟩
  · intro p hp; rw [hv p hp]; exact Nat.mod_lt _ hcnt
  · intro p q hp hq
    rw [hv p hp, hv q hq]
    intro he
    have b1 := ho.bound p hp
    have b2 := ho.bound q hq
    apply ho.inj p q hp hq
    by_cases h1 : rkAfter t p = 0 <;> by_cases h2 : rkAfter t q = 0
    · omega
    · rw [h1, Nat.sub_zero, Nat.mod_self, Nat.mod_eq_of_lt (by omega)] at he; omega
    · rw [h2, Nat.sub_zero, Nat.mod_self, Nat.mod_eq_of_lt (by omega)] at he; omega
    · rw [Nat.mod_eq_of_lt (by omega), Nat.mod_eq_of_lt (by omega)] at he; omega
  · intro q hq hne'
    rw [hv q hq, hv _ hlast, rkAfter_last, Nat.sub_zero, Nat.mod_self]
    have b2 := ho.bound q hq
    have := ho.last q hq hne'
    rw [rkAfter_last] at this
    rw [Nat.mod_eq_of_lt (by omega)]
    omega
  · intro p hp hns
    have : ¬ t.getD p 0 = sentinelOf t := fun e => hns ((isSentPos_iff_getD t p hp).mpr e)
    unfold transformTextUp
    rw [transformGoUp_getD _ _ _ _ t 0 p hp, if_neg this]

end RbV.Transform
