import RbV.Lemmas.C15SrcAdd
/-! C15: value-level lemmas for the translated integration helpers (scaling in log space, `mapM` of a total function). -/
namespace RbV.C15
open Real RbV.Rs

/-- `s + c` in log space (`ln 0` stays `ln 0`) -/
def shiftLP (c : ℝ) : LP → LP
  | none => none
  | some y => some (y + c)

theorem lin_shiftLP (c : ℝ) (s : LP) : lin (shiftLP c s) = lin s * exp c := by
  cases s with
  | none => simp [shiftLP, lin]
  | some y => simp [shiftLP, lin, exp_add]

theorem add_emb_fin (r : LP) (c : ℝ) : XR.add (emb r) (XR.fin c) = emb (shiftLP c r) := by cases r <;> rfl

theorem sub_emb_fin (r : LP) (c : ℝ) : XR.sub (emb r) (XR.fin c) = emb (shiftLP (-c) r) := by
  cases r with
  | none => rfl
  | some y => simp [shiftLP, sub_eq_add_neg]

theorem scale_error {s : LP} {S δ : ℝ} (c : ℝ) (h : |lin s - S| ≤ δ * S) :
    |lin (shiftLP c s) - S * exp c| ≤ δ * (S * exp c) := by
  rw [lin_shiftLP, ← sub_mul, abs_mul, abs_of_pos (exp_pos c)]
  calc |lin s - S| * exp c ≤ (δ * S) * exp c := mul_le_mul_of_nonneg_right h (exp_pos c).le
    _ = δ * (S * exp c) := by ring

theorem mapM_ok {α β : Type} (f : α → Res β) (g : α → β) : ∀ (l : List α), (∀ x ∈ l, f x = Res.ok (g x)) →
    l.mapM f = Res.ok (l.map g)
  | [], _ => rfl
  | a :: l, h => by
    rw [List.mapM_cons, h a (List.mem_cons_self ..), mapM_ok f g l (fun x hx => h x (List.mem_cons_of_mem _ hx))]
    rfl

/-- the inner grid points with their indices: what `linspace(..).enumerate().dropping(1).dropping_back(1)` yields -/
def innerPts (xs : List XR) : List (Nat × XR) := Rs.dropBack 1 ((Rs.enumIdx xs).drop 1)

theorem decR_two : decR ⟨2, 0⟩ = 2 := by rw [decR_eq]; simp
theorem decR_three : decR ⟨3, 0⟩ = 3 := by rw [decR_eq]; simp

/-! ### grid rule: per-trapezoid terms -/

theorem enumIdxFrom_map {α β : Type} (f : α → β) : ∀ (k : Nat) (l : List α),
    Rs.enumIdxFrom k (l.map f) = (Rs.enumIdxFrom k l).map (fun it => (it.1, f it.2))
  | _, [] => rfl
  | k, a :: l => by simp [Rs.enumIdxFrom, enumIdxFrom_map f (k + 1) l]

theorem mem_enumIdxFrom {α : Type} : ∀ (k : Nat) (l : List α) (it : Nat × α), it ∈ Rs.enumIdxFrom k l →
    k ≤ it.1 ∧ it.1 < k + l.length
  | _, [], _, h => by simp [Rs.enumIdxFrom] at h
  | k, a :: l, it, h => by
    simp only [Rs.enumIdxFrom, List.mem_cons] at h
    rcases h with rfl | h
    · simp
    · have := mem_enumIdxFrom (k + 1) l it h
      simp only [List.length_cons]; omega

theorem idx_map_fin (gs : List ℝ) (j : Nat) (hj : j < gs.length) :
    Rs.idx (gs.map XR.fin) j = Res.ok (XR.fin (gs.getD j 0)) := by
  simp [Rs.idx, List.getElem?_map, List.getElem?_eq_getElem hj, List.getD_eq_getElem?_getD]

/-- a list of values each within `ε` (relative) of its target sums to within `ε` of the total -/
theorem terms_exist {α : Type} (g : α → XR) (q : α → ℝ) (ε : ℝ) : ∀ l : List α,
    (∀ x ∈ l, ∃ t : LP, g x = emb t ∧ |lin t - q x| ≤ ε * q x) →
    ∃ ts : List LP, l.map g = ts.map emb ∧ |(ts.map lin).sum - (l.map q).sum| ≤ ε * (l.map q).sum
  | [], _ => ⟨[], rfl, by simp⟩
  | x :: l, h => by
    obtain ⟨t, ht, he⟩ := h x (List.mem_cons_self ..)
    obtain ⟨ts, hts, hes⟩ := terms_exist g q ε l (fun y hy => h y (List.mem_cons_of_mem _ hy))
    refine ⟨t :: ts, by simp [ht, hts], ?_⟩
    simp only [List.map_cons, List.sum_cons]
    have e : lin t + (ts.map lin).sum - (q x + (l.map q).sum) = (lin t - q x) + ((ts.map lin).sum - (l.map q).sum) := by ring
    rw [e]
    calc _ ≤ |lin t - q x| + |(ts.map lin).sum - (l.map q).sum| := abs_add_le _ _
      _ ≤ ε * q x + ε * (l.map q).sum := add_le_add he hes
      _ = ε * (q x + (l.map q).sum) := by ring

/-- one trapezoid in log space from any admissible addition: `(a ⊕ b) − ln 2 + ln w` -/
theorem trapezoid_term {E δ} (h : ApproxExp E δ) (hδ : δ < 1) {a b r : LP} (hn : AddNear E a b r) {w : ℝ} (hw : 0 < w) :
    XR.add (XR.sub (emb r) (XR.ln (XR.fin 2))) (XR.ln (XR.fin w)) = emb (shiftLP (log w) (shiftLP (-log 2) r)) ∧
    |lin (shiftLP (log w) (shiftLP (-log 2) r)) - w / 2 * (lin a + lin b)| ≤ (δ + dropTol) * (w / 2 * (lin a + lin b)) := by
  have hδ0 := h.delta_nonneg
  have hτ := dropTol_nonneg
  refine ⟨by rw [ln_fin_pos (show (0 : ℝ) < 2 by norm_num), ln_fin_pos hw, sub_emb_fin, add_emb_fin], ?_⟩
  have ha := lin_nonneg a
  have hb := lin_nonneg b
  have h1 := hn.error h hδ
  have h2 : δ * min (lin a) (lin b) ≤ δ * (lin a + lin b) :=
    mul_le_mul_of_nonneg_left (le_trans (min_le_left _ _) (by linarith)) hδ0
  have h3 : dropTol * max (lin a) (lin b) ≤ dropTol * (lin a + lin b) :=
    mul_le_mul_of_nonneg_left (max_le (by linarith) (by linarith)) hτ
  have h4 : |lin r - (lin a + lin b)| ≤ (δ + dropTol) * (lin a + lin b) := by linarith
  have h5 := scale_error (log w) (scale_error (-log 2) h4)
  rw [exp_neg, exp_log (show (0 : ℝ) < 2 by norm_num), exp_log hw] at h5
  have e : (lin a + lin b) * (2 : ℝ)⁻¹ * w = w / 2 * (lin a + lin b) := by ring
  rwa [e] at h5

end RbV.C15
