import RbV.Lemmas.C15SrcAdd
/-! C15: value-level lemmas for the translated integration helpers (scaling in log space, `mapM` of a total function). -/
namespace RbV.C15
open Real RbV.Rs

/-- `s + c` in log space (`ln 0` stays `ln 0`) -/
def shiftLP (c : ℝ) : LP → LP
  | none => none
  | some y => some (y + c)

theorem lin_shiftLP (c : ℝ) (s : LP) : lin (shiftLP c s) = lin s * exp c := by
  cases s with
  | none => simp [shiftLP, lin]
  | some y => simp [shiftLP, lin, exp_add]

theorem add_emb_fin (r : LP) (c : ℝ) : XR.add (emb r) (XR.fin c) = emb (shiftLP c r) := by cases r <;> rfl

theorem sub_emb_fin (r : LP) (c : ℝ) : XR.sub (emb r) (XR.fin c) = emb (shiftLP (-c) r) := by
  cases r with
  | none => rfl
  | some y => simp [shiftLP, sub_eq_add_neg]

theorem scale_error {s : LP} {S δ : ℝ} (c : ℝ) (h : |lin s - S| ≤ δ * S) :
    |lin (shiftLP c s) - S * exp c| ≤ δ * (S * exp c) := by
  rw [lin_shiftLP, ← sub_mul, abs_mul, abs_of_pos (exp_pos c)]
  calc |lin s - S| * exp c ≤ (δ * S) * exp c := mul_le_mul_of_nonneg_right h (exp_pos c).le
    _ = δ * (S * exp c) := by ring

theorem mapM_ok {α β : Type} (f : α → Res β) (g : α → β) : ∀ (l : List α), (∀ x ∈ l, f x = Res.ok (g x)) →
    l.mapM f = Res.ok (l.map g)
  | [], _ => rfl
  | a :: l, h => by
    rw [List.mapM_cons, h a (List.mem_cons_self ..), mapM_ok f g l (fun x hx => h x (List.mem_cons_of_mem _ hx))]
    rfl

/-- the inner grid points with their indices: what `linspace(..).enumerate().dropping(1).dropping_back(1)` yields -/
def innerPts (xs : List XR) : List (Nat × XR) := Rs.dropBack 1 ((Rs.enumIdx xs).drop 1)

theorem decR_two : decR ⟨2, 0⟩ = 2 := by rw [decR_eq]; simp
theorem decR_three : decR ⟨3, 0⟩ = 3 := by rw [decR_eq]; simp

end RbV.C15
