import RbV.Model.MyersTracebackLong
import RbV.Lemmas.TracebackState
/-!
Block addressing of the block-based Myers traceback (`long.rs: LongTracebackHandler`) (C10, block-based handler, stage 1).
Core Lean only.

A pattern of `m` symbols is cut into `nb` blocks of `w` rows, the last one of `m − (nb − 1)·w ∈ 1..w` rows (`Geo`).  Row
index `i` (the vertical difference between matrix rows `i` and `i + 1`) lives in block `B`, bit `b`, with `i = B·w + b`.
This file has the arithmetic of this addressing, the bit tests the handler uses to detect a block boundary
(`pos_bitvec != 1`, `left_mask & 0b10 == 0`, `left_mask != 0`, `mv & 1 == 1`), the `u64` version of `adjust_by_mask`,
and the independence of the matrix walk from surplus fuel.
-/
namespace RbV.Model.MyersTracebackLong
open RbV.EditDist
open RbV.Model.MyersSimple (St)
open RbV.Model.MyersTraceback

/-! ### geometry -/

/-- `nb = ⌈m / w⌉` blocks of `w ≥ 2` rows -/
structure Geo (w nb m : Nat) : Prop where
  hw : 2 ≤ w
  hnb : 1 ≤ nb
  lo : (nb - 1) * w < m
  hi : m ≤ (nb - 1) * w + w

/-- number of rows of block `B` -/
def lenB (w nb m B : Nat) : Nat := if B + 1 = nb then m - (nb - 1) * w else w

/-- number of rows covered by the first `L ≤ nb` blocks -/
def rowsL (w nb m L : Nat) : Nat := if L = nb then m else L * w

theorem Geo.len_pos {w nb m : Nat} (g : Geo w nb m) (B : Nat) : 1 ≤ lenB w nb m B := by
  unfold lenB; have := g.lo; have := g.hw; split <;> omega

theorem Geo.len_le {w nb m : Nat} (g : Geo w nb m) (B : Nat) : lenB w nb m B ≤ w := by
  unfold lenB; have := g.hi; split <;> omega

theorem Geo.len_inner {w nb m : Nat} (_g : Geo w nb m) (B : Nat) (h : B + 1 < nb) : lenB w nb m B = w := by
  unfold lenB; rw [if_neg (by omega)]

theorem mul_lt_of_lt (B L w : Nat) (h : B < L) : B * w + w ≤ L * w := by
  have := Nat.mul_le_mul_right w (show B + 1 ≤ L by omega)
  rw [Nat.succ_mul] at this
  exact this

/-- the end of block `B` is within the pattern -/
theorem Geo.block_end_le {w nb m : Nat} (g : Geo w nb m) (B : Nat) (hB : B < nb) : B * w + lenB w nb m B ≤ m := by
  unfold lenB
  have h1 := g.lo
  split
  · rename_i h
    have : B = nb - 1 := by omega
    subst this; omega
  · have := mul_lt_of_lt B (nb - 1) w (by omega)
    omega

/-- the end of the last block is the end of the pattern -/
theorem Geo.last_end {w nb m : Nat} (g : Geo w nb m) : (nb - 1) * w + lenB w nb m (nb - 1) = m := by
  unfold lenB
  have h1 := g.lo
  have h2 := g.hnb
  rw [if_pos (by omega)]
  omega

/-- the end of an inner block is the beginning of the next one -/
theorem Geo.inner_end {w nb m : Nat} (g : Geo w nb m) (B : Nat) (h : B + 1 < nb) :
    B * w + lenB w nb m B = (B + 1) * w := by
  rw [g.len_inner B h, Nat.succ_mul]

/-- row index `B·w + b` (bit `b` of block `B`) is below the first `L` blocks iff `B < L` -/
theorem Geo.row_in_iff {w nb m : Nat} (g : Geo w nb m) (B b L : Nat) (hB : B < nb) (hb : b < lenB w nb m B)
    (_hL : L ≤ nb) : B * w + b + 1 ≤ rowsL w nb m L ↔ B < L := by
  have hend := g.block_end_le B hB
  have hlw := g.len_le B
  unfold rowsL
  split
  · omega
  · constructor
    · intro h
      apply Nat.lt_of_not_le
      intro hle
      have := Nat.mul_le_mul_right w hle
      omega
    · intro h
      have := mul_lt_of_lt B L w h
      omega

/-- a row `r ≥ 1` below the first `L` blocks decomposes as `r = B·w + a` with `1 ≤ a ≤ len B`, `B < L` -/
theorem Geo.rows_le {w nb m : Nat} (g : Geo w nb m) (L : Nat) (hL : L ≤ nb) : rowsL w nb m L ≤ m := by
  unfold rowsL
  split
  · omega
  · have := mul_lt_of_lt L nb w (by omega)
    have h1 := g.lo
    have h2 := g.hnb
    obtain ⟨n, rfl⟩ : ∃ n, nb = n + 1 := ⟨nb - 1, by omega⟩
    simp only [Nat.add_sub_cancel] at h1
    have := Nat.mul_le_mul_right w (show L ≤ n by omega)
    omega

/-- the left cursor `B·w + a` with `a ≥ 1`: its row is within the first `L` blocks iff `B < L` -/
theorem Geo.lrow_in_iff {w nb m : Nat} (g : Geo w nb m) (B a L : Nat) (hB : B < nb) (ha1 : 1 ≤ a)
    (ha : a ≤ lenB w nb m B) (hL : L ≤ nb) : B * w + a ≤ rowsL w nb m L ↔ B < L := by
  have := g.row_in_iff B (a - 1) L hB (by omega) hL
  rw [← this]
  omega

/-- `last_m` of `LongTracebackHandler::new` -/
theorem Geo.lastM {w nb m : Nat} (g : Geo w nb m) :
    (if m % w = 0 then w else m % w) = lenB w nb m (nb - 1) := by
  have h1 := g.lo
  have h2 := g.hi
  have h3 := g.hw
  have h4 := g.hnb
  have hl : lenB w nb m (nb - 1) = m - (nb - 1) * w := by
    unfold lenB; rw [if_pos (by omega)]
  rw [hl]
  have hc := Nat.mul_comm w (nb - 1)
  have e : m = (m - (nb - 1) * w) + w * (nb - 1) := by omega
  by_cases hfull : m - (nb - 1) * w = w
  · have h0 : m % w = 0 := by
      rw [e, Nat.add_mul_mod_self_left, hfull, Nat.mod_self]
    rw [if_pos h0, hfull]
  · have hm : m % w = m - (nb - 1) * w := by
      conv => lhs; rw [e]
      rw [Nat.add_mul_mod_self_left, Nat.mod_eq_of_lt (by omega)]
    rw [hm, if_neg (by omega)]

/-- right cursor (block `B`, bit `b`) and left cursor (block `BL`, local row `a`) on the same global row: either the same
block, or the right cursor is at the first bit of the block below the left one -/
theorem cursor_cases (w B b BL a : Nat) (hb : b < w) (ha : a ≤ w)
    (h : B * w + b = BL * w + a) : (BL = B ∧ a = b) ∨ (b = 0 ∧ B = BL + 1 ∧ a = w) := by
  rcases Nat.lt_trichotomy BL B with hlt | heq | hgt
  · right
    have h1 := mul_lt_of_lt BL B w hlt
    refine ⟨by omega, ?_, by omega⟩
    apply Nat.le_antisymm
    · apply Nat.le_of_not_lt
      intro h2
      have h3 := mul_lt_of_lt (BL + 1) B w h2
      rw [Nat.succ_mul] at h3
      omega
    · omega
  · left; subst heq; omega
  · have h1 := mul_lt_of_lt B BL w hgt
    omega

/-! ### bit tests -/

theorem twoPow_eq_one_iff {w b : Nat} (hb : b < w) : BitVec.twoPow w b = 1#w ↔ b = 0 := by
  constructor
  · intro h
    have := congrArg (fun x => x.getLsbD b) h
    simp only [BitVec.getLsbD_twoPow, BitVec.getLsbD_one] at this
    simp [hb] at this
    omega
  · intro h; subst h; simp [BitVec.twoPow]

/-- `pos_bitvec != 1 || block_pos == 0` -/
theorem pos_test {w b : Nat} (hb : b < w) (B : Nat) :
    ((BitVec.twoPow w b != 1#w) || B == 0) = decide (b ≠ 0 ∨ B = 0) := by
  rw [Bool.eq_iff_iff]
  simp only [Bool.or_eq_true, bne_iff_ne, ne_eq, beq_iff_eq, decide_eq_true_eq, twoPow_eq_one_iff hb]

theorem ofNat_two {w : Nat} : BitVec.ofNat w 0b10 = BitVec.twoPow w 1 := by
  apply BitVec.eq_of_toNat_eq
  simp [BitVec.toNat_twoPow]

/-- `left_mask & 0b10 == 0` -/
theorem bit1_test {w : Nat} (hw : 2 ≤ w) (x : BitVec w) :
    ((x &&& BitVec.ofNat w 0b10) == 0#w) = !x.getLsbD 1 := by
  have := test_twoPow x 1 (by omega)
  rw [ofNat_two]
  rw [← this]
  cases h : (x &&& BitVec.twoPow w 1) == 0#w <;> simp [bne, h]

/-- `b.mv & 1 == 1` -/
theorem bit0_test {w : Nat} (hw : 1 ≤ w) (x : BitVec w) : ((x &&& 1#w) == 1#w) = x.getLsbD 0 := by
  have e : (1#w) = BitVec.twoPow w 0 := by simp [BitVec.twoPow]
  rw [e, BitVec.and_twoPow]
  cases h : x.getLsbD 0
  · simp only [Bool.false_eq_true, if_false]
    apply beq_false_of_ne
    exact (twoPow_ne_zero (by omega)).symm
  · simp

/-- a range mask is non-zero iff the range is not empty -/
theorem mask_ne_zero {w : Nat} (mask : BitVec w) (a len : Nat) (_hl : len ≤ w)
    (h : ∀ b, mask.getLsbD b = decide (a ≤ b ∧ b < len)) : (mask != 0#w) = decide (a < len) := by
  rw [Bool.eq_iff_iff]
  simp only [bne_iff_ne, ne_eq, decide_eq_true_eq]
  constructor
  · intro hne
    apply Nat.lt_of_not_le
    intro hle
    apply hne
    apply BitVec.eq_of_getLsbD_eq
    intro i hi
    rw [h]
    simp; omega
  · intro hlt he
    have := h a
    rw [he] at this
    simp at this
    omega

theorem mask_zero {w : Nat} (len : Nat) : ∀ b, (0#w).getLsbD b = decide (len ≤ b ∧ b < len) := by
  intro b; simp

theorem mask_single {w : Nat} (len : Nat) (h1 : 1 ≤ len) (hl : len ≤ w) :
    ∀ b, (BitVec.twoPow w (len - 1)).getLsbD b = decide (len - 1 ≤ b ∧ b < len) := by
  intro b
  rw [BitVec.getLsbD_twoPow, Bool.eq_iff_iff]
  simp only [Bool.and_eq_true, decide_eq_true_eq]
  omega

/-! ### `adjust_by_mask` in `u64` arithmetic -/

theorem popc_go_le {w : Nat} (x : BitVec w) : ∀ n, popc.go x n ≤ n := by
  intro n
  induction n with
  | zero => simp [popc.go]
  | succ n ih =>
    simp only [popc.go]
    cases x.getLsbD n <;> simp <;> omega

/-- `adjust_by_mask` with wrap-around modulo `U + 1` (`U` kept abstract: `2^64 − 1` must never be unfolded) -/
def adjG {w : Nat} (U : Nat) (s : St w) (mask : BitVec w) : St w :=
  { s with dist := ((s.dist + popc (s.mv &&& mask)) % (U + 1) + (U + 1) - popc (s.pv &&& mask)) % (U + 1) }

theorem adjustByMaskU_eq {w : Nat} (s : St w) (mask : BitVec w) : adjustByMaskU s mask = adjG umax s mask := rfl

/-- `adjust_by_mask` on a block that encodes the local column `C` (rows `0..len`, `dist = C len`), mask = bits
`r..len−1`: the distance moves to local row `r`; nothing wraps around as long as `dist + #mv < 2^64` -/
theorem adjG_spec {w len : Nat} (U : Nat) (C : Nat → Int) (s : St w) (mask : BitVec w) (r : Nat) (hr : r ≤ len)
    (hlw : len ≤ w) (enc : VEnc len C s.pv s.mv) (hmask : ∀ b, mask.getLsbD b = decide (r ≤ b ∧ b < len))
    (hd : (s.dist : Int) = C len) (h0 : 0 ≤ C r) (hsmall : s.dist + popc (s.mv &&& mask) ≤ U) :
    (adjG U s mask).pv = s.pv ∧ (adjG U s mask).mv = s.mv ∧
    ((adjG U s mask).dist : Int) = C r := by
  obtain ⟨_, _, hle, hval⟩ := adjustByMask_spec C s mask r hr hlw enc hmask hd h0
  refine ⟨rfl, rfl, ?_⟩
  simp only [adjustByMask] at hval
  simp only [adjG]
  have h1 : (s.dist + popc (s.mv &&& mask)) % (U + 1) = s.dist + popc (s.mv &&& mask) :=
    Nat.mod_eq_of_lt (by omega)
  rw [h1]
  have h2 : s.dist + popc (s.mv &&& mask) + (U + 1) - popc (s.pv &&& mask) =
      (s.dist + popc (s.mv &&& mask) - popc (s.pv &&& mask)) + (U + 1) := by omega
  rw [h2, Nat.add_mod_right, Nat.mod_eq_of_lt (by omega)]
  exact hval

theorem adjustByMaskU_spec {w len : Nat} (C : Nat → Int) (s : St w) (mask : BitVec w) (r : Nat) (hr : r ≤ len)
    (hlw : len ≤ w) (enc : VEnc len C s.pv s.mv) (hmask : ∀ b, mask.getLsbD b = decide (r ≤ b ∧ b < len))
    (hd : (s.dist : Int) = C len) (h0 : 0 ≤ C r) (hsmall : s.dist + popc (s.mv &&& mask) ≤ umax) :
    (adjustByMaskU s mask).pv = s.pv ∧ (adjustByMaskU s mask).mv = s.mv ∧
    ((adjustByMaskU s mask).dist : Int) = C r := by
  rw [adjustByMaskU_eq]
  exact adjG_spec umax C s mask r hr hlw enc hmask hd h0 hsmall

theorem popc_le {w : Nat} (x : BitVec w) : popc x ≤ w := popc_go_le x w

theorem popc_zero_and {w : Nat} (mask : BitVec w) : popc (0#w &&& mask) = 0 := by
  have e : 0#w &&& mask = 0#w := by simp
  rw [e]
  unfold popc
  have : ∀ n, popc.go (0#w) n = 0 := by
    intro n
    induction n with
    | zero => rfl
    | succ n ih => simp [popc.go, ih]
  exact this w

/-- inside a block the column rises by at most one per row -/
theorem VEnc.span {w len : Nat} {C : Nat → Int} {pv mv : BitVec w} (enc : VEnc len C pv mv) :
    ∀ i, i ≤ len → C len - C (len - i) ≤ i := by
  intro i
  induction i with
  | zero => intro _; simp
  | succ i ih =>
    intro hi
    have h1 := ih (by omega)
    have h2 := enc.diff (len - (i + 1)) (by omega)
    have e : len - (i + 1) + 1 = len - i := by omega
    rw [e] at h2
    omega

/-- the guard column `State::max()` and the local column it encodes in a block of `len` rows -/
theorem guard_enc {w : Nat} (U len : Nat) (hl : len ≤ w) :
    VEnc len (fun i => (U : Int) - len + i) (maxSt w U).pv (maxSt w U).mv := by
  refine ⟨?_, ?_, ?_⟩
  · intro i _; constructor <;> omega
  · intro i hi
    have : i < w := by omega
    simp only [maxSt, BitVec.getLsbD_allOnes]
    simp [this]; omega
  · intro i _
    simp only [maxSt, BitVec.getLsbD_zero]
    simp; omega

/-! ### the matrix walk does not depend on surplus fuel -/

theorem ruleNext_dec' (D : Nat → Nat → Nat) (i j : Nat) (h : ruleOp D i j = Op.del → 1 ≤ j) :
    (ruleNext D i j).1 + (ruleNext D i j).2 ≤ i + j := by
  unfold ruleNext
  split
  · simp only; omega
  · simp only; omega
  · rename_i hd; have := h hd; simp only; omega
  · simp only; omega

theorem ruleOp_del_pos (D : Nat → Nat → Nat) (i j : Nat) (h : ruleOp D i j = Op.del) : 1 ≤ j := by
  unfold ruleOp at h
  split at h
  · cases h
  · split at h
    · cases h
    · split at h
      · rename_i h3; exact h3.1
      · cases h

theorem walkF_fuel (D : Nat → Nat → Nat) : ∀ (f1 f2 i j : Nat), i + j ≤ f1 → i + j ≤ f2 →
    walkF D f1 i j = walkF D f2 i j := by
  intro f1
  induction f1 with
  | zero =>
    intro f2 i j h1 _
    have : i = 0 := by omega
    subst this
    cases f2 <;> simp [walkF]
  | succ f1 ih =>
    intro f2 i j h1 h2
    cases i with
    | zero => cases f2 <;> simp [walkF]
    | succ i =>
      cases f2 with
      | zero => omega
      | succ f2 =>
        rw [walkF_step, walkF_step]
        have hd := ruleNext_dec' D i j (ruleOp_del_pos D i j)
        rw [ih f2 _ _ (by omega) (by omega)]

end RbV.Model.MyersTracebackLong
