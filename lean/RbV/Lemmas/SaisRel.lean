import RbV.Lemmas.SaisKeys
/-
The relation axioms (`IndRel`, `StepL`, `StepS`) for the orders of `SaisKeys`: the suffix order `sufR`, the order
`leKey` of the typed LMS substrings, and its L-pass variant `leKeyL`.
-/
namespace RbV.Sais
open RbV

/-! ### generic helpers -/

theorem drop_sym (t : List Nat) (x : Nat) (hx : x < t.length) : t.drop x = sym t x :: t.drop (x + 1) := by
  rw [List.drop_eq_getElem_cons hx]
  unfold sym
  rw [List.getD_eq_getElem?_getD, List.getElem?_eq_getElem hx]
  rfl

theorem lexLt_cons (a b : Nat) (as bs : List Nat) :
    lexLt (a :: as) (b :: bs) ↔ (a < b ∨ (a = b ∧ lexLt as bs)) := by
  simp only [lexLt]

theorem not_lexLt_of_head_lt (a b : Nat) (as bs : List Nat) (h : a < b) : ¬ lexLt (b :: bs) (a :: as) := by
  rw [lexLt_cons]
  intro h'
  rcases h' with h' | ⟨h', _⟩ <;> omega

theorem not_lexLt_cons_of_tail (a : Nat) (as bs : List Nat) (h : ¬ lexLt bs as) : ¬ lexLt (a :: bs) (a :: as) := by
  rw [lexLt_cons]
  intro h'
  rcases h' with h' | ⟨_, h'⟩
  · omega
  · exact h h'

/-! ### suffix order -/

theorem suf_LS_aux (t : List Nat) (hv : Valid t) :
    ∀ k x y, t.length - x ≤ k → x < t.length → y < t.length → sym t x = sym t y →
      isS (tyOf t) x = false → isS (tyOf t) y = true → lexLt (t.drop x) (t.drop y) := by
  intro k
  induction k with
  | zero => intro x y hk hx; omega
  | succ k ih =>
    intro x y hk hx hy he hL hS
    have hx1 : x + 1 < t.length := lt_of_isL hv x hx hL
    have hy1 : y + 1 < t.length := by
      apply Classical.byContradiction
      intro hc
      have hyl : y = t.length - 1 := by omega
      have := sym_ne_last hv x hx1
      rw [← hyl] at this
      exact this he
    have h1 : sym t (x + 1) ≤ sym t x := sym_ge_of_isL x hx1 hL
    have h2 : sym t y ≤ sym t (y + 1) := sym_le_of_isS y hy1 hS
    rw [drop_sym t x hx, drop_sym t y hy, lexLt_cons]
    right
    refine ⟨he, ?_⟩
    by_cases hlt : sym t (x + 1) < sym t (y + 1)
    · rw [drop_sym t (x + 1) hx1, drop_sym t (y + 1) hy1, lexLt_cons]
      left; exact hlt
    · have ex : sym t x = sym t (x + 1) := by omega
      have ey : sym t y = sym t (y + 1) := by omega
      have hL' : isS (tyOf t) (x + 1) = false := by rw [← isS_of_eq x hx1 ex]; exact hL
      have hS' : isS (tyOf t) (y + 1) = true := by rw [← isS_of_eq y hy1 ey]; exact hS
      exact ih (x + 1) (y + 1) (by omega) hx1 hy1 (by omega) hL' hS'

theorem indRel_suf (t : List Nat) (hv : Valid t) : IndRel t (sufR t) := by
  refine ⟨?_, ?_⟩
  · intro x y hx hy h
    unfold sufR
    rw [drop_sym t x hx, drop_sym t y hy, lexLt_cons]
    left; exact h
  · intro x y hx hy he hL hS
    exact suf_LS_aux t hv (t.length - x) x y (Nat.le_refl _) hx hy he hL hS

theorem stepL_suf (t : List Nat) : StepL t (sufR t) := by
  intro x y hx hy he _ _ h
  unfold sufR at h ⊢
  rw [drop_sym t x hx, drop_sym t y hy, lexLt_cons]
  right; exact ⟨he, h⟩

theorem stepS_suf (t : List Nat) : StepS t (sufR t) := by
  intro x y hx hy he _ _ h
  unfold sufR at h ⊢
  rw [drop_sym t x (by omega), drop_sym t y (by omega), lexLt_cons]
  right; exact ⟨he, h⟩

/-! ### typed symbols -/

theorem enc_lt_of_sym_lt (t : List Nat) (x y : Nat) (h : sym t x < sym t y) : enc t x < enc t y := by
  unfold enc
  split <;> split <;> omega

theorem enc_lt_of_LS (t : List Nat) (x y : Nat) (he : sym t x = sym t y) (hL : isS (tyOf t) x = false)
    (hS : isS (tyOf t) y = true) : enc t x < enc t y := by
  unfold enc
  rw [hL, hS, he]
  simp

theorem enc_eq_of_same (t : List Nat) (x y : Nat) (he : sym t x = sym t y)
    (hty : isS (tyOf t) x = isS (tyOf t) y) : enc t x = enc t y := by
  unfold enc
  rw [hty, he]

/-! ### typed LMS substrings -/

theorem zs_drop (t : List Nat) (x : Nat) (hx : x < t.length) :
    (zs t).drop x = (enc t x, isLms (tyOf t) x) :: (zs t).drop (x + 1) := by
  have hl : x < (zs t).length := by unfold zs; simp; exact hx
  rw [List.drop_eq_getElem_cons hl]
  congr 1
  simp only [zs, List.getElem_map, List.getElem_range]

theorem key_succ (t : List Nat) (x : Nat) (hx : x + 1 < t.length) (hn : isLms (tyOf t) (x + 1) = false) :
    key t x = enc t x :: key t (x + 1) := by
  unfold key
  rw [zs_drop t (x + 1) hx, hn]
  simp [takeLms]

theorem key_succ_lms (t : List Nat) (x : Nat) (hx : x + 1 < t.length) (hl : isLms (tyOf t) (x + 1) = true) :
    key t x = [enc t x, enc t (x + 1)] := by
  unfold key
  rw [zs_drop t (x + 1) hx, hl]
  simp [takeLms]

theorem key_head (t : List Nat) (x : Nat) : ∃ r, key t x = enc t x :: r := ⟨_, rfl⟩

theorem keyL_head (t : List Nat) (x : Nat) : ∃ r, keyL t x = enc t x :: r := by
  unfold keyL
  split
  · exact ⟨_, rfl⟩
  · exact ⟨_, rfl⟩

theorem not_isLms_of_L (t : List Nat) (x : Nat) (h : isS (tyOf t) x = false) : isLms (tyOf t) x = false := by
  cases hl : isLms (tyOf t) x with
  | false => rfl
  | true =>
    rw [isLms_iff] at hl
    rw [h] at hl
    exact absurd hl.2.1 (by simp)

theorem not_isLms_succ_of_S (t : List Nat) (x : Nat) (h : isS (tyOf t) x = true) :
    isLms (tyOf t) (x + 1) = false := by
  cases hl : isLms (tyOf t) (x + 1) with
  | false => rfl
  | true =>
    rw [isLms_iff, Nat.add_sub_cancel, h] at hl
    exact absurd hl.2.2 (by simp)

theorem isS_of_isLms (t : List Nat) (x : Nat) (h : isLms (tyOf t) x = true) : isS (tyOf t) x = true := by
  rw [isLms_iff] at h
  exact h.2.1

theorem keyL_of_L (t : List Nat) (x : Nat) (h : isS (tyOf t) x = false) : keyL t x = key t x := by
  unfold keyL
  rw [not_isLms_of_L t x h]
  simp

theorem indRel_key (t : List Nat) (hv : Valid t) : IndRel t (leKey t) := by
  have _ := hv
  refine ⟨?_, ?_⟩
  · intro x y _ _ h
    unfold leKey
    obtain ⟨rx, ex⟩ := key_head t x
    obtain ⟨ry, ey⟩ := key_head t y
    rw [ex, ey]
    exact not_lexLt_of_head_lt _ _ _ _ (enc_lt_of_sym_lt t x y h)
  · intro x y _ _ he hL hS
    unfold leKey
    obtain ⟨rx, ex⟩ := key_head t x
    obtain ⟨ry, ey⟩ := key_head t y
    rw [ex, ey]
    exact not_lexLt_of_head_lt _ _ _ _ (enc_lt_of_LS t x y he hL hS)

theorem stepS_key (t : List Nat) (hv : Valid t) : StepS t (leKey t) := by
  have _ := hv
  intro x y hx hy he hSx hSy h
  unfold leKey at h ⊢
  rw [key_succ t x hx (not_isLms_succ_of_S t x hSx), key_succ t y hy (not_isLms_succ_of_S t y hSy),
    enc_eq_of_same t x y he (by rw [hSx, hSy])]
  exact not_lexLt_cons_of_tail _ _ _ h

/-! ### the L-pass variant -/

theorem indRel_keyL (t : List Nat) (hv : Valid t) : IndRel t (leKeyL t) := by
  have _ := hv
  refine ⟨?_, ?_⟩
  · intro x y _ _ h
    unfold leKeyL
    obtain ⟨rx, ex⟩ := keyL_head t x
    obtain ⟨ry, ey⟩ := keyL_head t y
    rw [ex, ey]
    exact not_lexLt_of_head_lt _ _ _ _ (enc_lt_of_sym_lt t x y h)
  · intro x y _ _ he hL hS
    unfold leKeyL
    obtain ⟨rx, ex⟩ := keyL_head t x
    obtain ⟨ry, ey⟩ := keyL_head t y
    rw [ex, ey]
    exact not_lexLt_of_head_lt _ _ _ _ (enc_lt_of_LS t x y he hL hS)

/-- for an L-type position, `keyL` unfolds by one symbol -/
theorem keyL_succ_of_L (t : List Nat) (hv : Valid t) (x : Nat) (hx : x < t.length) (hL : isS (tyOf t) x = false) :
    keyL t x = enc t x :: keyL t (x + 1) := by
  have hx1 : x + 1 < t.length := lt_of_isL hv x hx hL
  rw [keyL_of_L t x hL]
  cases hl : isLms (tyOf t) (x + 1) with
  | true =>
    rw [key_succ_lms t x hx1 hl]
    unfold keyL
    rw [hl]
    simp
  | false =>
    rw [key_succ t x hx1 hl]
    unfold keyL
    rw [hl]
    simp

theorem stepL_keyL (t : List Nat) (hv : Valid t) : StepL t (leKeyL t) := by
  intro x y hx hy he hLx hLy h
  unfold leKeyL at h ⊢
  rw [keyL_succ_of_L t hv x hx hLx, keyL_succ_of_L t hv y hy hLy,
    enc_eq_of_same t x y he (by rw [hLx, hLy])]
  exact not_lexLt_cons_of_tail _ _ _ h

theorem leKey_of_leKeyL (t : List Nat) (x y : Nat) (hx : isS (tyOf t) x = false) (hy : isS (tyOf t) y = false)
    (h : leKeyL t x y) : leKey t x y := by
  unfold leKeyL at h
  unfold leKey
  rw [keyL_of_L t x hx, keyL_of_L t y hy] at h
  exact h

theorem leKeyL_lms (t : List Nat) (p q : Nat) (hp : isLms (tyOf t) p = true) (hq : isLms (tyOf t) q = true)
    (h : sym t p = sym t q) : leKeyL t p q := by
  unfold leKeyL keyL
  rw [hp, hq, enc_eq_of_same t p q h (by rw [isS_of_isLms t p hp, isS_of_isLms t q hq])]
  simp only [if_true]
  exact lexLt_irrefl _

end RbV.Sais
