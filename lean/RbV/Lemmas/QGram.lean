import RbV.Spec.QGram
import RbV.Basic.Sorted
/-! Lemmas about q-gram codes, position lists and k-mer match lists (core Lean only). -/
namespace RbV.QGram
open RbV

/-! ### width -/

theorem le_two_pow_bitsFor (n : Nat) : n ≤ 2 ^ bitsFor n := by
  unfold bitsFor
  split
  · simp; omega
  · have := @Nat.lt_log2_self (n - 1)
    omega

/-- `bitsFor n` is the least such width -/
theorem bitsFor_min (n b : Nat) (h : n ≤ 2 ^ b) : bitsFor n ≤ b := by
  unfold bitsFor
  split
  · omega
  · rename_i hn
    have h1 : 2 ^ Nat.log2 (n - 1) ≤ n - 1 := Nat.log2_self_le (by omega)
    have h2 : 2 ^ Nat.log2 (n - 1) < 2 ^ b := by omega
    have := (Nat.pow_lt_pow_iff_right (a := 2) (by omega)).mp h2
    omega

/-! ### ranks -/

theorem filter_length_lt_of_mem {p : Nat → Bool} {l : List Nat} {c : Nat} (hc : c ∈ l) (hp : p c = false) :
    (l.filter p).length < l.length := by
  induction l with
  | nil => cases hc
  | cons a l ih =>
    simp only [List.filter]
    rcases List.mem_cons.mp hc with rfl | h
    · simp only [hp, List.length_cons]
      have := List.length_filter_le p l
      omega
    · have := ih h
      split <;> simp only [List.length_cons] <;> omega

theorem rank_lt_length {alpha : List Nat} {c : Nat} (hc : c ∈ alpha) : rank alpha c < alpha.length := by
  unfold rank
  apply filter_length_lt_of_mem hc
  simp

theorem rank_lt_of_lt {alpha : List Nat} {a b : Nat} (ha : a ∈ alpha) (hab : a < b) :
    rank alpha a < rank alpha b := by
  unfold rank
  induction alpha with
  | nil => cases ha
  | cons x l ih =>
    simp only [List.filter]
    have hmono : (l.filter (· < a)).length ≤ (l.filter (· < b)).length := by
      clear ih ha
      induction l with
      | nil => simp
      | cons y l ih =>
        simp only [List.filter]
        by_cases h1 : y < a
        · have h2 : y < b := by omega
          simp [h1, h2, ih]
        · by_cases h2 : y < b
          · simp [h1, h2]; omega
          · simp [h1, h2, ih]
    rcases List.mem_cons.mp ha with rfl | h
    · have h1 : ¬ a < a := by omega
      simp [h1, hab]; omega
    · have := ih h
      by_cases h1 : x < a
      · have h2 : x < b := by omega
        simp [h1, h2]; omega
      · by_cases h2 : x < b
        · simp [h1, h2]; omega
        · simp [h1, h2]; omega

/-- different alphabet symbols have different ranks -/
theorem rank_injective {alpha : List Nat} {a b : Nat} (ha : a ∈ alpha) (hb : b ∈ alpha)
    (h : rank alpha a = rank alpha b) : a = b := by
  rcases Nat.lt_trichotomy a b with hlt | heq | hgt
  · have := rank_lt_of_lt ha hlt; omega
  · exact heq
  · have := rank_lt_of_lt hb hgt; omega

/-! ### codes -/

theorem foldl_code_inj (B : Nat) (u v : List Nat) (a a' : Nat) (hl : u.length = v.length)
    (hu : ∀ r ∈ u, r < B) (hv : ∀ r ∈ v, r < B)
    (h : u.foldl (fun c r => c * B + r) a = v.foldl (fun c r => c * B + r) a') : a = a' ∧ u = v := by
  induction u generalizing v a a' with
  | nil =>
    cases v with
    | nil => exact ⟨by simpa using h, rfl⟩
    | cons _ _ => simp at hl
  | cons r rs ih =>
    cases v with
    | nil => simp at hl
    | cons s ss =>
      simp only [List.foldl_cons] at h
      have hr := hu r (by simp)
      have hs := hv s (by simp)
      obtain ⟨h1, h2⟩ := ih ss (a * B + r) (a' * B + s) (by simpa using hl)
        (fun x hx => hu x (by simp [hx])) (fun x hx => hv x (by simp [hx])) h
      have hB : 0 < B := by omega
      have e1 : (a * B + r) / B = a := by
        rw [Nat.mul_comm, Nat.mul_add_div hB, Nat.div_eq_of_lt hr]; rfl
      have e2 : (a' * B + s) / B = a' := by
        rw [Nat.mul_comm, Nat.mul_add_div hB, Nat.div_eq_of_lt hs]; rfl
      have e3 : (a * B + r) % B = r := by
        rw [Nat.mul_comm, Nat.mul_add_mod, Nat.mod_eq_of_lt hr]
      have e4 : (a' * B + s) % B = s := by
        rw [Nat.mul_comm, Nat.mul_add_mod, Nat.mod_eq_of_lt hs]
      have haa : a = a' := by rw [← e1, ← e2, h1]
      have hrs : r = s := by rw [← e3, ← e4, h1]
      exact ⟨haa, by rw [hrs, h2]⟩

/-- the positional code is injective on rank words of equal length with ranks below `2^b` -/
theorem code_injective (b : Nat) (u v : List Nat) (hl : u.length = v.length)
    (hu : ∀ r ∈ u, r < 2 ^ b) (hv : ∀ r ∈ v, r < 2 ^ b) (h : code b u = code b v) : u = v :=
  (foldl_code_inj (2 ^ b) u v 0 0 hl hu hv h).2

theorem code_append_single (b : Nat) (w : List Nat) (a : Nat) : code b (w ++ [a]) = code b w * 2 ^ b + a := by
  simp [code, List.foldl_append]

theorem foldl_code_shift (B : Nat) (w : List Nat) (x : Nat) :
    w.foldl (fun c r => c * B + r) x = x * B ^ w.length + w.foldl (fun c r => c * B + r) 0 := by
  induction w generalizing x with
  | nil => simp
  | cons a w ih =>
    simp only [List.foldl_cons, List.length_cons]
    rw [ih (x * B + a), ih (0 * B + a)]
    simp only [Nat.zero_mul, Nat.zero_add, Nat.pow_succ, Nat.add_mul]
    rw [Nat.mul_assoc, Nat.mul_comm B (B ^ w.length)]
    omega

theorem code_cons (b : Nat) (x : Nat) (w : List Nat) : code b (x :: w) = x * 2 ^ (b * w.length) + code b w := by
  unfold code
  simp only [List.foldl_cons, Nat.zero_mul, Nat.zero_add]
  rw [foldl_code_shift, Nat.pow_mul]

theorem code_lt (b : Nat) (w : List Nat) (hw : ∀ r ∈ w, r < 2 ^ b) : code b w < 2 ^ (b * w.length) := by
  induction w with
  | nil => simp [code]
  | cons x w ih =>
    rw [code_cons]
    have h1 := ih (fun r hr => hw r (by simp [hr]))
    have h2 : x + 1 ≤ 2 ^ b := hw x (by simp)
    have h3 : (x + 1) * 2 ^ (b * w.length) ≤ 2 ^ b * 2 ^ (b * w.length) := Nat.mul_le_mul_right _ h2
    have h4 : 2 ^ b * 2 ^ (b * w.length) = 2 ^ (b * (x :: w).length) := by
      rw [← Nat.pow_add]; congr 1; simp [Nat.mul_add]; omega
    rw [Nat.add_mul] at h3
    omega

/-- words over the alphabet with equal length and equal rank code are equal -/
theorem code_rank_injective (alpha u v : List Nat) (hu : ∀ c ∈ u, c ∈ alpha) (hv : ∀ c ∈ v, c ∈ alpha)
    (hl : u.length = v.length)
    (h : code (bitsFor alpha.length) (u.map (rank alpha)) = code (bitsFor alpha.length) (v.map (rank alpha))) :
    u = v := by
  have fits : ∀ c ∈ alpha, rank alpha c < 2 ^ bitsFor alpha.length :=
    fun c hc => Nat.lt_of_lt_of_le (rank_lt_length hc) (le_two_pow_bitsFor _)
  have hr := code_injective (bitsFor alpha.length) (u.map (rank alpha)) (v.map (rank alpha)) (by simpa using hl)
    (by intro r hr; rcases List.mem_map.mp hr with ⟨c, hc, rfl⟩; exact fits c (hu c hc))
    (by intro r hr; rcases List.mem_map.mp hr with ⟨c, hc, rfl⟩; exact fits c (hv c hc)) h
  clear h
  induction u generalizing v with
  | nil => cases v with
    | nil => rfl
    | cons _ _ => simp at hl
  | cons a u ih =>
    cases v with
    | nil => simp at hl
    | cons b v =>
      simp only [List.map_cons, List.cons.injEq] at hr
      have hab := rank_injective (hu a (by simp)) (hv b (by simp)) hr.1
      rw [hab, ih v (fun c hc => hu c (by simp [hc])) (fun c hc => hv c (by simp [hc])) (by simpa using hl) hr.2]

/-! ### position lists -/

theorem mem_qgramPositions (mc : Nat) (g t : List Nat) (i : Nat) :
    i ∈ qgramPositions mc g t ↔ OccursAt g t i ∧ (occurrences g t).length ≤ mc := by
  unfold qgramPositions
  simp only
  split
  · simp; intro _; omega
  · rw [mem_occurrences]; constructor
    · intro h; exact ⟨h, by omega⟩
    · intro h; exact h.1

theorem qgramPositions_sorted (mc : Nat) (g t : List Nat) : (qgramPositions mc g t).Pairwise (· < ·) := by
  unfold qgramPositions
  simp only
  split
  · simp
  · exact occurrences_sorted g t

/-! ### windows -/

theorem window_length {q : Nat} {l : List Nat} {i : Nat} (h : i + q ≤ l.length) : (window q l i).length = q := by
  simp [window]; omega

/-! ### k-mer matches -/

/-- lexicographic order on position pairs -/
def lexLt (a b : Nat × Nat) : Prop := a.1 < b.1 ∨ (a.1 = b.1 ∧ a.2 < b.2)

theorem mem_kmerMatches (x y : List Nat) (k i j : Nat) :
    (i, j) ∈ kmerMatches x y k ↔ i + k ≤ x.length ∧ j + k ≤ y.length ∧ window k x i = window k y j := by
  unfold kmerMatches
  simp only [List.mem_flatMap, List.mem_range, List.mem_map, mem_occurrences, Prod.mk.injEq]
  constructor
  · rintro ⟨i', hi', j', hocc, rfl, rfl⟩
    have hi : i' + k ≤ x.length := by omega
    have hl := window_length (q := k) (l := x) hi
    unfold OccursAt at hocc
    rw [hl] at hocc
    exact ⟨hi, hocc.1, by simpa [window] using hocc.2.symm⟩
  · rintro ⟨hi, hj, hw⟩
    refine ⟨i, by omega, j, ?_, rfl, rfl⟩
    have hl := window_length (q := k) (l := x) hi
    unfold OccursAt
    rw [hl]
    exact ⟨hj, by simpa [window] using hw.symm⟩

theorem kmerMatches_sorted (x y : List Nat) (k : Nat) : (kmerMatches x y k).Pairwise lexLt := by
  unfold kmerMatches
  rw [List.pairwise_flatMap]
  constructor
  · intro i _
    rw [List.pairwise_map]
    exact (occurrences_sorted _ _).imp (fun h => Or.inr ⟨rfl, h⟩)
  · have : (List.range (x.length + 1 - k)).Pairwise (· < ·) := List.pairwise_lt_range
    apply this.imp
    intro a b hab p hp q hq
    rcases List.mem_map.mp hp with ⟨_, _, rfl⟩
    rcases List.mem_map.mp hq with ⟨_, _, rfl⟩
    exact Or.inl hab

/-- strictly sorted lists (w.r.t. an irreflexive, asymmetric relation) with the same members are equal -/
theorem pairwise_eq_of_mem_iff {α : Type} (r : α → α → Prop) (hirr : ∀ a, ¬ r a a) (hasym : ∀ a b, r a b → ¬ r b a) :
    ∀ (l₁ l₂ : List α), l₁.Pairwise r → l₂.Pairwise r → (∀ i, i ∈ l₁ ↔ i ∈ l₂) → l₁ = l₂
  | [], [], _, _, _ => rfl
  | [], b :: l₂, _, _, h => by have := (h b).mpr (by simp); simp at this
  | a :: l₁, [], _, _, h => by have := (h a).mp (by simp); simp at this
  | a :: l₁, b :: l₂, h₁, h₂, h => by
    rw [List.pairwise_cons] at h₁ h₂
    have hab : a = b := by
      have ha := (h a).mp (by simp)
      have hb := (h b).mpr (by simp)
      simp only [List.mem_cons] at ha hb
      rcases ha with ha | ha
      · exact ha
      · rcases hb with hb | hb
        · exact hb.symm
        · exact absurd (h₁.1 b hb) (hasym _ _ (h₂.1 a ha))
    subst hab
    congr 1
    apply pairwise_eq_of_mem_iff r hirr hasym l₁ l₂ h₁.2 h₂.2
    intro i
    constructor
    · intro hi
      have := (h i).mp (by simp [hi])
      simp only [List.mem_cons] at this
      rcases this with rfl | this
      · exact absurd (h₁.1 i hi) (hirr i)
      · exact this
    · intro hi
      have := (h i).mpr (by simp [hi])
      simp only [List.mem_cons] at this
      rcases this with rfl | this
      · exact absurd (h₂.1 i hi) (hirr i)
      · exact this

theorem lexLt_irrefl (a : Nat × Nat) : ¬ lexLt a a := by unfold lexLt; omega

theorem lexLt_asymm (a b : Nat × Nat) : lexLt a b → ¬ lexLt b a := by unfold lexLt; omega

end RbV.QGram
