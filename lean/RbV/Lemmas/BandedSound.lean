import RbV.Lemmas.FillSound
import RbV.Model.BandedDP
/-!
Soundness groundwork for the banded mirror (`Model/BandedDP.lean`), "Theorem B" of docs/notes/C02.md: the cell transition
`cellStep` that `fill` applies to every in-band cell `(i, j)`, `i, j ≥ 1`, maps *junk-or-witnessed* inputs to
junk-or-witnessed outputs.  `JW L i j v` (`Lemmas/FillSound.lean`, shared with the C01 refinement proof): `v` is either
junk — at most `MIN_SCORE + (i + j)·W`, a value derived from the `MIN_SCORE` an out-of-band or reset cell holds — or
witnessed: bounded by the documented score of a real alignment of a sub-range pair that ends at `(i, j)` in layer `L`
(`Wit`).  Which cells the inputs come from does not matter (in the band or not, current or stale): only that each input
is junk-or-witnessed *for the matrix position it is read as*.
-/
namespace RbV.Model.BandedDP
open RbV.Align RbV.Model.PairwiseFill

variable {sc : Sc} {cl : Clip} {x y : List Nat} {W : Int}

theorem jw_pick {L : St} {i j : Nat} {a b : Int} (ta tb : Tb) (ha : JW sc cl x y W L i j a)
    (hb : JW sc cl x y W L i j b) : JW sc cl x y W L i j (if a > b then (a, ta) else (b, tb)).1 := by
  split <;> assumption

theorem jw_pick' {L : St} {i j : Nat} {a : Int} (ta : Tb) (p : Int × Tb) (ha : JW sc cl x y W L i j a)
    (hp : JW sc cl x y W L i j p.1) : JW sc cl x y W L i j (if a > p.1 then (a, ta) else p).1 := by
  split <;> assumption

/-- `pickI`: candidates junk-or-witnessed in layer I ⇒ `best_i_score` is -/
theorem pickI_jw {i j : Nat} (iUp sUp : Int) (tsUp : Tb) (clipI : Option Int)
    (hIe : JW sc cl x y W .ins i j (iUp + sc.ge)) (hIo : JW sc cl x y W .ins i j (sUp + sc.go + sc.ge))
    (hIc : ∀ c, clipI = some c → JW sc cl x y W .ins i j c) :
    JW sc cl x y W .ins i j (pickI sc iUp sUp tsUp clipI).1 := by
  unfold pickI
  have h0 := jw_pick (sc := sc) (cl := cl) (x := x) (y := y) (W := W) .ins tsUp hIe hIo
  cases clipI with
  | none => exact h0
  | some c => exact jw_pick' .ysuf _ (hIc c rfl) h0

/-- `pickD`: candidates junk-or-witnessed in layer D ⇒ `best_d_score` is -/
theorem pickD_jw {i j : Nat} (dLeft sLeft gox : Int) (tsLeft : Tb)
    (hDe : JW sc cl x y W .del i j (dLeft + sc.ge)) (hDo : JW sc cl x y W .del i j (sLeft + gox + sc.ge)) :
    JW sc cl x y W .del i j (pickD sc dLeft sLeft gox tsLeft).1 := by
  unfold pickD
  exact jw_pick .del tsLeft hDe hDo

/-- `pickS`: all six candidates junk-or-witnessed ⇒ `best_s_score` is -/
theorem pickS_jw {i j : Nat} (isM eq : Bool) (m_score base bi bd xclip yclip : Int)
    (hM : JW sc cl x y W .none i j m_score) (hB : JW sc cl x y W .none i j base)
    (hI : JW sc cl x y W .none i j bi) (hD : JW sc cl x y W .none i j bd)
    (hX : JW sc cl x y W .none i j xclip) (hY : JW sc cl x y W .none i j yclip) :
    JW sc cl x y W .none i j (pickS isM eq m_score base bi bd xclip yclip).1 := by
  unfold pickS
  exact jw_pick' _ _ hY (jw_pick' _ _ hX (jw_pick' _ _ hD (jw_pick' _ _ hI (jw_pick' _ _ hM hB))))

/-- **One cell of the banded fill, candidates level.**  If every candidate the cell compares is junk-or-witnessed at
`(i, j)` in its layer, so are the three values the cell stores. -/
theorem cellStep_jw_of_candidates {i j : Nat} (isM eq : Bool) (w sDiag iUp sUp dLeft sLeft base : Int)
    (tsUp tsLeft : Tb) (clipI : Option Int) (gox xclip yclip : Int)
    (hM : JW sc cl x y W .none i j (sDiag + w))
    (hIe : JW sc cl x y W .ins i j (iUp + sc.ge)) (hIo : JW sc cl x y W .ins i j (sUp + sc.go + sc.ge))
    (hIc : ∀ c, clipI = some c → JW sc cl x y W .ins i j c)
    (hDe : JW sc cl x y W .del i j (dLeft + sc.ge)) (hDo : JW sc cl x y W .del i j (sLeft + gox + sc.ge))
    (hB : JW sc cl x y W .none i j base)
    (hX : JW sc cl x y W .none i j xclip) (hY : JW sc cl x y W .none i j yclip) :
    JW sc cl x y W .none i j (cellStep sc isM eq w sDiag iUp sUp dLeft sLeft base tsUp tsLeft clipI gox xclip yclip).s ∧
    JW sc cl x y W .ins i j (cellStep sc isM eq w sDiag iUp sUp dLeft sLeft base tsUp tsLeft clipI gox xclip yclip).i ∧
    JW sc cl x y W .del i j (cellStep sc isM eq w sDiag iUp sUp dLeft sLeft base tsUp tsLeft clipI gox xclip yclip).d := by
  have hi := pickI_jw iUp sUp tsUp clipI hIe hIo hIc
  have hd := pickD_jw dLeft sLeft gox tsLeft hDe hDo
  exact ⟨pickS_jw isM eq _ base _ _ xclip yclip hM hB (jw_none hi) (jw_none hd) hX hY, hi, hd⟩

/-- **One interior cell of the banded fill** (`1 ≤ i+1 ≤ m`, `1 ≤ j+1 ≤ n`, no `clip_score` candidate, `gap_open` charged
for a deletion after `S[prev][i]`: every cell with `j + 1 < n` and `i + 1 < m`, and the cells of row `m` / column `n` whenever
the repaired transitions of /repo 1d30e2c do not apply).  If the five values the cell reads are junk-or-witnessed for the
neighbouring positions — `S[prev][i]` at `(i, j)`, `I[curr][i]`, `S[curr][i]` at `(i, j+1)`, `D[prev][i+1]`,
`S[prev][i+1]` at `(i+1, j)` — and the value `S[curr][i+1]` starts from is (`MIN_SCORE`, or the x-suffix tracker in row m),
then `S`, `I`, `D` of `(i+1, j+1)` are junk-or-witnessed: each is junk, or bounded by the score of a real alignment
ending there in that layer. -/
theorem cellStep_interior_sound (H : Hyp sc cl x y W) (i j : Nat) (hi : i + 1 ≤ x.length) (hj : j + 1 ≤ y.length)
    (isM : Bool) (sDiag iUp sUp dLeft sLeft base : Int) (tsUp tsLeft : Tb)
    (hSd : JW sc cl x y W .none i j sDiag)
    (hIu : JW sc cl x y W .ins i (j + 1) iUp) (hSu : JW sc cl x y W .none i (j + 1) sUp)
    (hDl : JW sc cl x y W .del (i + 1) j dLeft) (hSl : JW sc cl x y W .none (i + 1) j sLeft)
    (hB : JW sc cl x y W .none (i + 1) (j + 1) base) :
    let c := cellStep sc isM (x.getD i 0 = y.getD j 0) (sc.w (x.getD i 0) (y.getD j 0)) sDiag iUp sUp dLeft sLeft base
      tsUp tsLeft none sc.go (cl.xp + max cl.yp (sc.go + sc.ge * (((j + 1 : Nat) : Int))))
      (cl.yp + sc.go + sc.ge * (((i + 1 : Nat) : Int)))
    JW sc cl x y W .none (i + 1) (j + 1) c.s ∧ JW sc cl x y W .ins (i + 1) (j + 1) c.i ∧
      JW sc cl x y W .del (i + 1) (j + 1) c.d := by
  intro c
  exact cellStep_jw_of_candidates isM _ _ sDiag iUp sUp dLeft sLeft base tsUp tsLeft none sc.go _ _
    (jw_diag H hSd (by omega) (by omega))
    (jw_ins_ext H hIu (by omega)) (jw_ins_open H hSu (by omega))
    (fun c h => by cases h)
    (jw_del_ext H hDl (by omega)) (jw_del_open H hSl (by omega))
    hB (jw_xclip H i j hi hj) (jw_yclip H i j hi hj)

/-! ### The repaired transitions of /repo 1d30e2c and the `Sn[0]` term of `xclip_score`

A suffix clip keeps the layer of the clipped alignment: if the alignment ends with a deletion (insertion), so does the
clipped one, and the gap may be continued for `gap_extend` alone. -/

/-- clip the rest of `x` after row `i < m`, keeping the D layer -/
theorem wit_xsuf_del {i j : Nat} {v : Int} (h : Wit sc cl x y .del i j v) (hi : i < x.length) :
    Wit sc cl x y .del x.length j (v + cl.xs) := by
  obtain ⟨xs, xe, ys, ye, ops, c, h1, h2, h3, h4, h5, h6, h7, h8, hsc, hle, _, hD⟩ := h
  have hxe : xe = i := by
    rcases Nat.lt_or_ge xe i with hlt | hge
    · have := h7 hlt; omega
    · omega
  subst hxe
  refine ⟨xs, xe, ys, ye, ops, c, h1, by omega, Nat.le_refl _, h4, h5, h6, fun _ => rfl, h8, hsc, ?_, ?_, ?_⟩
  · simp only [Nat.lt_irrefl, if_false, hi, if_true] at hle ⊢
    generalize (if ye < j then cl.ys else 0) = t at hle ⊢
    omega
  · intro h; cases h
  · intro _; exact hD rfl

/-- clip the rest of `y` after column `j ≤ n`, keeping the I layer -/
theorem wit_ysuf_ins (hys : cl.ys ≤ 0) {i j : Nat} {v : Int} (h : Wit sc cl x y .ins i j v) :
    Wit sc cl x y .ins i y.length (v + cl.ys) := by
  obtain ⟨xs, xe, ys, ye, ops, c, h1, h2, h3, h4, h5, h6, h7, h8, hsc, hle, hI, hD⟩ := h
  rcases Nat.lt_or_ge j y.length with hj | hj
  · have hye : ye = j := by
      rcases Nat.lt_or_ge ye j with hlt | hge
      · have := h8 hlt; omega
      · omega
    subst hye
    refine ⟨xs, xe, ys, ye, ops, c, h1, h2, h3, h4, by omega, Nat.le_refl _, h7, fun _ => rfl, hsc, ?_, ?_, ?_⟩
    · simp only [Nat.lt_irrefl, if_false, hj, if_true] at hle ⊢
      generalize (if xe < i then cl.xs else 0) = t at hle ⊢
      omega
    · intro _; exact hI rfl
    · intro h; cases h
  · have hjn : j = y.length := by omega
    subst hjn
    exact wit_mono ⟨xs, xe, ys, ye, ops, c, h1, h2, h3, h4, h5, h6, h7, h8, hsc, hle, hI, hD⟩ (by omega)

/-- an alignment that consumes nothing of `x` (row 0) followed by "clip the prefix `x[0..i]`", `i ≥ 1`: the value lands in
row `i` and pays `xclip_prefix` -/
theorem wit_row0_xpre {i j : Nat} {v : Int} (h : Wit sc cl x y .none 0 j v) (hi0 : 1 ≤ i) (hi : i ≤ x.length) :
    Wit sc cl x y .none i j (v + cl.xp) := by
  obtain ⟨xs, xe, ys, ye, ops, c, h1, h2, h3, h4, h5, h6, h7, h8, hsc, hle, _, _⟩ := h
  have hxe : xe = 0 := by omega
  have hxs : xs = 0 := by omega
  subst hxe; subst hxs
  refine ⟨i, i, ys, ye, ops, c, Nat.le_refl _, Nat.le_refl _, hi, h4, h5, h6, fun h => by omega, h8, ?_, ?_, ?_, ?_⟩
  · rw [slice_self] at hsc ⊢; exact hsc
  · have hp : pre cl i ys = cl.xp + pre cl 0 ys := by
      unfold pre
      have : 0 < i := by omega
      simp [this]
    rw [hp]
    simp only [Nat.lt_irrefl, if_false] at hle ⊢
    generalize (if ye < j then cl.ys else 0) = t at hle ⊢
    omega
  · intro h; cases h
  · intro h; cases h

theorem jw_xsuf_del (H : Hyp sc cl x y W) {i j : Nat} {v : Int} (h : JW sc cl x y W .del i j v)
    (hi : i < x.length) : JW sc cl x y W .del x.length j (v + cl.xs) := by
  rcases h with h | h
  · left
    have := jb_mono H.W0 (show i + j ≤ x.length + j by omega)
    have := H.xs
    omega
  · right; exact wit_xsuf_del h hi

theorem jw_ysuf_ins (H : Hyp sc cl x y W) {i j : Nat} {v : Int} (h : JW sc cl x y W .ins i j v)
    (hj : j ≤ y.length) : JW sc cl x y W .ins i y.length (v + cl.ys) := by
  rcases h with h | h
  · left
    have := jb_mono H.W0 (show i + j ≤ i + y.length by omega)
    have := H.ys
    omega
  · right; exact wit_ysuf_ins H.ys h

theorem jw_row0_xpre (H : Hyp sc cl x y W) {i j : Nat} {v : Int} (h : JW sc cl x y W .none 0 j v)
    (hi0 : 1 ≤ i) (hi : i ≤ x.length) : JW sc cl x y W .none i j (v + cl.xp) := by
  rcases h with h | h
  · left
    have := jb_mono H.W0 (show 0 + j ≤ i + j by omega)
    have := H.xp
    omega
  · right; exact wit_row0_xpre h hi0 hi

/-- **Every cell of the main loop of the banded fill**, the repaired transitions included.  The deletion after
`S[prev][i+1]` either pays `gap_open` (`sLeft` junk-or-witnessed in any layer) or nothing (`gap_open_after_xclip` returned 0)
— then `sLeft` must be junk-or-witnessed **in layer D** (the tracked x-suffix clip follows a deletion: `jw_xsuf_del`).  The
`clip_score` candidate exists in the last column only and is `sn + goy + gap_extend` with `goy = gap_open` (`sn = Sn[i]`
junk-or-witnessed at `(i, n)`) or `goy = 0` and `sn` junk-or-witnessed **in layer I** (`jw_ysuf_ins`).  `xclip_score` is
`xclip_prefix + max(yp', gap_open + gap_extend·(j+1))` with `yp' = yclip_prefix`, or in the last column
`max(yclip_prefix, Sn[0])` with `Sn[0]` junk-or-witnessed at `(0, n)`. -/
theorem cellStep_sound (H : Hyp sc cl x y W) (i j : Nat) (hi : i + 1 ≤ x.length) (hj : j + 1 ≤ y.length)
    (isM : Bool) (sDiag iUp sUp dLeft sLeft base : Int) (tsUp tsLeft : Tb) (clipI : Option Int) (gox yp' : Int)
    (hSd : JW sc cl x y W .none i j sDiag)
    (hIu : JW sc cl x y W .ins i (j + 1) iUp) (hSu : JW sc cl x y W .none i (j + 1) sUp)
    (hDl : JW sc cl x y W .del (i + 1) j dLeft)
    (hSl : (gox = sc.go ∧ JW sc cl x y W .none (i + 1) j sLeft) ∨ (gox = 0 ∧ JW sc cl x y W .del (i + 1) j sLeft))
    (hB : JW sc cl x y W .none (i + 1) (j + 1) base)
    (hC : ∀ c, clipI = some c → j + 1 = y.length ∧ ∃ sn goy, c = sn + goy + sc.ge ∧
      ((goy = sc.go ∧ JW sc cl x y W .none i y.length sn) ∨ (goy = 0 ∧ JW sc cl x y W .ins i y.length sn)))
    (hY : yp' = cl.yp ∨ (j + 1 = y.length ∧ ∃ sn0, yp' = max cl.yp sn0 ∧ JW sc cl x y W .none 0 y.length sn0)) :
    let c := cellStep sc isM (x.getD i 0 = y.getD j 0) (sc.w (x.getD i 0) (y.getD j 0)) sDiag iUp sUp dLeft sLeft base
      tsUp tsLeft clipI gox (cl.xp + max yp' (sc.go + sc.ge * (((j + 1 : Nat) : Int))))
      (cl.yp + sc.go + sc.ge * (((i + 1 : Nat) : Int)))
    JW sc cl x y W .none (i + 1) (j + 1) c.s ∧ JW sc cl x y W .ins (i + 1) (j + 1) c.i ∧
      JW sc cl x y W .del (i + 1) (j + 1) c.d := by
  intro c
  refine cellStep_jw_of_candidates isM _ _ sDiag iUp sUp dLeft sLeft base tsUp tsLeft clipI gox _ _
    (jw_diag H hSd (by omega) (by omega))
    (jw_ins_ext H hIu (by omega)) (jw_ins_open H hSu (by omega)) ?_
    (jw_del_ext H hDl (by omega)) ?_ hB ?_ (jw_yclip H i j hi hj)
  · intro c hc
    obtain ⟨hn, sn, goy, rfl, h⟩ := hC c hc
    rw [hn]
    rcases h with ⟨rfl, h⟩ | ⟨rfl, h⟩
    · exact jw_ins_open H h (by omega)
    · rw [Int.add_zero]; exact jw_ins_ext H h (by omega)
  · rcases hSl with ⟨rfl, h⟩ | ⟨rfl, h⟩
    · exact jw_del_open H h (by omega)
    · rw [Int.add_zero]; exact jw_del_ext H h (by omega)
  · rcases hY with rfl | ⟨hn, sn0, rfl, h⟩
    · exact jw_xclip H i j hi hj
    · have e : cl.xp + max (max cl.yp sn0) (sc.go + sc.ge * (((j + 1 : Nat) : Int))) =
          max (cl.xp + max cl.yp (sc.go + sc.ge * (((j + 1 : Nat) : Int)))) (sn0 + cl.xp) := by omega
      rw [e]
      refine jw_max (jw_xclip H i j hi hj) ?_
      rw [hn]
      exact jw_row0_xpre H h (by omega) hi

/-! ### What the S field says about the layer

`gap_open_after_xclip` / `gap_open_after_yclip` look at the S field of the cell a tracker points to.  The S field of a
main-loop cell is `DEL` (`INS`) only when `best_d_score` (`best_i_score`) won, so the S value then *is* the D (I) value
and inherits its layer; the tracker updates `S[curr][m] = S[curr][i] + xclip_suffix`, `Sn[i] = S[curr][i] + yclip_suffix`
keep that layer (`jw_xsuf_del`, `jw_ysuf_ins`).  Together: the layer hypotheses of `cellStep_sound` for the repaired
transitions are exactly what the previous cells establish. -/

/-- a candidate with a field other than `f` keeps "field `f` ⇒ value `v`" -/
theorem keep_field {f t : Tb} {v a : Int} {p : Int × Tb} (ht : t ≠ f) (hp : p.2 = f → p.1 = v) :
    (if a > p.1 then (a, t) else p).2 = f → (if a > p.1 then (a, t) else p).1 = v := by
  split
  · intro h; exact absurd h ht
  · exact hp

/-- the candidate with field `f` and value `v` establishes it -/
theorem set_field {f : Tb} {v : Int} {p : Int × Tb} (hp : p.2 = f → p.1 = v) :
    (if v > p.1 then (v, f) else p).2 = f → (if v > p.1 then (v, f) else p).1 = v := by
  split
  · intro _; rfl
  · exact hp

theorem pickS_del_field (isM eq : Bool) (m_score base bi bd xclip yclip : Int)
    (h : (pickS isM eq m_score base bi bd xclip yclip).2 = .del) :
    (pickS isM eq m_score base bi bd xclip yclip).1 = bd := by
  unfold pickS at h ⊢
  have h0 : ((base, if isM then Tb.xsuf else Tb.start) : Int × Tb).2 = .del →
      ((base, if isM then Tb.xsuf else Tb.start) : Int × Tb).1 = bd := by
    cases isM <;> (intro h; cases h)
  have h1 := keep_field (f := .del) (t := if eq then Tb.mat else Tb.subst) (a := m_score)
    (by cases eq <;> decide) h0
  have h2 := keep_field (f := .del) (t := .ins) (a := bi) (by decide) h1
  have h3 := set_field (f := .del) (v := bd) h2
  have h4 := keep_field (f := .del) (t := .xpre) (a := xclip) (by decide) h3
  exact keep_field (f := .del) (t := .ypre) (a := yclip) (by decide) h4 h

theorem pickS_ins_field (isM eq : Bool) (m_score base bi bd xclip yclip : Int)
    (h : (pickS isM eq m_score base bi bd xclip yclip).2 = .ins) :
    (pickS isM eq m_score base bi bd xclip yclip).1 = bi := by
  unfold pickS at h ⊢
  have h0 : ((base, if isM then Tb.xsuf else Tb.start) : Int × Tb).2 = .ins →
      ((base, if isM then Tb.xsuf else Tb.start) : Int × Tb).1 = bi := by
    cases isM <;> (intro h; cases h)
  have h1 := keep_field (f := .ins) (t := if eq then Tb.mat else Tb.subst) (a := m_score)
    (by cases eq <;> decide) h0
  have h2 := set_field (f := .ins) (v := bi) h1
  have h3 := keep_field (f := .ins) (t := .del) (a := bd) (by decide) h2
  have h4 := keep_field (f := .ins) (t := .xpre) (a := xclip) (by decide) h3
  exact keep_field (f := .ins) (t := .ypre) (a := yclip) (by decide) h4 h

/-- S field `DEL` ⇒ the S value is the D value -/
theorem cellStep_del_field (sc : Sc) (isM eq : Bool) (w sDiag iUp sUp dLeft sLeft base : Int) (tsUp tsLeft : Tb)
    (clipI : Option Int) (gox xclip yclip : Int)
    (h : (cellStep sc isM eq w sDiag iUp sUp dLeft sLeft base tsUp tsLeft clipI gox xclip yclip).ts = .del) :
    (cellStep sc isM eq w sDiag iUp sUp dLeft sLeft base tsUp tsLeft clipI gox xclip yclip).s =
    (cellStep sc isM eq w sDiag iUp sUp dLeft sLeft base tsUp tsLeft clipI gox xclip yclip).d :=
  pickS_del_field _ _ _ _ _ _ _ _ h

/-- S field `INS` ⇒ the S value is the I value -/
theorem cellStep_ins_field (sc : Sc) (isM eq : Bool) (w sDiag iUp sUp dLeft sLeft base : Int) (tsUp tsLeft : Tb)
    (clipI : Option Int) (gox xclip yclip : Int)
    (h : (cellStep sc isM eq w sDiag iUp sUp dLeft sLeft base tsUp tsLeft clipI gox xclip yclip).ts = .ins) :
    (cellStep sc isM eq w sDiag iUp sUp dLeft sLeft base tsUp tsLeft clipI gox xclip yclip).s =
    (cellStep sc isM eq w sDiag iUp sUp dLeft sLeft base tsUp tsLeft clipI gox xclip yclip).i :=
  pickS_ins_field _ _ _ _ _ _ _ _ h

end RbV.Model.BandedDP
