import RbV.Lemmas.FillSound
import RbV.Model.BandedDP
/-!
Soundness groundwork for the banded mirror (`Model/BandedDP.lean`), "Theorem B" of docs/notes/C02.md: the cell transition
`cellStep` that `fill` applies to every in-band cell `(i, j)`, `i, j ≥ 1`, maps *junk-or-witnessed* inputs to
junk-or-witnessed outputs.  `JW L i j v` (`Lemmas/FillSound.lean`, shared with the C01 refinement proof): `v` is either
junk — at most `MIN_SCORE + (i + j)·W`, a value derived from the `MIN_SCORE` an out-of-band or reset cell holds — or
witnessed: bounded by the documented score of a real alignment of a sub-range pair that ends at `(i, j)` in layer `L`
(`Wit`).  Which cells the inputs come from does not matter (in the band or not, current or stale): only that each input
is junk-or-witnessed *for the matrix position it is read as*.
-/
namespace RbV.Model.BandedDP
open RbV.Align RbV.Model.PairwiseFill

variable {sc : Sc} {cl : Clip} {x y : List Nat} {W : Int}

theorem jw_pick {L : St} {i j : Nat} {a b : Int} (ta tb : Tb) (ha : JW sc cl x y W L i j a)
    (hb : JW sc cl x y W L i j b) : JW sc cl x y W L i j (if a > b then (a, ta) else (b, tb)).1 := by
  split <;> assumption

theorem jw_pick' {L : St} {i j : Nat} {a : Int} (ta : Tb) (p : Int × Tb) (ha : JW sc cl x y W L i j a)
    (hp : JW sc cl x y W L i j p.1) : JW sc cl x y W L i j (if a > p.1 then (a, ta) else p).1 := by
  split <;> assumption

/-- `pickI`: candidates junk-or-witnessed in layer I ⇒ `best_i_score` is -/
theorem pickI_jw {i j : Nat} (iUp sUp : Int) (tsUp : Tb) (clipI : Option Int)
    (hIe : JW sc cl x y W .ins i j (iUp + sc.ge)) (hIo : JW sc cl x y W .ins i j (sUp + sc.go + sc.ge))
    (hIc : ∀ c, clipI = some c → JW sc cl x y W .ins i j c) :
    JW sc cl x y W .ins i j (pickI sc iUp sUp tsUp clipI).1 := by
  unfold pickI
  have h0 := jw_pick (sc := sc) (cl := cl) (x := x) (y := y) (W := W) .ins tsUp hIe hIo
  cases clipI with
  | none => exact h0
  | some c => exact jw_pick' .ysuf _ (hIc c rfl) h0

/-- `pickD`: candidates junk-or-witnessed in layer D ⇒ `best_d_score` is -/
theorem pickD_jw {i j : Nat} (dLeft sLeft gox : Int) (tsLeft : Tb)
    (hDe : JW sc cl x y W .del i j (dLeft + sc.ge)) (hDo : JW sc cl x y W .del i j (sLeft + gox + sc.ge)) :
    JW sc cl x y W .del i j (pickD sc dLeft sLeft gox tsLeft).1 := by
  unfold pickD
  exact jw_pick .del tsLeft hDe hDo

/-- `pickS`: all six candidates junk-or-witnessed ⇒ `best_s_score` is -/
theorem pickS_jw {i j : Nat} (isM eq : Bool) (m_score base bi bd xclip yclip : Int)
    (hM : JW sc cl x y W .none i j m_score) (hB : JW sc cl x y W .none i j base)
    (hI : JW sc cl x y W .none i j bi) (hD : JW sc cl x y W .none i j bd)
    (hX : JW sc cl x y W .none i j xclip) (hY : JW sc cl x y W .none i j yclip) :
    JW sc cl x y W .none i j (pickS isM eq m_score base bi bd xclip yclip).1 := by
  unfold pickS
  exact jw_pick' _ _ hY (jw_pick' _ _ hX (jw_pick' _ _ hD (jw_pick' _ _ hI (jw_pick' _ _ hM hB))))

/-- **One cell of the banded fill, candidates level.**  If every candidate the cell compares is junk-or-witnessed at
`(i, j)` in its layer, so are the three values the cell stores. -/
theorem cellStep_jw_of_candidates {i j : Nat} (isM eq : Bool) (w sDiag iUp sUp dLeft sLeft base : Int)
    (tsUp tsLeft : Tb) (clipI : Option Int) (gox xclip yclip : Int)
    (hM : JW sc cl x y W .none i j (sDiag + w))
    (hIe : JW sc cl x y W .ins i j (iUp + sc.ge)) (hIo : JW sc cl x y W .ins i j (sUp + sc.go + sc.ge))
    (hIc : ∀ c, clipI = some c → JW sc cl x y W .ins i j c)
    (hDe : JW sc cl x y W .del i j (dLeft + sc.ge)) (hDo : JW sc cl x y W .del i j (sLeft + gox + sc.ge))
    (hB : JW sc cl x y W .none i j base)
    (hX : JW sc cl x y W .none i j xclip) (hY : JW sc cl x y W .none i j yclip) :
    JW sc cl x y W .none i j (cellStep sc isM eq w sDiag iUp sUp dLeft sLeft base tsUp tsLeft clipI gox xclip yclip).s ∧
    JW sc cl x y W .ins i j (cellStep sc isM eq w sDiag iUp sUp dLeft sLeft base tsUp tsLeft clipI gox xclip yclip).i ∧
    JW sc cl x y W .del i j (cellStep sc isM eq w sDiag iUp sUp dLeft sLeft base tsUp tsLeft clipI gox xclip yclip).d := by
  have hi := pickI_jw iUp sUp tsUp clipI hIe hIo hIc
  have hd := pickD_jw dLeft sLeft gox tsLeft hDe hDo
  exact ⟨pickS_jw isM eq _ base _ _ xclip yclip hM hB (jw_none hi) (jw_none hd) hX hY, hi, hd⟩

/-- **One interior cell of the banded fill** (`1 ≤ i+1 ≤ m`, `1 ≤ j+1 ≤ n`, no `clip_score` candidate, `gap_open` charged
for a deletion after `S[prev][i]`: every cell with `j + 1 < n` and `i + 1 < m`, and the cells of row `m` / column `n` whenever
the repaired transitions of /repo 1d30e2c do not apply).  If the five values the cell reads are junk-or-witnessed for the
neighbouring positions — `S[prev][i]` at `(i, j)`, `I[curr][i]`, `S[curr][i]` at `(i, j+1)`, `D[prev][i+1]`,
`S[prev][i+1]` at `(i+1, j)` — and the value `S[curr][i+1]` starts from is (`MIN_SCORE`, or the x-suffix tracker in row m),
then `S`, `I`, `D` of `(i+1, j+1)` are junk-or-witnessed: each is junk, or bounded by the score of a real alignment
ending there in that layer. -/
theorem cellStep_interior_sound (H : Hyp sc cl x y W) (i j : Nat) (hi : i + 1 ≤ x.length) (hj : j + 1 ≤ y.length)
    (isM : Bool) (sDiag iUp sUp dLeft sLeft base : Int) (tsUp tsLeft : Tb)
    (hSd : JW sc cl x y W .none i j sDiag)
    (hIu : JW sc cl x y W .ins i (j + 1) iUp) (hSu : JW sc cl x y W .none i (j + 1) sUp)
    (hDl : JW sc cl x y W .del (i + 1) j dLeft) (hSl : JW sc cl x y W .none (i + 1) j sLeft)
    (hB : JW sc cl x y W .none (i + 1) (j + 1) base) :
    let c := cellStep sc isM (x.getD i 0 = y.getD j 0) (sc.w (x.getD i 0) (y.getD j 0)) sDiag iUp sUp dLeft sLeft base
      tsUp tsLeft none sc.go (cl.xp + max cl.yp (sc.go + sc.ge * (((j + 1 : Nat) : Int))))
      (cl.yp + sc.go + sc.ge * (((i + 1 : Nat) : Int)))
    JW sc cl x y W .none (i + 1) (j + 1) c.s ∧ JW sc cl x y W .ins (i + 1) (j + 1) c.i ∧
      JW sc cl x y W .del (i + 1) (j + 1) c.d := by
  intro c
  exact cellStep_jw_of_candidates isM _ _ sDiag iUp sUp dLeft sLeft base tsUp tsLeft none sc.go _ _
    (jw_diag H hSd (by omega) (by omega))
    (jw_ins_ext H hIu (by omega)) (jw_ins_open H hSu (by omega))
    (fun c h => by cases h)
    (jw_del_ext H hDl (by omega)) (jw_del_open H hSl (by omega))
    hB (jw_xclip H i j hi hj) (jw_yclip H i j hi hj)

end RbV.Model.BandedDP
