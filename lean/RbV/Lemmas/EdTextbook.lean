import RbV.Ref.EditDist
/-!
The three-way minimum used as the definition of `ed` agrees with the usual textbook presentation, in which a pair
of matching symbols is simply skipped (C09).  Core Lean only.
-/
namespace RbV.EditDist

theorem ed_cons_cons (w : Nat → Nat → Nat) (a b : Nat) (p s : List Nat) :
    ed w (a :: p) (b :: s) = min (w a b + ed w p s) (min (1 + ed w p (b :: s)) (1 + ed w (a :: p) s)) := by
  rw [ed]

theorem ed_cons_nil (w : Nat → Nat → Nat) (a : Nat) (p : List Nat) : ed w (a :: p) [] = 1 + ed w p [] := by
  rw [ed]

theorem ed_nil_cons (w : Nat → Nat → Nat) (b : Nat) (s : List Nat) : ed w [] (b :: s) = 1 + ed w [] s := by
  rw [ed]

/-- one more pattern symbol costs at most one more -/
theorem ed_cons_pat_le (w : Nat → Nat → Nat) (a : Nat) (p s : List Nat) : ed w (a :: p) s ≤ 1 + ed w p s := by
  cases s with
  | nil => rw [ed_cons_nil]; omega
  | cons b s => rw [ed_cons_cons]; omega

/-- one more text symbol costs at most one more -/
theorem ed_cons_text_le (w : Nat → Nat → Nat) (b : Nat) (p s : List Nat) : ed w p (b :: s) ≤ 1 + ed w p s := by
  cases p with
  | nil => rw [ed_nil_cons]; omega
  | cons a p => rw [ed_cons_cons]; omega

/-- dropping a text symbol costs at most one more -/
theorem ed_le_cons_text (w : Nat → Nat → Nat) : ∀ (p s : List Nat) (c : Nat), ed w p s ≤ 1 + ed w p (c :: s) := by
  intro p
  induction p with
  | nil => intro s c; rw [ed_nil_cons]; omega
  | cons a p ih =>
    intro s c
    have h1 := ed_cons_pat_le w a p s
    have h2 := ih s c
    rw [ed_cons_cons]
    omega

/-- dropping a pattern symbol costs at most one more -/
theorem ed_le_cons_pat (w : Nat → Nat → Nat) (a : Nat) (p : List Nat) : ∀ (s : List Nat), ed w p s ≤ 1 + ed w (a :: p) s := by
  intro s
  induction s with
  | nil => rw [ed_cons_nil]; omega
  | cons b s ih =>
    have h1 := ed_cons_text_le w b p s
    rw [ed_cons_cons]
    omega

/-- textbook form: a zero-cost pair (equal / equivalent symbols) is skipped … -/
theorem ed_match (w : Nat → Nat → Nat) (a b : Nat) (p s : List Nat) (h : w a b = 0) :
    ed w (a :: p) (b :: s) = ed w p s := by
  have h1 := ed_le_cons_text w p s b
  have h2 := ed_le_cons_pat w a p s
  rw [ed_cons_cons, h]
  omega

/-- … and otherwise one of substitution, insertion, deletion is paid -/
theorem ed_mismatch (w : Nat → Nat → Nat) (a b : Nat) (p s : List Nat) (h : w a b = 1) :
    ed w (a :: p) (b :: s) = 1 + min (ed w p s) (min (ed w p (b :: s)) (ed w (a :: p) s)) := by
  rw [ed_cons_cons, h]
  omega

end RbV.EditDist
