import RbV.Lemmas.FillWitAt
/-!
The traceback loop of `Model/PairwiseFill.lean`, semantically.

`Run T st st' k`: from state `st` the loop reaches `st'` with `layer = TB_START` after `k` iterations.
`Good T i j c v`: started at matrix position `(i, j)` with `last_layer = c` — whatever has been pushed so far and
whatever the registers `xstart/ystart/xend/yend` hold — the loop stops after at most `i + j` iterations, and the
operations it has pushed, read forwards, are a named witness (`WitAt`) for the value `v` at `(i, j)`: an alignment of
`x[xs..xe]` with `y[ys..ye]` whose value, clip penalties included, is at least `v`; the clip operations add up to
`xs + (i − xe)` and `ys + (j − ye)`; and the four registers end up holding the coordinates of that alignment (a
register is written exactly when the corresponding clip is non-empty).

One lemma per arm of the `match` (`good_start … good_ysuf`): a move code is good for a value if the code it leads to is
good for the value the move came from.  The fill invariant (`FillTb*.lean`) applies them cell by cell.
-/
namespace RbV.Model.PairwiseFill
open RbV.Align

/-! ### lists of reported operations -/

theorem coreOps_append (P Q : List AOp) : coreOps (P ++ Q) = coreOps P ++ coreOps Q := by
  induction P with
  | nil => rfl
  | cons a P ih => cases a <;> simp [coreOps, ih]

theorem xclipSum_append (P Q : List AOp) : xclipSum (P ++ Q) = xclipSum P + xclipSum Q := by
  induction P with
  | nil => simp [xclipSum]
  | cons a P ih => cases a <;> simp [xclipSum, ih] <;> omega

theorem yclipSum_append (P Q : List AOp) : yclipSum (P ++ Q) = yclipSum P + yclipSum Q := by
  induction P with
  | nil => simp [yclipSum]
  | cons a P ih => cases a <;> simp [yclipSum, ih] <;> omega

/-! ### runs -/

inductive Run (T : Table) : TbState → TbState → Nat → Prop
  | stop {st : TbState} : st.layer = .start → Run T st st 0
  | step {st st' st'' : TbState} {k : Nat} : tbStep T st = some st' → Run T st' st'' k → Run T st st'' (k + 1)

theorem run_tbLoop {T : Table} {st st' : TbState} {k : Nat} (h : Run T st st' k) :
    ∀ fuel, k < fuel → tbLoop T fuel st = some st' := by
  induction h with
  | stop hl =>
    intro fuel hf
    obtain ⟨f, rfl⟩ : ∃ f, fuel = f + 1 := ⟨fuel - 1, by omega⟩
    simp [tbLoop, tbStep, hl]
  | step hs _ ih =>
    intro fuel hf
    obtain ⟨f, rfl⟩ : ∃ f, fuel = f + 1 := ⟨fuel - 1, by omega⟩
    simp only [tbLoop, hs]
    exact ih f (by omega)

/-- the layer of the specification a move code ends in -/
def layerOf : Tb → St
  | .ins => .ins
  | .del => .del
  | _ => .none

section
variable (sc : Sc) (cl : Clip) (x y : List Nat) (T : Table)

/-- what a finished run from `(i, j)` with code `c`, entered with pushed operations `acc` and registers `a b d e`, has
produced -/
def Res (i j : Nat) (c : Tb) (v : Int) (acc : List AOp) (a b d e : Nat) (st' : TbState) : Prop :=
  st'.layer = .start ∧ ∃ P xs xe ys ye,
    st'.ops = P ++ acc ∧ WitAt sc cl x y (layerOf c) i j v xs xe ys ye (coreOps P) ∧
    xclipSum P = xs + (i - xe) ∧ yclipSum P = ys + (j - ye) ∧
    st'.xstart = (if 0 < xs then xs else a) ∧ st'.ystart = (if 0 < ys then ys else b) ∧
    st'.xend = (if xe < i then xe else d) ∧ st'.yend = (if ye < j then ye else e)

def Good (i j : Nat) (c : Tb) (v : Int) : Prop :=
  ∀ acc a b d e, ∃ k st', k ≤ i + j ∧ Run T ⟨i, j, c, acc, a, b, d, e⟩ st' k ∧ Res sc cl x y i j c v acc a b d e st'

variable {sc cl x y T}

theorem good_mono {i j : Nat} {c : Tb} {v v' : Int} (h : Good sc cl x y T i j c v) (hv : v' ≤ v) :
    Good sc cl x y T i j c v' := by
  intro acc a b d e
  obtain ⟨k, st', hk, hrun, hl, P, xs, xe, ys, ye, hops, hw, r⟩ := h acc a b d e
  exact ⟨k, st', hk, hrun, hl, P, xs, xe, ys, ye, hops, witAt_mono hw hv, r⟩

/-- `TB_START => break`, at the origin -/
theorem good_start {v : Int} (hv : v ≤ 0) : Good sc cl x y T 0 0 .start v := by
  intro acc a b d e
  refine ⟨0, _, Nat.le_refl _, Run.stop rfl, rfl, [], 0, 0, 0, 0, rfl, witAt_start hv, ?_, ?_, ?_, ?_, ?_, ?_⟩ <;> simp [xclipSum, yclipSum]

/-- `TB_INS`, the I field of the cell names where the gap was opened from -/
theorem good_ins_open (hgo : sc.go ≤ 0) {i j : Nat} {c' : Tb} {v v' : Int} (hi : i < x.length)
    (hT : T.tI (i + 1) j = c') (h : Good sc cl x y T i j c' v') (hv : v ≤ v' + sc.go + sc.ge) :
    Good sc cl x y T (i + 1) j .ins v := by
  intro acc a b d e
  obtain ⟨k, st', hk, hrun, hl, P, xs, xe, ys, ye, hops, hw, hxc, hyc, r1, r2, r3, r4⟩ := h (.core .ins :: acc) a b d e
  have hxe := witAt_xe_eq hw hi
  subst hxe
  refine ⟨k + 1, st', by omega, Run.step (by simp [tbStep, hT]) hrun, hl, P ++ [.core .ins], xs, xe + 1, ys, ye,
    by simp [hops], ?_, ?_, ?_, r1, r2, ?_, r4⟩
  · rw [coreOps_append]
    exact witAt_mono (witAt_ins_open hgo hw hi) hv
  · rw [xclipSum_append, hxc]; simp [xclipSum]
  · rw [yclipSum_append, hyc]; simp [yclipSum]
  · simpa using r3

/-- `TB_INS`, the I field says `TB_INS`: the gap is extended -/
theorem good_ins_ext {i j : Nat} {v v' : Int} (hi : i < x.length)
    (hT : T.tI (i + 1) j = .ins) (h : Good sc cl x y T i j .ins v') (hv : v ≤ v' + sc.ge) :
    Good sc cl x y T (i + 1) j .ins v := by
  intro acc a b d e
  obtain ⟨k, st', hk, hrun, hl, P, xs, xe, ys, ye, hops, hw, hxc, hyc, r1, r2, r3, r4⟩ := h (.core .ins :: acc) a b d e
  have hxe := witAt_xe_eq hw hi
  subst hxe
  refine ⟨k + 1, st', by omega, Run.step (by simp [tbStep, hT]) hrun, hl, P ++ [.core .ins], xs, xe + 1, ys, ye,
    by simp [hops], ?_, ?_, ?_, r1, r2, ?_, r4⟩
  · rw [coreOps_append]
    exact witAt_mono (witAt_ins_ext hw hi) hv
  · rw [xclipSum_append, hxc]; simp [xclipSum]
  · rw [yclipSum_append, hyc]; simp [yclipSum]
  · simpa using r3

theorem good_del_open (hgo : sc.go ≤ 0) {i j : Nat} {c' : Tb} {v v' : Int} (hj : j < y.length)
    (hT : T.tD i (j + 1) = c') (h : Good sc cl x y T i j c' v') (hv : v ≤ v' + sc.go + sc.ge) :
    Good sc cl x y T i (j + 1) .del v := by
  intro acc a b d e
  obtain ⟨k, st', hk, hrun, hl, P, xs, xe, ys, ye, hops, hw, hxc, hyc, r1, r2, r3, r4⟩ := h (.core .del :: acc) a b d e
  have hye := witAt_ye_eq hw hj
  subst hye
  refine ⟨k + 1, st', by omega, Run.step (by simp [tbStep, hT]) hrun, hl, P ++ [.core .del], xs, xe, ys, ye + 1,
    by simp [hops], ?_, ?_, ?_, r1, r2, r3, ?_⟩
  · rw [coreOps_append]
    exact witAt_mono (witAt_del_open hgo hw hj) hv
  · rw [xclipSum_append, hxc]; simp [xclipSum]
  · rw [yclipSum_append, hyc]; simp [yclipSum]
  · simpa using r4

theorem good_del_ext {i j : Nat} {v v' : Int} (hj : j < y.length)
    (hT : T.tD i (j + 1) = .del) (h : Good sc cl x y T i j .del v') (hv : v ≤ v' + sc.ge) :
    Good sc cl x y T i (j + 1) .del v := by
  intro acc a b d e
  obtain ⟨k, st', hk, hrun, hl, P, xs, xe, ys, ye, hops, hw, hxc, hyc, r1, r2, r3, r4⟩ := h (.core .del :: acc) a b d e
  have hye := witAt_ye_eq hw hj
  subst hye
  refine ⟨k + 1, st', by omega, Run.step (by simp [tbStep, hT]) hrun, hl, P ++ [.core .del], xs, xe, ys, ye + 1,
    by simp [hops], ?_, ?_, ?_, r1, r2, r3, ?_⟩
  · rw [coreOps_append]
    exact witAt_mono (witAt_del_ext hw hj) hv
  · rw [xclipSum_append, hxc]; simp [xclipSum]
  · rw [yclipSum_append, hyc]; simp [yclipSum]
  · simpa using r4

theorem good_mat {i j : Nat} {v v' : Int} (hi : i < x.length) (hj : j < y.length)
    (hab : x.getD i 0 = y.getD j 0) (h : Good sc cl x y T i j (T.tS i j) v')
    (hv : v ≤ v' + sc.w (x.getD i 0) (y.getD j 0)) : Good sc cl x y T (i + 1) (j + 1) .mat v := by
  intro acc a b d e
  obtain ⟨k, st', hk, hrun, hl, P, xs, xe, ys, ye, hops, hw, hxc, hyc, r1, r2, r3, r4⟩ := h (.core .mat :: acc) a b d e
  have hxe := witAt_xe_eq hw hi
  have hye := witAt_ye_eq hw hj
  subst hxe; subst hye
  refine ⟨k + 1, st', by omega, Run.step (by simp [tbStep]) hrun, hl, P ++ [.core .mat], xs, xe + 1, ys, ye + 1,
    by simp [hops], ?_, ?_, ?_, r1, r2, ?_, ?_⟩
  · rw [coreOps_append]
    exact witAt_mono (witAt_mat hw hi hj hab) hv
  · rw [xclipSum_append, hxc]; simp [xclipSum]
  · rw [yclipSum_append, hyc]; simp [yclipSum]
  · simpa using r3
  · simpa using r4

theorem good_sub {i j : Nat} {v v' : Int} (hi : i < x.length) (hj : j < y.length)
    (hab : x.getD i 0 ≠ y.getD j 0) (h : Good sc cl x y T i j (T.tS i j) v')
    (hv : v ≤ v' + sc.w (x.getD i 0) (y.getD j 0)) : Good sc cl x y T (i + 1) (j + 1) .subst v := by
  intro acc a b d e
  obtain ⟨k, st', hk, hrun, hl, P, xs, xe, ys, ye, hops, hw, hxc, hyc, r1, r2, r3, r4⟩ := h (.core .sub :: acc) a b d e
  have hxe := witAt_xe_eq hw hi
  have hye := witAt_ye_eq hw hj
  subst hxe; subst hye
  refine ⟨k + 1, st', by omega, Run.step (by simp [tbStep]) hrun, hl, P ++ [.core .sub], xs, xe + 1, ys, ye + 1,
    by simp [hops], ?_, ?_, ?_, r1, r2, ?_, ?_⟩
  · rw [coreOps_append]
    exact witAt_mono (witAt_sub hw hi hj hab) hv
  · rw [xclipSum_append, hxc]; simp [xclipSum]
  · rw [yclipSum_append, hyc]; simp [yclipSum]
  · simpa using r3
  · simpa using r4

/-- `TB_XCLIP_PREFIX`: `Xclip(i)`, continue in row 0 -/
theorem good_xpre {i j : Nat} {v v' : Int} (hi1 : 1 ≤ i) (hi : i ≤ x.length)
    (h : Good sc cl x y T 0 j (T.tS 0 j) v') (hv : v ≤ v' + cl.xp) : Good sc cl x y T i j .xpre v := by
  intro acc a b d e
  obtain ⟨k, st', hk, hrun, hl, P, xs, xe, ys, ye, hops, hw, hxc, hyc, r1, r2, r3, r4⟩ := h (.xclip i :: acc) i b d e
  obtain ⟨e1, e2, hw'⟩ := witAt_xpre hw hi1 hi
  subst e1; subst e2
  refine ⟨k + 1, st', by omega, Run.step (by simp [tbStep]) hrun, hl, P ++ [.xclip i], i, i, ys, ye,
    by simp [hops], ?_, ?_, ?_, ?_, r2, ?_, r4⟩
  · rw [coreOps_append]
    simpa [coreOps, layerOf] using witAt_mono hw' hv
  · rw [xclipSum_append, hxc]; simp [xclipSum]
  · rw [yclipSum_append, hyc]; simp [yclipSum]
  · simp at r1; simp [r1]; omega
  · simpa using r3

/-- `TB_XCLIP_SUFFIX`: `Xclip(Lx[j])`, continue `Lx[j]` rows up -/
theorem good_xsuf {j : Nat} {v v' : Int} (hl1 : 0 < T.lx j) (hl2 : T.lx j ≤ x.length)
    (h : Good sc cl x y T (x.length - T.lx j) j (T.tS (x.length - T.lx j) j) v') (hv : v ≤ v' + cl.xs) :
    Good sc cl x y T x.length j .xsuf v := by
  intro acc a b d e
  obtain ⟨k, st', hk, hrun, hl, P, xs, xe, ys, ye, hops, hw, hxc, hyc, r1, r2, r3, r4⟩ :=
    h (.xclip (T.lx j) :: acc) a b (x.length - T.lx j) e
  have hlt : x.length - T.lx j < x.length := by omega
  have hxe := witAt_xe_eq hw hlt
  subst hxe
  refine ⟨k + 1, st', by omega, Run.step (by simp [tbStep]) hrun, hl, P ++ [.xclip (T.lx j)], xs,
    x.length - T.lx j, ys, ye, by simp [hops], ?_, ?_, ?_, r1, r2, ?_, r4⟩
  · rw [coreOps_append]
    simpa [coreOps, layerOf] using witAt_mono (witAt_xsuf hw hlt) hv
  · rw [xclipSum_append, hxc]; simp [xclipSum]; omega
  · rw [yclipSum_append, hyc]; simp [yclipSum]
  · simp at r3; simp [r3, hlt]

theorem good_ypre {i j : Nat} {v v' : Int} (hj1 : 1 ≤ j) (hj : j ≤ y.length)
    (h : Good sc cl x y T i 0 (T.tS i 0) v') (hv : v ≤ v' + cl.yp) : Good sc cl x y T i j .ypre v := by
  intro acc a b d e
  obtain ⟨k, st', hk, hrun, hl, P, xs, xe, ys, ye, hops, hw, hxc, hyc, r1, r2, r3, r4⟩ := h (.yclip j :: acc) a j d e
  obtain ⟨e1, e2, hw'⟩ := witAt_ypre hw hj1 hj
  subst e1; subst e2
  refine ⟨k + 1, st', by omega, Run.step (by simp [tbStep]) hrun, hl, P ++ [.yclip j], xs, xe, j, j,
    by simp [hops], ?_, ?_, ?_, r1, ?_, r3, ?_⟩
  · rw [coreOps_append]
    simpa [coreOps, layerOf] using witAt_mono hw' hv
  · rw [xclipSum_append, hxc]; simp [xclipSum]
  · rw [yclipSum_append, hyc]; simp [yclipSum]
  · simp at r2; simp [r2]; omega
  · simpa using r4

theorem good_ysuf {i : Nat} {v v' : Int} (hl1 : 0 < T.ly i) (hl2 : T.ly i ≤ y.length)
    (h : Good sc cl x y T i (y.length - T.ly i) (T.tS i (y.length - T.ly i)) v') (hv : v ≤ v' + cl.ys) :
    Good sc cl x y T i y.length .ysuf v := by
  intro acc a b d e
  obtain ⟨k, st', hk, hrun, hl, P, xs, xe, ys, ye, hops, hw, hxc, hyc, r1, r2, r3, r4⟩ :=
    h (.yclip (T.ly i) :: acc) a b d (y.length - T.ly i)
  have hlt : y.length - T.ly i < y.length := by omega
  have hye := witAt_ye_eq hw hlt
  subst hye
  refine ⟨k + 1, st', by omega, Run.step (by simp [tbStep]) hrun, hl, P ++ [.yclip (T.ly i)], xs, xe, ys,
    y.length - T.ly i, by simp [hops], ?_, ?_, ?_, r1, r2, r3, ?_⟩
  · rw [coreOps_append]
    simpa [coreOps, layerOf] using witAt_mono (witAt_ysuf hw hlt) hv
  · rw [xclipSum_append, hxc]; simp [xclipSum]
  · rw [yclipSum_append, hyc]; simp [yclipSum]; omega
  · simp at r4; simp [r4, hlt]

end

end RbV.Model.PairwiseFill
