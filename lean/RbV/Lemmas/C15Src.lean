import RbV.Lemmas.C15b
import RbV.Lemmas.C15Gen
import RbV.Basic.RsSemGenprob
/-!
# C15: the instance of the abstract `f64` at which the translated source text is read — proof side only

`XR = ℝ ∪ {−∞, +∞, NaN}`: **`f64` without rounding**.  Finite values are real numbers with exact arithmetic, the three
special values follow the IEEE-754 rules the code relies on (`x + −∞ = −∞`, `exp(−∞) = 0`, `ln 0 = −∞`, `ln` of a negative
number is NaN, every comparison with NaN is false).  `xrOps E` is the `Rs.F64Ops XR` in which `fastexp` is `E` on finite
arguments (`fastexp(−∞) = 0`: the pinned text falls back to `exp` below `MIN_VAL`).

Left out (stated in docs/notes/C15.md): rounding, overflow to ±∞ of finite results, signed zeros (`1/−0`), subnormals
other than in `fromBits`; `f64::EPSILON` is read as `0` (the idealisation in which rounding is absent), so
`relative_eq!(a, b)` with the default tolerances is `a = b`; an explicit `max_relative = r` keeps its meaning
`|a − b| ≤ max(|a|, |b|) · r`.
-/
namespace RbV.C15
open Real RbV.Rs

inductive XR where
  | fin (x : ℝ)
  | ninf
  | pinf
  | nan

namespace XR
noncomputable section

def add : XR → XR → XR
  | fin x, fin y => fin (x + y)
  | fin _, ninf => ninf
  | fin _, pinf => pinf
  | ninf, fin _ => ninf
  | ninf, ninf => ninf
  | pinf, fin _ => pinf
  | pinf, pinf => pinf
  | _, _ => nan

def neg : XR → XR
  | fin x => fin (-x)
  | ninf => pinf
  | pinf => ninf
  | nan => nan

def sub (a b : XR) : XR := add a (neg b)

/-- sign of a real as an extended real times infinity -/
def infTimes (x : ℝ) (pos : Bool) : XR :=
  if 0 < x then (if pos then pinf else ninf) else if x < 0 then (if pos then ninf else pinf) else nan

def mul : XR → XR → XR
  | fin x, fin y => fin (x * y)
  | fin x, pinf => infTimes x true
  | fin x, ninf => infTimes x false
  | pinf, fin y => infTimes y true
  | ninf, fin y => infTimes y false
  | pinf, pinf => pinf
  | ninf, ninf => pinf
  | pinf, ninf => ninf
  | ninf, pinf => ninf
  | _, _ => nan

def div : XR → XR → XR
  | fin x, fin y => if y = 0 then infTimes x true else fin (x / y)
  | fin _, pinf => fin 0
  | fin _, ninf => fin 0
  | pinf, fin y => if y = 0 then pinf else infTimes y true
  | ninf, fin y => if y = 0 then ninf else infTimes y false
  | _, _ => nan

def lt : XR → XR → Bool
  | fin x, fin y => decide (x < y)
  | ninf, fin _ => true
  | ninf, pinf => true
  | fin _, pinf => true
  | _, _ => false

def le : XR → XR → Bool
  | fin x, fin y => decide (x ≤ y)
  | ninf, fin _ => true
  | ninf, pinf => true
  | ninf, ninf => true
  | fin _, pinf => true
  | pinf, pinf => true
  | _, _ => false

def eq : XR → XR → Bool
  | fin x, fin y => decide (x = y)
  | ninf, ninf => true
  | pinf, pinf => true
  | _, _ => false

def isNan : XR → Bool
  | nan => true
  | _ => false

def exp : XR → XR
  | fin x => fin (Real.exp x)
  | ninf => fin 0
  | pinf => pinf
  | nan => nan

def ln : XR → XR
  | fin x => if 0 < x then fin (Real.log x) else if x = 0 then ninf else nan
  | pinf => pinf
  | _ => nan

def ln1p : XR → XR
  | fin y => if -1 < y then fin (Real.log (1 + y)) else if y = -1 then ninf else nan
  | pinf => pinf
  | _ => nan

def expm1 : XR → XR
  | fin x => fin (Real.exp x - 1)
  | ninf => fin (-1)
  | pinf => pinf
  | nan => nan

def log10 : XR → XR
  | fin x => if 0 < x then fin (Real.log x / Real.log 10) else if x = 0 then ninf else nan
  | pinf => pinf
  | _ => nan

/-- `a.powf(b)` for a finite positive base (all the code uses: `10.0f64.powf(..)`); other bases are not modelled (NaN) -/
def powf : XR → XR → XR
  | fin a, fin b => if 0 < a then fin (Real.exp (b * Real.log a)) else nan
  | fin a, ninf => if 1 < a then fin 0 else nan
  | fin a, pinf => if 1 < a then pinf else nan
  | _, _ => nan

def fastexp (E : ℝ → ℝ) : XR → XR
  | fin x => fin (E x)
  | ninf => fin 0
  | _ => nan

/-- `relative_eq!` of the `approx` crate: equal, or both finite and `|a − b| ≤ ε` or `|a − b| ≤ max(|a|, |b|) · r` -/
def relEq : XR → XR → XR → XR → Bool
  | fin x, fin y, fin e, fin r => decide (x = y ∨ |x - y| ≤ e ∨ |x - y| ≤ max |x| |y| * r)
  | a, b, _, _ => eq a b

/-- `x as i64`: truncation towards zero, saturating; NaN ↦ 0 -/
def truncI64 : XR → Int
  | fin x => max (-(2 ^ 63 : Int)) (min (2 ^ 63 - 1) (if 0 ≤ x then ⌊x⌋ else ⌈x⌉))
  | ninf => -(2 ^ 63 : Int)
  | pinf => 2 ^ 63 - 1
  | nan => 0

/-- IEEE-754 binary64 decoding of a bit pattern -/
def fromBits (n : Nat) : XR :=
  let s : ℝ := if n / 2 ^ 63 % 2 = 1 then -1 else 1
  let e : Nat := n / 2 ^ 52 % 2 ^ 11
  let m : Nat := n % 2 ^ 52
  if e = 2047 then (if m = 0 then (if n / 2 ^ 63 % 2 = 1 then ninf else pinf) else nan)
  else if e = 0 then fin (s * (m : ℝ) * (2 : ℝ) ^ (-1074 : ℤ))
  else fin (s * (1 + (m : ℝ) / 2 ^ 52) * (2 : ℝ) ^ ((e : ℤ) - 1023))

end
end XR

/-- `f64` without rounding, with `fastexp = E` on finite arguments -/
noncomputable def xrOps (E : ℝ → ℝ) : F64Ops XR :=
  { add := XR.add, sub := XR.sub, mul := XR.mul, div := XR.div, neg := XR.neg, lt := XR.lt, le := XR.le, eq := XR.eq,
    ofDec := fun d => XR.fin (decR d), ofNat := fun n => XR.fin n, ofInt := fun k => XR.fin k, truncI64 := XR.truncI64,
    fromBits := XR.fromBits, inf := XR.pinf, negInf := XR.ninf, epsilon := XR.fin 0, ln2 := XR.fin (Real.log 2),
    isNan := XR.isNan, exp := XR.exp, ln := XR.ln, ln1p := XR.ln1p, expm1 := XR.expm1, log10 := XR.log10, powf := XR.powf,
    fastexp := XR.fastexp E, relEq := XR.relEq }

/-- a log-space probability of the model (`none` = `ln 0`) as a value of the abstract `f64` -/
def emb : LP → XR
  | none => XR.ninf
  | some x => XR.fin x

theorem emb_inj {a b : LP} (h : emb a = emb b) : a = b := by
  cases a <;> cases b <;> simp_all [emb]

section simp_lemmas
variable (E : ℝ → ℝ)
open XR

@[simp] theorem ops_add : (xrOps E).add = XR.add := rfl
@[simp] theorem ops_sub : (xrOps E).sub = XR.sub := rfl
@[simp] theorem ops_mul : (xrOps E).mul = XR.mul := rfl
@[simp] theorem ops_div : (xrOps E).div = XR.div := rfl
@[simp] theorem ops_neg : (xrOps E).neg = XR.neg := rfl
@[simp] theorem ops_lt : (xrOps E).lt = XR.lt := rfl
@[simp] theorem ops_le : (xrOps E).le = XR.le := rfl
@[simp] theorem ops_eq : (xrOps E).eq = XR.eq := rfl
@[simp] theorem ops_ofDec (d : Dec) : (xrOps E).ofDec d = fin (decR d) := rfl
@[simp] theorem ops_ofNat (n : Nat) : (xrOps E).ofNat n = fin n := rfl
@[simp] theorem ops_ofInt (k : Int) : (xrOps E).ofInt k = fin k := rfl
@[simp] theorem ops_truncI64 : (xrOps E).truncI64 = XR.truncI64 := rfl
@[simp] theorem ops_fromBits : (xrOps E).fromBits = XR.fromBits := rfl
@[simp] theorem ops_inf : (xrOps E).inf = pinf := rfl
@[simp] theorem ops_negInf : (xrOps E).negInf = ninf := rfl
@[simp] theorem ops_epsilon : (xrOps E).epsilon = fin 0 := rfl
@[simp] theorem ops_ln2 : (xrOps E).ln2 = fin (Real.log 2) := rfl
@[simp] theorem ops_isNan : (xrOps E).isNan = XR.isNan := rfl
@[simp] theorem ops_exp : (xrOps E).exp = XR.exp := rfl
@[simp] theorem ops_ln : (xrOps E).ln = XR.ln := rfl
@[simp] theorem ops_ln1p : (xrOps E).ln1p = XR.ln1p := rfl
@[simp] theorem ops_expm1 : (xrOps E).expm1 = XR.expm1 := rfl
@[simp] theorem ops_log10 : (xrOps E).log10 = XR.log10 := rfl
@[simp] theorem ops_powf : (xrOps E).powf = XR.powf := rfl
@[simp] theorem ops_fastexp : (xrOps E).fastexp = XR.fastexp E := rfl
@[simp] theorem ops_relEq : (xrOps E).relEq = XR.relEq := rfl

@[simp] theorem add_fin (x y : ℝ) : XR.add (fin x) (fin y) = fin (x + y) := rfl
@[simp] theorem add_fin_ninf (x : ℝ) : XR.add (fin x) ninf = ninf := rfl
@[simp] theorem add_ninf_fin (x : ℝ) : XR.add ninf (fin x) = ninf := rfl
@[simp] theorem neg_fin (x : ℝ) : XR.neg (fin x) = fin (-x) := rfl
@[simp] theorem sub_fin (x y : ℝ) : XR.sub (fin x) (fin y) = fin (x - y) := by simp [XR.sub, sub_eq_add_neg]
@[simp] theorem sub_ninf_fin (x : ℝ) : XR.sub ninf (fin x) = ninf := rfl
@[simp] theorem mul_fin (x y : ℝ) : XR.mul (fin x) (fin y) = fin (x * y) := rfl
@[simp] theorem lt_fin (x y : ℝ) : XR.lt (fin x) (fin y) = decide (x < y) := rfl
@[simp] theorem lt_ninf_fin (x : ℝ) : XR.lt ninf (fin x) = true := rfl
@[simp] theorem lt_fin_ninf (x : ℝ) : XR.lt (fin x) ninf = false := rfl
@[simp] theorem lt_ninf_ninf : XR.lt ninf ninf = false := rfl
@[simp] theorem le_fin (x y : ℝ) : XR.le (fin x) (fin y) = decide (x ≤ y) := rfl
@[simp] theorem le_ninf_fin (x : ℝ) : XR.le ninf (fin x) = true := rfl
@[simp] theorem le_fin_ninf (x : ℝ) : XR.le (fin x) ninf = false := rfl
@[simp] theorem le_ninf_ninf : XR.le ninf ninf = true := rfl
@[simp] theorem eq_fin (x y : ℝ) : XR.eq (fin x) (fin y) = decide (x = y) := rfl
@[simp] theorem eq_fin_ninf (x : ℝ) : XR.eq (fin x) ninf = false := rfl
@[simp] theorem eq_ninf_fin (x : ℝ) : XR.eq ninf (fin x) = false := rfl
@[simp] theorem eq_ninf_ninf : XR.eq ninf ninf = true := rfl
@[simp] theorem eq_fin_pinf (x : ℝ) : XR.eq (fin x) pinf = false := rfl
@[simp] theorem eq_ninf_pinf : XR.eq ninf pinf = false := rfl
@[simp] theorem exp_fin (x : ℝ) : XR.exp (fin x) = fin (Real.exp x) := rfl
@[simp] theorem expm1_fin (x : ℝ) : XR.expm1 (fin x) = fin (Real.exp x - 1) := rfl
@[simp] theorem fastexp_fin (x : ℝ) : XR.fastexp E (fin x) = fin (E x) := rfl
@[simp] theorem fastexp_ninf : XR.fastexp E ninf = fin 0 := rfl
theorem ln_fin_pos {x : ℝ} (h : 0 < x) : XR.ln (fin x) = fin (Real.log x) := by simp [XR.ln, h]
@[simp] theorem ln_fin_zero : XR.ln (fin 0) = ninf := by simp [XR.ln]
theorem ln1p_fin {y : ℝ} (h : -1 < y) : XR.ln1p (fin y) = fin (Real.log (1 + y)) := by simp [XR.ln1p, h]
@[simp] theorem ln1p_zero : XR.ln1p (fin 0) = fin 0 := by simp [XR.ln1p]
theorem log10_fin_pos {x : ℝ} (h : 0 < x) : XR.log10 (fin x) = fin (Real.log x / Real.log 10) := by simp [XR.log10, h]
@[simp] theorem isNan_fin (x : ℝ) : XR.isNan (fin x) = false := rfl
@[simp] theorem isNan_nan : XR.isNan nan = true := rfl
@[simp] theorem emb_none : emb none = ninf := rfl
@[simp] theorem emb_some (x : ℝ) : emb (some x) = fin x := rfl

/-- with `f64::EPSILON` read as 0, `relative_eq!(a, b)` is equality -/
@[simp] theorem relEq_zero (x y : ℝ) : XR.relEq (fin x) (fin y) (fin 0) (fin 0) = decide (x = y) := by
  simp only [XR.relEq, mul_zero, abs_nonpos_iff, sub_eq_zero, or_self]

theorem relEq_fin (x y e r : ℝ) :
    XR.relEq (fin x) (fin y) (fin e) (fin r) = decide (x = y ∨ |x - y| ≤ e ∨ |x - y| ≤ max |x| |y| * r) := rfl

end simp_lemmas

/-- `iter.sum::<f64>()` of finite values is the finite sum -/
theorem fsum_fin (E : ℝ → ℝ) (l : List ℝ) : Rs.fsum (xrOps E) (l.map XR.fin) = XR.fin l.sum := by
  unfold Rs.fsum
  have h : ∀ (acc : ℝ), List.foldl XR.add (XR.fin acc) (l.map XR.fin) = XR.fin (acc + l.sum) := by
    induction l with
    | nil => intro acc; simp
    | cons a t ih => intro acc; simp [ih, add_assoc]
  have := h 0
  simp only [ops_add, ops_ofDec]
  have h0 : decR ⟨0, 0⟩ = 0 := by rw [decR_eq]; simp
  rw [h0, this, zero_add]

end RbV.C15
