import RbV.Model.QGramIter
import RbV.Lemmas.QGram
/-! Refinement of the iterator models: `qgramsModel = fwdCodes`, `revQgramsModel = reverse fwdCodes`. -/
namespace RbV.QGram

def lastq (q : Nat) (l : List Nat) : List Nat := l.drop (l.length - q)

theorem and_maskOf (q bits x : Nat) (hqb : q * bits ≤ 64) : x &&& maskOf q bits = x % 2 ^ (q * bits) := by
  unfold maskOf
  split
  · exact Nat.and_two_pow_sub_one_eq_mod x _
  · have : q * bits = 64 := by omega
    rw [this]; exact Nat.and_two_pow_sub_one_eq_mod x 64

theorem pushFwd_eq (bits q qg a : Nat) (hq : 0 < q) (hqb : q * bits ≤ 64) (ha : a < 2 ^ bits) :
    pushFwd bits (maskOf q bits) qg a = (qg * 2 ^ bits + a) % 2 ^ (q * bits) := by
  have hb : bits ≤ 64 := Nat.le_trans (Nat.le_mul_of_pos_left bits hq) hqb
  unfold pushFwd
  rw [Nat.shiftLeft_eq]
  have e1 : (qg * 2 ^ bits) % 2 ^ 64 = (qg % 2 ^ (64 - bits)) * 2 ^ bits := by
    have : (2:Nat) ^ 64 = 2 ^ (64 - bits) * 2 ^ bits := by
      rw [← Nat.pow_add]; congr 1; omega
    rw [this, Nat.mul_mod_mul_right]
  have e0 := e1
  rw [e1, ← Nat.shiftLeft_eq, ← Nat.shiftLeft_add_eq_or_of_lt ha, Nat.shiftLeft_eq, and_maskOf _ _ _ hqb, ← e0]
  rw [Nat.add_mod, Nat.mod_mod_of_dvd _ (Nat.pow_dvd_pow 2 hqb), ← Nat.add_mod]

theorem code_slide (b q : Nat) (hq : 0 < q) (w : List Nat) (a : Nat) (hw : w.length ≤ q)
    (hwb : ∀ r ∈ w, r < 2 ^ b) (ha : a < 2 ^ b) :
    (code b w * 2 ^ b + a) % 2 ^ (q * b) = code b (lastq q (w ++ [a])) := by
  have hall : ∀ r ∈ w ++ [a], r < 2 ^ b := by
    intro r hr
    rcases List.mem_append.mp hr with h | h
    · exact hwb r h
    · simp at h; omega
  by_cases hlt : w.length < q
  · have : lastq q (w ++ [a]) = w ++ [a] := by
      unfold lastq
      have : (w ++ [a]).length - q = 0 := by simp; omega
      rw [this]; rfl
    rw [this, ← code_append_single]
    apply Nat.mod_eq_of_lt
    have h1 := code_lt b (w ++ [a]) hall
    have h2 : 2 ^ (b * (w ++ [a]).length) ≤ 2 ^ (q * b) := by
      apply Nat.pow_le_pow_right (by omega)
      rw [Nat.mul_comm]
      apply Nat.mul_le_mul_right
      simp; omega
    omega
  · have hlen : w.length = q := by omega
    cases w with
    | nil => simp at hlen; omega
    | cons x w' =>
      have : lastq q (x :: w' ++ [a]) = w' ++ [a] := by
        unfold lastq
        have : (x :: w' ++ [a]).length - q = 1 := by simp at hlen ⊢; omega
        rw [this]; rfl
      rw [this, ← code_append_single]
      have : x :: w' ++ [a] = x :: (w' ++ [a]) := rfl
      rw [this, code_cons]
      have hl : (w' ++ [a]).length = q := by simp at hlen ⊢; omega
      rw [hl, Nat.mul_comm b q, Nat.add_comm, Nat.add_mul_mod_self_right]
      apply Nat.mod_eq_of_lt
      have h1 := code_lt b (w' ++ [a]) (fun r hr => hall r (List.mem_cons_of_mem _ hr))
      rw [hl, Nat.mul_comm] at h1
      exact h1

theorem lastq_length_le (q : Nat) (l : List Nat) : (lastq q l).length ≤ q := by
  unfold lastq; simp; omega

theorem lastq_mem {q : Nat} {l : List Nat} {r : Nat} (h : r ∈ lastq q l) : r ∈ l :=
  List.mem_of_mem_drop h

theorem lastq_append_single (q : Nat) (h : List Nat) (a : Nat) :
    lastq q (lastq q h ++ [a]) = lastq q (h ++ [a]) := by
  unfold lastq
  have e : List.drop (h.length - q) h ++ [a] = List.drop (h.length - q) (h ++ [a]) := by
    rw [List.drop_append_of_le_length (by omega)]
  rw [e, List.drop_drop]
  congr 1
  simp
  omega

theorem scanFwd_spec (b q : Nat) (hq : 0 < q) (hqb : q * b ≤ 64) (rs : List Nat) (hrs : ∀ r ∈ rs, r < 2 ^ b)
    (h : List Nat) (hh : ∀ r ∈ h, r < 2 ^ b) :
    scanFwd b (maskOf q b) (code b (lastq q h)) rs =
      (List.range rs.length).map (fun j => code b (lastq q (h ++ rs.take (j + 1)))) := by
  induction rs generalizing h with
  | nil => simp [scanFwd]
  | cons a t ih =>
    have ha : a < 2 ^ b := hrs a (by simp)
    have step : pushFwd b (maskOf q b) (code b (lastq q h)) a = code b (lastq q (h ++ [a])) := by
      rw [pushFwd_eq b q _ a hq hqb ha,
        code_slide b q hq (lastq q h) a (lastq_length_le q h) (fun r hr => hh r (lastq_mem hr)) ha,
        lastq_append_single]
    simp only [scanFwd, step, List.length_cons, List.range_succ_eq_map, List.map_cons, List.map_map]
    congr 1
    rw [ih (fun r hr => hrs r (by simp [hr])) (h ++ [a])
      (by intro r hr; rcases List.mem_append.mp hr with h' | h'
          · exact hh r h'
          · simp at h'; omega)]
    apply List.map_congr_left
    intro j _
    simp

theorem qgramsModel_eq (alpha : List Nat) (q : Nat) (text : List Nat) (hq : 0 < q)
    (hqb : q * bitsFor alpha.length ≤ 64) (ht : ∀ c ∈ text, c ∈ alpha) :
    qgramsModel alpha q text = fwdCodes alpha q text := by
  unfold qgramsModel fwdCodes windows
  simp only
  have hrs : ∀ r ∈ text.map (rank alpha), r < 2 ^ bitsFor alpha.length := by
    intro r hr
    rcases List.mem_map.mp hr with ⟨c, hc, rfl⟩
    exact Nat.lt_of_lt_of_le (rank_lt_length (ht c hc)) (le_two_pow_bitsFor _)
  have := scanFwd_spec (bitsFor alpha.length) q hq hqb (text.map (rank alpha)) hrs [] (by simp)
  simp only [lastq, List.length_nil, Nat.zero_sub, List.drop_zero, List.nil_append] at this
  have hc0 : code (bitsFor alpha.length) [] = 0 := rfl
  rw [hc0] at this
  rw [this]
  apply List.ext_getElem
  · simp; omega
  · intro i h1 h2
    simp only [List.length_drop, List.length_map, List.length_range] at h1
    simp only [List.getElem_drop, List.getElem_map, List.getElem_range, window]
    congr 1
    have hl : (List.take (q - 1 + i + 1) (List.map (rank alpha) text)).length = q + i := by
      simp; omega
    rw [hl]
    have : q + i - q = i := by omega
    rw [this, List.drop_take]
    congr 1
    omega


/-! ### reverse iterator -/

theorem pushRev_eq (b q st a : Nat) (hq : 0 < q) (hst : st < 2 ^ (q * b)) :
    pushRev b ((q - 1) * b) st a = st / 2 ^ b + a * 2 ^ ((q - 1) * b) := by
  unfold pushRev
  have hlt : st / 2 ^ b < 2 ^ ((q - 1) * b) := by
    apply Nat.div_lt_of_lt_mul
    rw [← Nat.pow_add]
    have : b + (q - 1) * b = q * b := by
      have : q = (q - 1) + 1 := by omega
      conv => rhs; rw [this, Nat.add_mul]
      omega
    rw [this]; exact hst
  rw [Nat.shiftRight_eq_div_pow, Nat.or_comm, ← Nat.shiftLeft_add_eq_or_of_lt hlt, Nat.shiftLeft_eq, Nat.add_comm]

/-- state of the reverse iterator after the symbols `h` (text order) have been consumed from the back -/
def stRev (b q : Nat) (h : List Nat) : Nat := code b (h.take q) * 2 ^ ((q - (h.take q).length) * b)

theorem stRev_lt (b q : Nat) (h : List Nat) (hh : ∀ r ∈ h, r < 2 ^ b) : stRev b q h < 2 ^ (q * b) := by
  unfold stRev
  have h1 := code_lt b (h.take q) (fun r hr => hh r (List.mem_of_mem_take hr))
  have hl : (h.take q).length ≤ q := by simp; omega
  have : 2 ^ (q * b) = 2 ^ (b * (h.take q).length) * 2 ^ ((q - (h.take q).length) * b) := by
    rw [← Nat.pow_add]; congr 1
    rw [Nat.mul_comm b, ← Nat.add_mul]; congr 1; omega
  rw [this]
  exact Nat.mul_lt_mul_of_pos_right h1 (Nat.two_pow_pos _)

theorem stRev_step (b q : Nat) (hq : 0 < q) (h : List Nat) (a : Nat) (hh : ∀ r ∈ h, r < 2 ^ b) :
    stRev b q h / 2 ^ b + a * 2 ^ ((q - 1) * b) = stRev b q (a :: h) := by
  have hB : 0 < 2 ^ b := Nat.two_pow_pos _
  obtain ⟨q', rfl⟩ : ∃ q', q = q' + 1 := ⟨q - 1, by omega⟩
  unfold stRev
  simp only [List.take_succ_cons, Nat.add_sub_cancel]
  by_cases hlt : h.length ≤ q'
  · have e1 : h.take (q' + 1) = h := List.take_of_length_le (by omega)
    have e2 : h.take q' = h := List.take_of_length_le hlt
    rw [e1, e2, code_cons]
    simp only [List.length_cons]
    have x1 : (q' + 1 - h.length) * b = (q' - h.length) * b + b := by
      have : q' + 1 - h.length = (q' - h.length) + 1 := by omega
      rw [this, Nat.add_mul]; omega
    have x2 : q' * b = b * h.length + (q' - h.length) * b := by
      rw [Nat.mul_comm b, ← Nat.add_mul]; congr 1; omega
    have x3 : q' + 1 - (h.length + 1) = q' - h.length := by omega
    rw [x1, Nat.pow_add, ← Nat.mul_assoc, Nat.mul_div_cancel _ hB, x2, Nat.pow_add, x3, Nat.add_mul,
      Nat.mul_assoc, Nat.add_comm]
  · have hl1 : (h.take (q' + 1)).length = q' + 1 := by simp; omega
    have hl2 : (h.take q').length = q' := by simp; omega
    have hz : q' < h.length := by omega
    have e1 : h.take (q' + 1) = h.take q' ++ [h[q']] := by
      rw [List.take_add_one, List.getElem?_eq_getElem hz]; rfl
    rw [hl1]
    simp only [List.length_cons, hl2, Nat.sub_self, Nat.zero_mul, Nat.pow_zero, Nat.mul_one]
    rw [e1, code_append_single, code_cons, hl2, Nat.mul_comm b q']
    have hzb : h[q'] < 2 ^ b := hh _ (List.getElem_mem hz)
    rw [Nat.add_comm (code b (List.take q' h) * 2 ^ b), Nat.add_mul_div_right _ _ hB, Nat.div_eq_of_lt hzb]
    omega

theorem scanRev_spec (b q : Nat) (hq : 0 < q) (rs : List Nat) (hrs : ∀ r ∈ rs, r < 2 ^ b)
    (h : List Nat) (hh : ∀ r ∈ h, r < 2 ^ b) :
    scanRev b ((q - 1) * b) (stRev b q h) rs =
      (List.range rs.length).map (fun j => stRev b q ((rs.take (j + 1)).reverse ++ h)) := by
  induction rs generalizing h with
  | nil => simp [scanRev]
  | cons a t ih =>
    have step : pushRev b ((q - 1) * b) (stRev b q h) a = stRev b q (a :: h) := by
      rw [pushRev_eq b q _ a hq (stRev_lt b q h hh), stRev_step b q hq h a hh]
    simp only [scanRev, step, List.length_cons, List.range_succ_eq_map, List.map_cons, List.map_map]
    congr 1
    rw [ih (fun r hr => hrs r (by simp [hr])) (a :: h)
      (by intro r hr; rcases List.mem_cons.mp hr with h' | h'
          · rw [h']; exact hrs a (by simp)
          · exact hh r h')]
    apply List.map_congr_left
    intro j _
    simp

theorem revQgramsModel_eq (alpha : List Nat) (q : Nat) (text : List Nat) (hq : 0 < q)
    (ht : ∀ c ∈ text, c ∈ alpha) :
    revQgramsModel alpha q text = (fwdCodes alpha q text).reverse := by
  unfold revQgramsModel fwdCodes windows
  simp only
  have hrs : ∀ r ∈ (text.map (rank alpha)).reverse, r < 2 ^ bitsFor alpha.length := by
    intro r hr
    rcases List.mem_map.mp (List.mem_reverse.mp hr) with ⟨c, hc, rfl⟩
    exact Nat.lt_of_lt_of_le (rank_lt_length (ht c hc)) (le_two_pow_bitsFor _)
  have := scanRev_spec (bitsFor alpha.length) q hq (text.map (rank alpha)).reverse hrs [] (by simp)
  have h0 : stRev (bitsFor alpha.length) q [] = 0 := by simp [stRev, code]
  rw [h0] at this
  rw [this]
  apply List.ext_getElem
  · simp; omega
  · intro i h1 h2
    have h2' : i < text.length + 1 - q := by simpa using h2
    simp only [List.getElem_drop, List.getElem_map, List.getElem_range, List.getElem_reverse, List.length_map,
      List.length_range, List.append_nil, window, stRev]
    have e : (List.take (q - 1 + i + 1) (List.map (rank alpha) text).reverse).reverse
        = List.drop (text.length - (q + i)) (List.map (rank alpha) text) := by
      rw [List.take_reverse, List.reverse_reverse]; simp; congr 1; omega
    rw [e]
    have hl : (List.take q (List.drop (text.length - (q + i)) (List.map (rank alpha) text))).length = q := by
      simp; omega
    rw [hl]
    simp only [Nat.sub_self, Nat.zero_mul, Nat.pow_zero, Nat.mul_one]
    have : text.length - (q + i) = text.length + 1 - q - 1 - i := by omega
    rw [this]

end RbV.QGram
