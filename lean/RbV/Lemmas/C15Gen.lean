import RbV.Lemmas.C15c
import RbV.Gen.Scales
/-!
C15: the source-extracted constants (`RbV/Gen/Scales.lean`, regenerated from `src/stats/probs/mod.rs` and
`src/utils/fastexp.rs` on every run) as rationals / reals — proof side only.
-/
namespace RbV.C15
open Real RbV.Gen.Scales

/-- exact rational value of a decimal literal `mant / 10^scale` -/
def decQ (d : RbV.Dec) : ℚ := (d.mant : ℚ) / (10 : ℚ) ^ d.scale

/-- the same value as a real number -/
noncomputable def decR (d : RbV.Dec) : ℝ := ((decQ d : ℚ) : ℝ)

theorem decR_eq (d : RbV.Dec) : decR d = (d.mant : ℝ) / (10 : ℝ) ^ d.scale := by
  unfold decR decQ; push_cast; rfl

/-- `LOG_TO_PHRED_FACTOR` / `PHRED_TO_LOG_FACTOR` of `src/stats/probs/mod.rs`: exact rational values of the literals
extracted on this run -/
def LOG_TO_PHRED_FACTOR : ℚ := decQ logToPhred
def PHRED_TO_LOG_FACTOR : ℚ := decQ phredToLog

/-- the polynomial of `fastexp.rs` over the extracted coefficients, evaluated in the order of the source:
`f2 = ((x·C4 + C3)·x + C2) · ((x + C1)·x) + C0` -/
noncomputable def fastexpPolyGen (y : ℝ) : ℝ :=
  ((y * decR coeff4 + decR coeff3) * y + decR coeff2) * ((y + decR coeff1) * y) + decR coeff0

/-- the same polynomial over ℚ (for evaluation at rational points) -/
def fastexpPolyGenQ (y : ℚ) : ℚ :=
  ((y * decQ coeff4 + decQ coeff3) * y + decQ coeff2) * ((y + decQ coeff1) * y) + decQ coeff0

theorem fastexpPolyGen_cast (y : ℚ) : fastexpPolyGen (y : ℝ) = ((fastexpPolyGenQ y : ℚ) : ℝ) := by
  unfold fastexpPolyGen fastexpPolyGenQ decR; push_cast; ring

/-- with `COEFF_0 = 1` the generated polynomial is the `fastexpPoly` of `C15c` -/
theorem fastexpPolyGen_eq (h0 : decQ coeff0 = 1) (y : ℝ) :
    fastexpPolyGen y = fastexpPoly (decR coeff1) (decR coeff2) (decR coeff3) (decR coeff4) y := by
  unfold fastexpPolyGen fastexpPoly
  have : decR coeff0 = 1 := by unfold decR; rw [h0]; norm_num
  rw [this]

end RbV.C15
