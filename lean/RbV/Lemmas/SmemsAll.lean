import RbV.Lemmas.SmemsStr
/-!
# `all_smems`: the string-level model returns every supermaximal match of length ≥ l, and nothing else (C06)

The loop visits `i0 = 0`, then the largest end of a match covering `i0` (or `i0 + 1`).  A match that starts after
`i0` cannot end at or before the next visited position: a reported match covering `i0` that reached its end would
contain it, and supermaximal matches are not nested.  So every match is covered by a visited position.
-/
namespace RbV.SmemModel
open RbV

variable {ι : Type}

theorem foldl_next (cs : List (Hit ι)) : ∀ (init : Nat),
    init ≤ cs.foldl (fun nx h => if h.pos + h.len > nx then h.pos + h.len else nx) init ∧
    (∀ h ∈ cs, h.pos + h.len ≤ cs.foldl (fun nx h => if h.pos + h.len > nx then h.pos + h.len else nx) init) ∧
    (cs.foldl (fun nx h => if h.pos + h.len > nx then h.pos + h.len else nx) init = init ∨
      ∃ h ∈ cs, cs.foldl (fun nx h => if h.pos + h.len > nx then h.pos + h.len else nx) init = h.pos + h.len) := by
  induction cs with
  | nil => intro init; simp
  | cons x rest ih =>
    intro init
    simp only [List.foldl_cons]
    by_cases hx : x.pos + x.len > init
    · simp only [if_pos hx]
      obtain ⟨h1, h2, h3⟩ := ih (x.pos + x.len)
      refine ⟨by omega, ?_, ?_⟩
      · intro h hh
        rcases List.mem_cons.mp hh with rfl | hh
        · exact h1
        · exact h2 h hh
      · rcases h3 with h3 | ⟨h, hh, h3⟩
        · exact Or.inr ⟨x, by simp, h3⟩
        · exact Or.inr ⟨h, List.mem_cons_of_mem _ hh, h3⟩
    · simp only [if_neg hx]
      obtain ⟨h1, h2, h3⟩ := ih init
      refine ⟨h1, ?_, ?_⟩
      · intro h hh
        rcases List.mem_cons.mp hh with rfl | hh
        · omega
        · exact h2 h hh
      · rcases h3 with h3 | ⟨h, hh, h3⟩
        · exact Or.inl h3
        · exact Or.inr ⟨h, List.mem_cons_of_mem _ hh, h3⟩

section abs
variable {c : Nat → Nat → Nat} {m : Nat} (hc : CountLaws c m)

include hc in
/-- count-supermaximal matches are not nested -/
theorem absSmem_not_inside {b len b' len' : Nat} (h : AbsSmem c m b len) (h' : AbsSmem c m b' len')
    (hb : b' < b) : b' + len' < b + len := by
  apply Classical.byContradiction
  intro hge
  obtain ⟨g1, g2, g3, g4, _⟩ := h
  obtain ⟨k1, k2, k3, _, _⟩ := h'
  rcases g4 with g4 | g4
  · omega
  · have := hc.anti b' (b - 1) (b + len) (b' + len') (by omega) (by omega) (by omega) k2
    omega

include hc in
theorem allLoop_mem (pat : List Nat) (hm : pat.length = m) (l : Nat) (hl : 1 ≤ l) :
    ∀ (fuel i0 : Nat) (acc : List (Hit (Nat × Nat))), m - i0 ≤ fuel →
      ∀ x, x ∈ allLoop (strOps c) pat l fuel i0 acc ↔
        (x ∈ acc ∨ (x.iv = (x.pos, x.pos + x.len) ∧ AbsSmem c m x.pos x.len ∧ l ≤ x.len ∧ i0 < x.pos + x.len))
  | 0, i0, acc, hf, x => by
    simp only [allLoop]
    constructor
    · exact Or.inl
    · rintro (h | ⟨_, ⟨_, g2, _⟩, _, h4⟩)
      · exact h
      · omega
  | fuel + 1, i0, acc, hf, x => by
    simp only [allLoop]
    by_cases hi : i0 < pat.length
    · rw [if_pos hi]
      have hi' : i0 < m := by omega
      obtain ⟨n1, n2, n3⟩ := foldl_next (smems (strOps c) pat i0 l) (i0 + 1)
      have hsm := fun y => smems_abs_correct hc pat hm hi' l hl y
      rw [allLoop_mem pat hm l hl fuel _ _ (by unfold nextI0; omega) x]
      simp only [List.mem_append, hsm]
      unfold nextI0
      constructor
      · rintro ((h | ⟨h1, h2, h3, h4, h5⟩) | ⟨h1, h2, h3, h4⟩)
        · exact Or.inl h
        · exact Or.inr ⟨h1, h3, h5, h4⟩
        · exact Or.inr ⟨h1, h2, h3, by omega⟩
      · rintro (h | ⟨h1, h2, h3, h4⟩)
        · exact Or.inl (Or.inl h)
        · by_cases hp : x.pos ≤ i0
          · exact Or.inl (Or.inr ⟨h1, hp, h2, h4, h3⟩)
          · right
            refine ⟨h1, h2, h3, ?_⟩
            rcases n3 with n3 | ⟨y, hy, n3⟩
            · omega
            · rw [n3]
              have hy' := (hsm y).mp hy
              exact absSmem_not_inside hc h2 hy'.2.2.1 (by omega)
    · rw [if_neg hi]
      constructor
      · exact Or.inl
      · rintro (h | ⟨_, ⟨_, g2, _⟩, _, h4⟩)
        · exact h
        · omega

include hc in
theorem allSmems_abs_correct (pat : List Nat) (hm : pat.length = m) (l : Nat) (hl : 1 ≤ l) (x : Hit (Nat × Nat)) :
    x ∈ allSmems (strOps c) pat l ↔ (x.iv = (x.pos, x.pos + x.len) ∧ AbsSmem c m x.pos x.len ∧ l ≤ x.len) := by
  unfold allSmems
  rw [allLoop_mem hc pat hm l hl pat.length 0 [] (by omega) x]
  simp only [List.not_mem_nil, false_or]
  constructor
  · rintro ⟨h1, h2, h3, _⟩; exact ⟨h1, h2, h3⟩
  · rintro ⟨h1, h2, h3⟩; exact ⟨h1, h2, h3, by have := h2.1; omega⟩

end abs

/-- **the string-level model of `all_smems(pattern, l)` returns every supermaximal exact match of length ≥ `l`
(`allSmemsMin`) and nothing else**, as a set -/
theorem allSmemsStr_correct (T pat : List Nat) (l : Nat) (hl : 1 ≤ l) (b len : Nat) :
    (b, len) ∈ allSmemsStr T pat l ↔ (b, len) ∈ allSmemsMin T pat l := by
  rw [mem_allSmemsMin, ← absSmem_iff_smem]
  unfold allSmemsStr
  simp only [List.mem_map, Prod.mk.injEq]
  constructor
  · rintro ⟨x, hx, rfl, rfl⟩
    have := (allSmems_abs_correct (countLaws_cnt T pat) pat rfl l hl x).mp hx
    exact ⟨this.2.1, this.2.2⟩
  · rintro ⟨h1, h2⟩
    refine ⟨⟨(b, b + len), b, len⟩, ?_, rfl, rfl⟩
    exact (allSmems_abs_correct (countLaws_cnt T pat) pat rfl l hl _).mpr ⟨rfl, h1, h2⟩

end RbV.SmemModel
