import RbV.Model.Lcskpp
import RbV.Lemmas.QGram
import RbV.Lemmas.Fenwick
/-! C19 — `lcskpp` mirror model: the event list, its sort order, the pair maximum, prefix-max semantics of the Fenwick
queries.  Core Lean only. -/
namespace RbV.Lemmas.Lcskpp
open RbV.KChain RbV.Model.Lcskpp RbV.QGram

/-! ### the sorted match list -/

/-- the match with index `p` -/
def mAt (ms : List M) (p : Nat) : M := ms.getD p (0, 0)

theorem mAt_mem {ms : List M} {p : Nat} (h : p < ms.length) : mAt ms p ∈ ms := by
  unfold mAt
  rw [List.getD_eq_getElem?_getD, List.getElem?_eq_getElem h]
  exact List.getElem_mem h

theorem exists_mAt {ms : List M} {m : M} (h : m ∈ ms) : ∃ p, p < ms.length ∧ mAt ms p = m := by
  obtain ⟨p, hp, rfl⟩ := List.getElem_of_mem h
  refine ⟨p, hp, ?_⟩
  unfold mAt
  rw [List.getD_eq_getElem?_getD, List.getElem?_eq_getElem hp]; rfl

theorem mAt_lexLt {ms : List M} (hs : ms.Pairwise lexLt) {p q : Nat} (hpq : p < q) (hq : q < ms.length) :
    lexLt (mAt ms p) (mAt ms q) := by
  have := List.pairwise_iff_getElem.mp hs p q (by omega) hq hpq
  unfold mAt
  rw [List.getD_eq_getElem?_getD, List.getElem?_eq_getElem (by omega : p < ms.length), List.getD_eq_getElem?_getD,
    List.getElem?_eq_getElem hq]
  exact this

/-- in a strictly sorted list a smaller first coordinate means a smaller index -/
theorem idx_lt_of_x_lt {ms : List M} (hs : ms.Pairwise lexLt) {p q : Nat} (hp : p < ms.length) (hq : q < ms.length)
    (h : (mAt ms p).1 < (mAt ms q).1) : p < q := by
  rcases Nat.lt_trichotomy p q with h1 | h1 | h1
  · exact h1
  · subst h1; omega
  · have := mAt_lexLt hs h1 hp
    unfold lexLt at this; omega

theorem mAt_inj {ms : List M} (hs : ms.Pairwise lexLt) {p q : Nat} (hp : p < ms.length) (hq : q < ms.length)
    (h : mAt ms p = mAt ms q) : p = q := by
  rcases Nat.lt_trichotomy p q with h1 | h1 | h1
  · have := mAt_lexLt hs h1 hq; rw [h] at this; exact absurd this (lexLt_irrefl _)
  · exact h1
  · have := mAt_lexLt hs h1 hp; rw [h] at this; exact absurd this (lexLt_irrefl _)

theorem sorted_x_of_lex {ms : List M} (hs : ms.Pairwise lexLt) : ms.Pairwise (fun a b => a.1 ≤ b.1) :=
  hs.imp (by intro a b h; unfold lexLt at h; omega)

theorem nodup_of_lex {ms : List M} (hs : ms.Pairwise lexLt) : ms.Nodup :=
  hs.imp (by intro a b h e; subst e; exact lexLt_irrefl _ h)

theorem mLt_iff (a b : M) : mLt a b = true ↔ lexLt a b := by
  simp only [mLt, lexLt, Bool.or_eq_true, Bool.and_eq_true, decide_eq_true_eq, beq_iff_eq]

theorem lexLt_trans {a b c : M} (h1 : lexLt a b) (h2 : lexLt b c) : lexLt a c := by
  unfold lexLt at *; omega

/-- the assertion loop of the Rust code accepts exactly the strictly sorted lists -/
theorem sortedStrict_iff (ms : List M) : sortedStrict ms = true ↔ ms.Pairwise lexLt := by
  induction ms with
  | nil => simp [sortedStrict]
  | cons a l ih =>
    cases l with
    | nil => simp [sortedStrict]
    | cons b r =>
      simp only [sortedStrict, Bool.and_eq_true, mLt_iff, ih]
      constructor
      · rintro ⟨h1, h2⟩
        refine List.pairwise_cons.mpr ⟨?_, h2⟩
        intro c hc
        rcases List.mem_cons.mp hc with rfl | hc
        · exact h1
        · exact lexLt_trans h1 ((List.pairwise_cons.mp h2).1 c hc)
      · intro h
        have := List.pairwise_cons.mp h
        exact ⟨this.1 b (by simp), this.2⟩

/-! ### events -/

def startEv (ms : List M) (p : Nat) : Ev := ((mAt ms p).1, (mAt ms p).2, p + ms.length)
def endEv (ms : List M) (k p : Nat) : Ev := ((mAt ms p).1 + k, (mAt ms p).2 + k, p)

theorem mem_eventsFrom (len k : Nat) (l : List M) (i0 : Nat) (e : Ev) :
    e ∈ eventsFrom len k i0 l ↔
      ∃ j, j < l.length ∧ (e = ((mAt l j).1, (mAt l j).2, i0 + j + len) ∨ e = ((mAt l j).1 + k, (mAt l j).2 + k, i0 + j)) := by
  induction l generalizing i0 with
  | nil => simp [eventsFrom]
  | cons m r ih =>
    simp only [eventsFrom, List.mem_cons, ih, List.length_cons]
    constructor
    · rintro (h | h | ⟨j, hj, h⟩)
      · exact ⟨0, by omega, Or.inl (by simpa [mAt] using h)⟩
      · exact ⟨0, by omega, Or.inr (by simpa [mAt] using h)⟩
      · refine ⟨j + 1, by omega, ?_⟩
        have e1 : mAt (m :: r) (j + 1) = mAt r j := by simp [mAt]
        have e2 : i0 + (j + 1) = i0 + 1 + j := by omega
        rw [e1, e2]; exact h
    · rintro ⟨j, hj, h⟩
      cases j with
      | zero => rcases h with h | h
                · left; simpa [mAt] using h
                · right; left; simpa [mAt] using h
      | succ j =>
        right; right
        refine ⟨j, by omega, ?_⟩
        have e1 : mAt (m :: r) (j + 1) = mAt r j := by simp [mAt]
        have e2 : i0 + (j + 1) = i0 + 1 + j := by omega
        rw [e1, e2] at h; exact h

/-- the third components of the pushed events, in push order -/
theorem eventsFrom_ids_nodup (len k : Nat) (l : List M) (i0 : Nat) (h : i0 + l.length ≤ len) :
    ((eventsFrom len k i0 l).map (·.2.2)).Pairwise (· ≠ ·) := by
  induction l generalizing i0 with
  | nil => simp [eventsFrom]
  | cons m r ih =>
    simp only [List.length_cons] at h
    simp only [eventsFrom, List.map_cons, List.pairwise_cons, List.mem_map, List.mem_cons]
    refine ⟨?_, ?_, ih (i0 + 1) (by omega)⟩
    · rintro t (rfl | ⟨e, he, rfl⟩)
      · omega
      · rcases (mem_eventsFrom len k r (i0 + 1) e).mp he with ⟨j, hj, rfl | rfl⟩ <;> simp <;> omega
    · rintro t ⟨e, he, rfl⟩
      rcases (mem_eventsFrom len k r (i0 + 1) e).mp he with ⟨j, hj, rfl | rfl⟩ <;> simp <;> omega

theorem eventsFrom_nodup (len k : Nat) (l : List M) (i0 : Nat) (h : i0 + l.length ≤ len) :
    (eventsFrom len k i0 l).Nodup := by
  have := eventsFrom_ids_nodup len k l i0 h
  rw [List.pairwise_map] at this
  exact this.imp (by intro a b hab e; exact hab (by rw [e]))

theorem evLe_trans (a b c : Ev) : evLe a b = true → evLe b c = true → evLe a c = true := by
  simp only [evLe, Bool.or_eq_true, Bool.and_eq_true, decide_eq_true_eq, beq_iff_eq]
  omega

theorem evLe_total (a b : Ev) : (evLe a b || evLe b a) = true := by
  simp only [evLe, Bool.or_eq_true, Bool.and_eq_true, decide_eq_true_eq, beq_iff_eq]
  omega

theorem evLe_iff (a b : Ev) :
    evLe a b = true ↔ a.1 < b.1 ∨ (a.1 = b.1 ∧ (a.2.1 < b.2.1 ∨ (a.2.1 = b.2.1 ∧ a.2.2 ≤ b.2.2))) := by
  simp only [evLe, Bool.or_eq_true, Bool.and_eq_true, decide_eq_true_eq, beq_iff_eq]

theorem sortedEvents_pairwise (ms : List M) (k : Nat) :
    (sortedEvents ms k).Pairwise (fun a b => evLe a b = true) :=
  List.pairwise_mergeSort evLe_trans evLe_total _

theorem sortedEvents_nodup (ms : List M) (k : Nat) : (sortedEvents ms k).Nodup :=
  (List.mergeSort_perm _ _).nodup_iff.mpr (eventsFrom_nodup ms.length k ms 0 (by omega))

theorem mem_sortedEvents (ms : List M) (k : Nat) (e : Ev) :
    e ∈ sortedEvents ms k ↔ ∃ p, p < ms.length ∧ (e = startEv ms p ∨ e = endEv ms k p) := by
  unfold sortedEvents
  rw [(List.mergeSort_perm _ _).mem_iff, mem_eventsFrom]
  simp only [startEv, endEv, Nat.zero_add]

/-- what a position in the sorted event vector gives: the event was not processed before, everything processed before is
`≤` it, and every event that is not `≥` it has been processed -/
theorem split_facts {E done rest : List Ev} {e : Ev} (hp : E.Pairwise (fun a b => evLe a b = true)) (hn : E.Nodup)
    (hE : E = done ++ e :: rest) :
    e ∉ done ∧ (∀ d ∈ done, evLe d e = true) ∧ (∀ e' ∈ E, evLe e e' = false → e' ∈ done) := by
  subst hE
  have hn' := List.nodup_append.mp hn
  have hp' := List.pairwise_append.mp hp
  refine ⟨?_, ?_, ?_⟩
  · intro h; exact hn'.2.2 e h e (by simp) rfl
  · intro d hd; exact hp'.2.2 d hd e (by simp)
  · intro e' he' hle
    rcases List.mem_append.mp he' with h | h
    · exact h
    · rcases List.mem_cons.mp h with rfl | h
      · have := evLe_total e' e'; simp [hle] at this
      · have := (List.pairwise_cons.mp hp'.2.1).1 e' h
        rw [hle] at this; cases this

/-! ### `max` on pairs -/

def leNN (a b : Nat × Nat) : Prop := a.1 < b.1 ∨ (a.1 = b.1 ∧ a.2 ≤ b.2)

instance (a b : Nat × Nat) : Decidable (leNN a b) := by unfold leNN; infer_instance

theorem maxNN_of_le {a b : Nat × Nat} (h : leNN a b) : maxNN a b = b := by
  unfold maxNN; rw [if_pos]; unfold leNN at h; simpa using h

theorem maxNN_of_not_le {a b : Nat × Nat} (h : ¬ leNN a b) : maxNN a b = a := by
  unfold maxNN; rw [if_neg]; unfold leNN at h; simpa using h

theorem maxNN_comm (a b : Nat × Nat) : maxNN a b = maxNN b a := by
  by_cases h1 : leNN a b <;> by_cases h2 : leNN b a
  · rw [maxNN_of_le h1, maxNN_of_le h2]; unfold leNN at h1 h2; apply Prod.ext <;> omega
  · rw [maxNN_of_le h1, maxNN_of_not_le h2]
  · rw [maxNN_of_not_le h1, maxNN_of_le h2]
  · unfold leNN at h1 h2; omega

theorem maxNN_assoc (a b c : Nat × Nat) : maxNN (maxNN a b) c = maxNN a (maxNN b c) := by
  by_cases h1 : leNN a b <;> by_cases h2 : leNN b c <;> by_cases h3 : leNN a c <;>
    simp only [maxNN_of_le, maxNN_of_not_le, h1, h2, h3, not_false_eq_true] <;> (unfold leNN at *; omega)

theorem maxNN_id (a : Nat × Nat) : maxNN (0, 0) a = a := by
  by_cases h : leNN (0, 0) a
  · rw [maxNN_of_le h]
  · rw [maxNN_of_not_le h]; unfold leNN at h; simp only at h; apply Prod.ext <;> simp only <;> omega

open RbV.Lemmas.Fenwick in
/-- prefix-max semantics of an aggregate: an upper bound of the selected updates that is the default or one of them -/
theorem agg_max_spec (P : Nat → Bool) (ups : List (Nat × (Nat × Nat))) :
    (∀ u ∈ ups, P u.1 = true → leNN u.2 (agg maxNN (0, 0) P ups)) ∧
    (agg maxNN (0, 0) P ups = (0, 0) ∨ ∃ u ∈ ups, P u.1 = true ∧ u.2 = agg maxNN (0, 0) P ups) := by
  induction ups with
  | nil => simp [agg]
  | cons w ws ih =>
    by_cases hw : P w.1 = true
    · simp only [agg, hw, if_true]
      by_cases hle : leNN w.2 (agg maxNN (0, 0) P ws)
      · rw [maxNN_of_le hle]
        refine ⟨?_, ?_⟩
        · intro u hu hP
          rcases List.mem_cons.mp hu with rfl | hu
          · exact hle
          · exact ih.1 u hu hP
        · rcases ih.2 with h | ⟨u, hu, hP, h⟩
          · left; exact h
          · right; exact ⟨u, List.mem_cons_of_mem _ hu, hP, h⟩
      · rw [maxNN_of_not_le hle]
        refine ⟨?_, Or.inr ⟨w, by simp, hw, rfl⟩⟩
        intro u hu hP
        rcases List.mem_cons.mp hu with rfl | hu
        · unfold leNN; omega
        · have := ih.1 u hu hP
          unfold leNN at this hle ⊢; omega
    · have hw' : P w.1 = false := by simpa using hw
      simp only [agg, hw', Bool.false_eq_true, if_false]
      refine ⟨?_, ?_⟩
      · intro u hu hP
        rcases List.mem_cons.mp hu with rfl | hu
        · rw [hw'] at hP; cases hP
        · exact ih.1 u hu hP
      · rcases ih.2 with h | ⟨u, hu, hP, h⟩
        · left; exact h
        · right; exact ⟨u, List.mem_cons_of_mem _ hu, hP, h⟩

open RbV.Lemmas.Fenwick RbV.Model.Fenwick in
/-- **a Fenwick query is the prefix maximum of the updates so far** (C18's `get_run` at the pair maximum) -/
theorem get_run_max (n : Nat) (ups : List (Nat × (Nat × Nat))) (i : Nat) (hi : i < n) :
    Model.Fenwick.get maxNN (0, 0) (run maxNN (0, 0) n ups) i = agg maxNN (0, 0) (fun q => decide (q ≤ i)) ups :=
  get_run maxNN (0, 0) maxNN_assoc maxNN_comm maxNN_id n ups i hi

/-! ### `n` -/

theorem nFrom_ge_init (k : Nat) (l : List M) (n0 : Nat) : n0 ≤ nFrom k n0 l := by
  induction l generalizing n0 with
  | nil => simp [nFrom]
  | cons m r ih => simp only [nFrom]; have := ih (max (max n0 (m.1 + k)) (m.2 + k)); omega

theorem nFrom_ge (k : Nat) (l : List M) (n0 : Nat) (m : M) (h : m ∈ l) : m.1 + k ≤ nFrom k n0 l ∧ m.2 + k ≤ nFrom k n0 l := by
  induction l generalizing n0 with
  | nil => cases h
  | cons a r ih =>
    simp only [nFrom]
    rcases List.mem_cons.mp h with rfl | h
    · have := nFrom_ge_init k r (max (max n0 (m.1 + k)) (m.2 + k)); omega
    · exact ih _ h

end RbV.Lemmas.Lcskpp
