import RbV.Lemmas.SmemsFmd
/-!
# Extension of `init_interval()` (the bi-interval of the empty string) (C06)

On an FMD index, `backward_ext(init_interval(), a)` and `forward_ext(init_interval(), a)` are both
`init_interval_with(a)` — field by field, `match_size` included — for every `a` of `ACGTNacgtn`; hence (with
`init_interval_with_correct`) the bi-interval of the one-symbol string `a`.
-/
namespace RbV.SmemModel
open RbV RbV.FMDModel RbV.FMDSym RbV.LF RbV.BSModel

theorem sumBefore_congr (f g : Nat → Nat) (a : Nat) : ∀ (ord : List Nat), (∀ b ∈ ord, f b = g b) →
    sumBefore f a ord = sumBefore g a ord
  | [], _ => rfl
  | b :: rest, h => by
    simp only [sumBefore]
    rw [h b (by simp), sumBefore_congr f g a rest (fun x hx => h x (List.mem_cons_of_mem _ hx))]

section
variable (seqs : List (List Nat)) (sa : List Nat) (hne : seqs ≠ [])
  (hseqs : ∀ s ∈ seqs, ∀ c ∈ s, isDna c = true) (hperm : sa.Perm (List.range (fmdText seqs).length))

theorem bwt_length : (bwtOf (fmdText seqs) sa).length = sa.length := by simp [bwtOf]

include hne hperm in
theorem occ_full (b : Nat) :
    occRef (bwtOf (fmdText seqs) sa) (0 + sa.length - 1) b = (bwtOf (fmdText seqs) sa).count b := by
  have hn : 0 < sa.length := by rw [sa_length hperm]; exact fmd_length_pos seqs hne
  unfold occRef
  rw [List.take_of_length_le (by rw [bwt_length seqs sa]; omega)]

include hseqs hperm in
theorem bwt_symbols : ∀ v ∈ bwtOf (fmdText seqs) sa, v ∈ compOrder := by
  intro v hv
  have : v ∈ fmdText seqs := by
    rw [← List.count_pos_iff, ← count_bwt _ _ hperm, List.count_pos_iff]; exact hv
  exact mem_compOrder_of v (fmd_symbols seqs hseqs v this)

include hperm in
theorem bwt_count_compl (b : Nat) :
    (bwtOf (fmdText seqs) sa).count (dnaCompl b) = (bwtOf (fmdText seqs) sa).count b := by
  rw [count_bwt _ _ hperm, count_bwt _ _ hperm]
  by_cases hb : b = 36
  · subst hb; rfl
  · exact count_symmetry seqs b hb

include hne hseqs hperm in
/-- `backward_ext(init_interval(), a) = init_interval_with(a)` -/
theorem backwardExt_initInterval (a : Nat) (ha : isDna a = true) :
    backwardExt (lessRef (bwtOf (fmdText seqs) sa)) (occRef (bwtOf (fmdText seqs) sa)) (initInterval sa.length) a =
      initIntervalWith (lessRef (bwtOf (fmdText seqs) sa)) a := by
  obtain ⟨hao, _, _⟩ := order_mem_of_dna a ha
  have hspec := extLoop_spec (occRef (bwtOf (fmdText seqs) sa)) (initInterval sa.length) a order (0, 0, 0) hao
  have hfst := extLoop_fst (occRef (bwtOf (fmdText seqs) sa)) (initInterval sa.length) a order 0 0 0 hao
  have hcnt : ∀ b, cntOf (occRef (bwtOf (fmdText seqs) sa)) (initInterval sa.length) b =
      (bwtOf (fmdText seqs) sa).count b := by
    intro b
    simp only [cntOf, initInterval, if_true, Nat.sub_zero]
    exact occ_full seqs sa hne hperm b
  have hrev : (extLoop (occRef (bwtOf (fmdText seqs) sa)) (initInterval sa.length) a order (0, 0, 0)).1 =
      lessRef (bwtOf (fmdText seqs) sa) (dnaCompl a) := by
    rw [hfst]
    simp only [Nat.zero_add]
    unfold lessRef
    rw [countP_lt_eq_sumBefore _ (bwt_symbols seqs sa hseqs hperm) a hao]
    apply sumBefore_congr
    intro b _
    rw [hcnt, bwt_count_compl seqs sa hperm]
  simp only [initInterval] at hspec
  simp only [if_true, Nat.sub_zero] at hspec
  have hsz := occ_full seqs sa hne hperm a
  simp only [backwardExt, initIntervalWith, initInterval, Bi.mk.injEq]
  simp only [initInterval] at hrev
  rw [hspec] at *
  refine ⟨by simp, hrev, ?_, trivial⟩
  simp only [hsz, lessRef_succ]; omega

include hne hseqs hperm in
/-- `forward_ext(init_interval(), a) = init_interval_with(a)` -/
theorem forwardExt_initInterval (a : Nat) (ha : isDna a = true) :
    forwardExt (lessRef (bwtOf (fmdText seqs) sa)) (occRef (bwtOf (fmdText seqs) sa)) (initInterval sa.length) a =
      initIntervalWith (lessRef (bwtOf (fmdText seqs) sa)) a := by
  have hsw : swapped (initInterval sa.length) = initInterval sa.length := rfl
  unfold forwardExt
  rw [hsw, backwardExt_initInterval seqs sa hne hseqs hperm _ (isDna_compl a ha)]
  simp only [swapped, initIntervalWith, dnaCompl_invol, Bi.mk.injEq, true_and, and_true]
  rw [lessRef_succ, lessRef_succ, bwt_count_compl seqs sa hperm]
  omega

end

end RbV.SmemModel
