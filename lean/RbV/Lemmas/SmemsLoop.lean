import RbV.Model.Smems
/-!
# The backward sweep of `smems`, loop by loop (C06): a functional description of the nested loops

Generic in the interval operations.  `inner_curr` / `inner_report` say what one round of the inner loop does to
`curr` and to `matches`; `outer_eq_spec` replaces the nested loops (with their `last_size`, `j`, `curr.is_empty()`
bookkeeping) by the recursion `outerSpec`: in round `k` at most the *first* (longest) candidate is reported — iff it
cannot be extended (or `k = -1`) and is long enough — and the next candidate list is the list of non-empty
extensions with runs of equal size reduced to their first member.
-/
namespace RbV.SmemModel
open RbV

variable {ι : Type}

/-- the extensions of all candidates by `a` (with their new lengths) -/
def ext (ops : Ops ι) (a : Nat) (prev : List (ι × Nat)) : List (ι × Nat) :=
  prev.map (fun x => (ops.bwd x.1 a, x.2 + 1))

/-- keep the non-empty intervals whose size differs from the size of the last interval kept -/
def dedup (ops : Ops ι) : Int → List (ι × Nat) → List (ι × Nat)
  | _, [] => []
  | last, (f, ml) :: rest =>
    if (ops.size f != 0 && (ops.size f : Int) != last) = true then (f, ml) :: dedup ops (ops.size f) rest
    else dedup ops last rest

/-- the match reported in a round: the first candidate, if it cannot be extended (or `k = -1`) and `len ≥ l` -/
def report (ops : Ops ι) (a kk l : Nat) : List (ι × Nat) → List (Hit ι)
  | [] => []
  | (iv, ml) :: _ => if (ops.size (ops.bwd iv a) = 0 ∨ kk = 0) ∧ l ≤ ml then [⟨iv, kk, ml⟩] else []

theorem dedup_sublist (ops : Ops ι) : ∀ (xs : List (ι × Nat)) (last : Int), (dedup ops last xs).Sublist xs
  | [], _ => by simp [dedup]
  | (f, ml) :: rest, last => by
    unfold dedup
    split
    · exact (dedup_sublist ops rest _).cons_cons _
    · exact (dedup_sublist ops rest _).cons _

theorem inner_curr (ops : Ops ι) (a kk l : Nat) :
    ∀ (prev : List (ι × Nat)) (st : InnerSt ι),
      (innerLoop ops a kk l prev st).curr = st.curr ++ dedup ops st.last (ext ops a prev)
  | [], st => by simp [innerLoop, ext, dedup]
  | (iv, ml) :: rest, st => by
    simp only [innerLoop, ext, List.map_cons]
    rw [inner_curr ops a kk l rest]
    simp only [dedup]
    by_cases hp : (ops.size (ops.bwd iv a) != 0 && (ops.size (ops.bwd iv a) : Int) != st.last) = true
    · simp only [hp, if_true, ext, List.append_assoc, List.singleton_append]
    · simp only [hp, ext]
      simp

/-- nothing can be reported any more in this round -/
def Blocked (kk l : Nat) (st : InnerSt ι) (rest : List (ι × Nat)) : Prop :=
  st.curr ≠ [] ∨ st.jj ≤ kk ∨ ∀ x ∈ rest, x.2 < l

theorem inner_blocked (ops : Ops ι) (a kk l : Nat) :
    ∀ (rest : List (ι × Nat)) (st : InnerSt ι), Blocked kk l st rest →
      (innerLoop ops a kk l rest st).jj = st.jj ∧ (innerLoop ops a kk l rest st).ms = st.ms
  | [], st, _ => by simp [innerLoop]
  | (iv, ml) :: rest, st, hb => by
    simp only [innerLoop]
    have hhit : ((ops.size (ops.bwd iv a) == 0 || kk == 0) && st.curr.isEmpty && decide (kk < st.jj) &&
        decide (l ≤ ml)) = false := by
      rcases hb with h | h | h
      · have : st.curr.isEmpty = false := by
          cases hc : st.curr with
          | nil => exact absurd hc h
          | cons x xs => rfl
        simp [this]
      · have : decide (kk < st.jj) = false := by simp; omega
        simp [this]
      · have := h (iv, ml) (by simp)
        have : decide (l ≤ ml) = false := by simp; omega
        simp [this]
    rw [hhit]
    simp only [Bool.false_eq_true, if_false]
    have hb' : Blocked kk l
        (⟨if (ops.size (ops.bwd iv a) != 0 && (ops.size (ops.bwd iv a) : Int) != st.last) = true
            then st.curr ++ [(ops.bwd iv a, ml + 1)] else st.curr,
          if (ops.size (ops.bwd iv a) != 0 && (ops.size (ops.bwd iv a) : Int) != st.last) = true
            then (ops.size (ops.bwd iv a) : Int) else st.last, st.jj, st.ms⟩ : InnerSt ι) rest := by
      rcases hb with h | h | h
      · left
        show (if _ then _ else _) ≠ []
        split
        · simp
        · exact h
      · right; left; exact h
      · right; right; intro x hx; exact h x (List.mem_cons_of_mem _ hx)
    have := inner_blocked ops a kk l rest _ hb'
    exact this

theorem inner_report (ops : Ops ι) (a kk l : Nat) (prev : List (ι × Nat)) (st : InnerSt ι)
    (hc : st.curr = []) (hl : st.last = -1) (hj : kk < st.jj)
    (hs : (prev.map (·.2)).Pairwise (· ≥ ·)) :
    (innerLoop ops a kk l prev st).ms = st.ms ++ report ops a kk l prev ∧
    kk ≤ (innerLoop ops a kk l prev st).jj := by
  cases prev with
  | nil => simp [innerLoop, report]; omega
  | cons x rest =>
    obtain ⟨iv, ml⟩ := x
    simp only [innerLoop, report]
    simp only [List.map_cons, List.pairwise_cons] at hs
    by_cases hcond : (ops.size (ops.bwd iv a) = 0 ∨ kk = 0) ∧ l ≤ ml
    · have hhit : ((ops.size (ops.bwd iv a) == 0 || kk == 0) && st.curr.isEmpty && decide (kk < st.jj) &&
          decide (l ≤ ml)) = true := by
        simp only [hc, List.isEmpty_nil, Bool.and_true, Bool.and_eq_true, Bool.or_eq_true, beq_iff_eq,
          decide_eq_true_eq]
        exact ⟨⟨hcond.1, hj⟩, hcond.2⟩
      rw [hhit]
      simp only [if_true, if_pos hcond]
      have := inner_blocked ops a kk l rest
        (⟨if (ops.size (ops.bwd iv a) != 0 && (ops.size (ops.bwd iv a) : Int) != st.last) = true
            then st.curr ++ [(ops.bwd iv a, ml + 1)] else st.curr,
          if (ops.size (ops.bwd iv a) != 0 && (ops.size (ops.bwd iv a) : Int) != st.last) = true
            then (ops.size (ops.bwd iv a) : Int) else st.last, kk, st.ms ++ [⟨iv, kk, ml⟩]⟩ : InnerSt ι)
        (Or.inr (Or.inl (Nat.le_refl _)))
      rw [this.1, this.2]
      exact ⟨rfl, Nat.le_refl _⟩
    · have hhit : ((ops.size (ops.bwd iv a) == 0 || kk == 0) && st.curr.isEmpty && decide (kk < st.jj) &&
          decide (l ≤ ml)) = false := by
        rw [Bool.eq_false_iff]
        intro h
        simp only [Bool.and_eq_true, Bool.or_eq_true, beq_iff_eq, decide_eq_true_eq] at h
        exact hcond ⟨h.1.1.1, h.2⟩
      rw [hhit]
      simp only [Bool.false_eq_true, if_false, if_neg hcond, List.append_nil]
      have hb : Blocked kk l
          (⟨if (ops.size (ops.bwd iv a) != 0 && (ops.size (ops.bwd iv a) : Int) != st.last) = true
              then st.curr ++ [(ops.bwd iv a, ml + 1)] else st.curr,
            if (ops.size (ops.bwd iv a) != 0 && (ops.size (ops.bwd iv a) : Int) != st.last) = true
              then (ops.size (ops.bwd iv a) : Int) else st.last, st.jj, st.ms⟩ : InnerSt ι) rest := by
        by_cases hlm : l ≤ ml
        · -- then the candidate was extended: `curr` is no longer empty
          have hne : ¬ (ops.size (ops.bwd iv a) = 0 ∨ kk = 0) := fun h => hcond ⟨h, hlm⟩
          have hsz : ops.size (ops.bwd iv a) ≠ 0 := fun h => hne (Or.inl h)
          left
          have hp : (ops.size (ops.bwd iv a) != 0 && (ops.size (ops.bwd iv a) : Int) != st.last) = true := by
            simp only [Bool.and_eq_true, bne_iff_ne, ne_eq]
            refine ⟨hsz, ?_⟩
            rw [hl]; omega
          show (if _ then _ else _) ≠ []
          rw [if_pos hp]; simp
        · right; right
          intro y hy
          have := hs.1 y.2 (List.mem_map_of_mem hy)
          omega
      have := inner_blocked ops a kk l rest _ hb
      rw [this.1, this.2]
      exact ⟨rfl, Nat.le_of_lt hj⟩

/-- the backward sweep without the bookkeeping -/
def outerSpec (ops : Ops ι) (pat : List Nat) (l : Nat) : Nat → List (ι × Nat) → List (Hit ι) → List (Hit ι)
  | 0, prev, ms => ms ++ report ops 36 0 l prev
  | kk + 1, prev, ms =>
    if (dedup ops (-1) (ext ops (pat.getD kk 0) prev)).isEmpty then ms ++ report ops (pat.getD kk 0) (kk + 1) l prev
    else outerSpec ops pat l kk (dedup ops (-1) (ext ops (pat.getD kk 0) prev))
      (ms ++ report ops (pat.getD kk 0) (kk + 1) l prev)

theorem ext_dedup_sorted (ops : Ops ι) (a : Nat) (last : Int) (prev : List (ι × Nat))
    (hs : (prev.map (·.2)).Pairwise (· ≥ ·)) :
    ((dedup ops last (ext ops a prev)).map (·.2)).Pairwise (· ≥ ·) := by
  have h1 : ((ext ops a prev).map (·.2)).Pairwise (· ≥ ·) := by
    have : (ext ops a prev).map (·.2) = (prev.map (·.2)).map (· + 1) := by
      simp [ext, List.map_map, Function.comp_def]
    rw [this, List.pairwise_map]
    exact hs.imp (fun h => by omega)
  exact h1.sublist ((dedup_sublist ops _ last).map _)

theorem outer_eq_spec (ops : Ops ι) (pat : List Nat) (l : Nat) :
    ∀ (kk : Nat) (prev : List (ι × Nat)) (jj : Nat) (ms : List (Hit ι)),
      kk < jj → (prev.map (·.2)).Pairwise (· ≥ ·) →
      outerLoop ops pat l kk prev jj ms = outerSpec ops pat l kk prev ms
  | 0, prev, jj, ms, hj, hs => by
    simp only [outerLoop, outerSpec]
    exact (inner_report ops 36 0 l prev ⟨[], -1, jj, ms⟩ rfl rfl hj hs).1
  | kk + 1, prev, jj, ms, hj, hs => by
    simp only [outerLoop, outerSpec]
    have hr := inner_report ops (pat.getD kk 0) (kk + 1) l prev ⟨[], -1, jj, ms⟩ rfl rfl hj hs
    have hc := inner_curr ops (pat.getD kk 0) (kk + 1) l prev ⟨[], -1, jj, ms⟩
    simp only [List.nil_append] at hc
    rw [hc, hr.1]
    split
    · rfl
    · exact outer_eq_spec ops pat l kk _ _ _ (by omega) (ext_dedup_sorted ops _ _ prev hs)

end RbV.SmemModel
