import RbV.Lemmas.LcskppTable
/-! C19 — the sweep of `lcskpp` evaluates the forward recurrence: invariant of the event loop.  Core Lean only. -/
namespace RbV.Lemmas.Lcskpp
open RbV.KChain RbV.Model.Lcskpp RbV.QGram RbV.Model.Fenwick RbV.Lemmas.Fenwick

/-! ### small facts -/

theorem maxNI_fst (a b : Nat × Int) : (maxNI a b).1 = max a.1 b.1 := by
  unfold maxNI
  split
  · next h => simp only [Bool.or_eq_true, Bool.and_eq_true, decide_eq_true_eq, beq_iff_eq] at h; omega
  · next h => simp only [Bool.or_eq_true, Bool.and_eq_true, decide_eq_true_eq, beq_iff_eq] at h; omega

theorem maxNI_cases (a b : Nat × Int) : maxNI a b = a ∨ maxNI a b = b := by
  unfold maxNI; split <;> simp

theorem step_of_cont {k : Nat} (hk : 0 < k) {a b : M} (h : cont a b = true) : step k a b = 1 := by
  simp only [cont, Bool.and_eq_true, beq_iff_eq] at h
  unfold step nonov
  split
  · next hn => simp only [Bool.and_eq_true, decide_eq_true_eq] at hn; omega
  · rfl

theorem step_of_nonov {k : Nat} {a b : M} (h : nonov k a b = true) : step k a b = k := by
  unfold step; rw [if_pos h]

theorem startEv_inj {ms : List M} {p q : Nat} (h : startEv ms p = startEv ms q) : p = q := by
  have := congrArg (fun e : Ev => e.2.2) h
  simp only [startEv] at this; omega

theorem endEv_inj {ms : List M} {k p q : Nat} (h : endEv ms k p = endEv ms k q) : p = q := by
  have := congrArg (fun e : Ev => e.2.2) h
  simpa only [endEv] using this

theorem endEv_ne_startEv {ms : List M} {k p q : Nat} (hq : q < ms.length) : endEv ms k q ≠ startEv ms p := by
  intro h
  have := congrArg (fun e : Ev => e.2.2) h
  simp only [startEv, endEv] at this; omega

theorem findFrom_some {key : M} {l : List M} {i c : Nat} (h : findFrom key i l = some c) :
    ∃ j, j < l.length ∧ c = i + j ∧ mAt l j = key := by
  induction l generalizing i with
  | nil => simp [findFrom] at h
  | cons a r ih =>
    simp only [findFrom] at h
    by_cases ha : a = key
    · rw [if_pos ha] at h
      exact ⟨0, by simp, by simpa using h.symm, by simpa [mAt] using ha⟩
    · rw [if_neg ha] at h
      obtain ⟨j, hj, hc, hm⟩ := ih h
      exact ⟨j + 1, by simp; omega, by omega, by simpa [mAt] using hm⟩

theorem findFrom_none {key : M} {l : List M} {i : Nat} (h : findFrom key i l = none) : key ∉ l := by
  induction l generalizing i with
  | nil => simp
  | cons a r ih =>
    simp only [findFrom] at h
    by_cases ha : a = key
    · rw [if_pos ha] at h; cases h
    · rw [if_neg ha] at h
      intro hm
      rcases List.mem_cons.mp hm with rfl | hm
      · exact ha rfl
      · exact ih h hm

theorem run_snoc (n : Nat) (ups : List (Nat × (Nat × Nat))) (u : Nat × (Nat × Nat)) :
    run maxNN (0, 0) n (ups ++ [u]) = Model.Fenwick.set maxNN (0, 0) (run maxNN (0, 0) n ups) u.1 u.2 := by
  simp [run, List.foldl_append]

/-! ### the invariant -/

def cellAt (s : St) (q : Nat) : Nat × Int := s.dp.getD q (0, 0)

/-- the predecessor pointer of a cell is justified -/
def PtrOk (ms : List M) (k : Nat) (done : List Ev) (c : Nat × Int) (q : Nat) : Prop :=
  (c.2 = -1 ∧ c.1 = k) ∨
  ∃ r, r < ms.length ∧ c.2 = (r : Int) ∧ endEv ms k r ∈ done ∧ Link k (mAt ms r) (mAt ms q) ∧
    c.1 = step k (mAt ms r) (mAt ms q) + F ms k r

theorem PtrOk.mono {ms : List M} {k : Nat} {done done' : List Ev} {c : Nat × Int} {q : Nat}
    (h : PtrOk ms k done c q) (hsub : ∀ e, e ∈ done → e ∈ done') : PtrOk ms k done' c q := by
  rcases h with h | ⟨r, h1, h2, h3, h4⟩
  · exact Or.inl h
  · exact Or.inr ⟨r, h1, h2, hsub _ h3, h4⟩

structure Inv (ms : List M) (k : Nat) (done : List Ev) (s : St) : Prop where
  len_dp : s.dp.length = 2 * ms.length
  tree : ∃ ups, s.tree = run maxNN (0, 0) (nFrom k 0 ms) ups ∧
    ∀ u, u ∈ ups ↔ ∃ q, q < ms.length ∧ endEv ms k q ∈ done ∧ u = ((mAt ms q).2 + k, (F ms k q, q))
  ended : ∀ q, q < ms.length → endEv ms k q ∈ done → (cellAt s q).1 = F ms k q
  started : ∀ q, q < ms.length → startEv ms q ∈ done → endEv ms k q ∉ done → (cellAt s q).1 = k + A ms k q
  ptr : ∀ q, q < ms.length → startEv ms q ∈ done → PtrOk ms k done (cellAt s q) q
  best_ge : k ≤ s.best.1
  best_ub : ∀ q, q < ms.length → startEv ms q ∈ done → (cellAt s q).1 ≤ s.best.1
  best_at : s.best = (k, 0) ∨
    ∃ p, p < ms.length ∧ s.best.2 = (p : Int) ∧ startEv ms p ∈ done ∧ s.best.1 = (cellAt s p).1

theorem inv_init (ms : List M) (k : Nat) : Inv ms k [] (initSt ms k) := by
  refine ⟨by simp [initSt], ⟨[], by simp [initSt, run], by simp⟩, ?_, ?_, ?_, by simp [initSt], ?_, Or.inl rfl⟩ <;>
    (intro q _ h; cases h)

/-- abstract form of a start event's effect -/
theorem inv_start_close {ms : List M} {k : Nat} {done : List Ev} {s s' : St} {p : Nat}
    (hI : Inv ms k done s) (hp : p < ms.length) (hnot : startEv ms p ∉ done) (hend : endEv ms k p ∉ done)
    (h1 : s'.dp.length = 2 * ms.length) (h2 : ∀ q, q ≠ p → cellAt s' q = cellAt s q)
    (h3 : (cellAt s' p).1 = k + A ms k p) (h4 : PtrOk ms k done (cellAt s' p) p) (h5 : s'.tree = s.tree)
    (h6 : (s'.best = s.best ∧ (cellAt s' p).1 = k) ∨ s'.best = maxNI s.best ((cellAt s' p).1, (p : Int))) :
    Inv ms k (done ++ [startEv ms p]) s' := by
  have hsub : ∀ e, e ∈ done → e ∈ done ++ [startEv ms p] := fun e he => List.mem_append_left _ he
  have hendmem : ∀ q, q < ms.length → (endEv ms k q ∈ done ++ [startEv ms p] ↔ endEv ms k q ∈ done) := by
    intro q hq
    simp only [List.mem_append, List.mem_singleton]
    constructor
    · rintro (h | h)
      · exact h
      · exact absurd h (endEv_ne_startEv hq)
    · intro h; exact Or.inl h
  have hstartmem : ∀ q, (startEv ms q ∈ done ++ [startEv ms p] ↔ startEv ms q ∈ done ∨ q = p) := by
    intro q
    simp only [List.mem_append, List.mem_singleton]
    constructor
    · rintro (h | h)
      · exact Or.inl h
      · exact Or.inr (startEv_inj h)
    · rintro (h | h)
      · exact Or.inl h
      · right; rw [h]
  have hmono : s.best.1 ≤ s'.best.1 := by
    rcases h6 with ⟨h, _⟩ | h
    · rw [h]; exact Nat.le_refl _
    · rw [h, maxNI_fst]; omega
  refine ⟨h1, ?_, ?_, ?_, ?_, ?_, ?_, ?_⟩
  · obtain ⟨ups, ht, hm⟩ := hI.tree
    refine ⟨ups, by rw [h5, ht], ?_⟩
    intro u; rw [hm u]
    constructor
    · rintro ⟨q, hq, he, hu⟩; exact ⟨q, hq, (hendmem q hq).mpr he, hu⟩
    · rintro ⟨q, hq, he, hu⟩; exact ⟨q, hq, (hendmem q hq).mp he, hu⟩
  · intro q hq he
    have he' := (hendmem q hq).mp he
    have hne : q ≠ p := by intro e; subst e; exact hend he'
    rw [h2 q hne]; exact hI.ended q hq he'
  · intro q hq hst hne
    by_cases hqp : q = p
    · subst hqp; exact h3
    · rw [h2 q hqp]
      rcases (hstartmem q).mp hst with h | h
      · exact hI.started q hq h (fun h' => hne ((hendmem q hq).mpr h'))
      · exact absurd h hqp
  · intro q hq hst
    by_cases hqp : q = p
    · subst hqp; exact h4.mono hsub
    · rw [h2 q hqp]
      rcases (hstartmem q).mp hst with h | h
      · exact (hI.ptr q hq h).mono hsub
      · exact absurd h hqp
  · have := hI.best_ge; omega
  · intro q hq hst
    by_cases hqp : q = p
    · subst hqp
      rcases h6 with ⟨_, h⟩ | h
      · rw [h]; have := hI.best_ge; omega
      · rw [h, maxNI_fst]; simp only; omega
    · rw [h2 q hqp]
      rcases (hstartmem q).mp hst with h | h
      · have := hI.best_ub q hq h; omega
      · exact absurd h hqp
  · have hold : s'.best = s.best → (s'.best = (k, 0) ∨
        ∃ p0, p0 < ms.length ∧ s'.best.2 = (p0 : Int) ∧ startEv ms p0 ∈ done ++ [startEv ms p] ∧
          s'.best.1 = (cellAt s' p0).1) := by
      intro hb
      rcases hI.best_at with h | ⟨p0, hp0, hb2, hst, hb1⟩
      · left; rw [hb]; exact h
      · right
        have hne : p0 ≠ p := by intro e; subst e; exact hnot hst
        exact ⟨p0, hp0, by rw [hb]; exact hb2, hsub _ hst, by rw [hb, h2 p0 hne]; exact hb1⟩
    rcases h6 with ⟨hb, _⟩ | hb
    · exact hold hb
    · rcases maxNI_cases s.best ((cellAt s' p).1, (p : Int)) with hc | hc
      · exact hold (by rw [hb, hc])
      · right
        exact ⟨p, hp, by rw [hb, hc], (hstartmem p).mpr (Or.inr rfl), by rw [hb, hc]⟩

/-- abstract form of an end event's effect -/
theorem inv_end_close {ms : List M} {k : Nat} {done : List Ev} {s s' : St} {p : Nat}
    (hI : Inv ms k done s) (hp : p < ms.length) (hst : startEv ms p ∈ done) (hnot : endEv ms k p ∉ done)
    (h1 : s'.dp.length = 2 * ms.length) (h2 : ∀ q, q ≠ p → cellAt s' q = cellAt s q)
    (h3 : (cellAt s' p).1 = F ms k p) (h4 : PtrOk ms k done (cellAt s' p) p)
    (h5 : s'.tree = Model.Fenwick.set maxNN (0, 0) s.tree ((mAt ms p).2 + k) (F ms k p, p))
    (h6 : (s'.best = s.best ∧ cellAt s' p = cellAt s p) ∨ s'.best = maxNI s.best ((cellAt s' p).1, (p : Int)))
    (h7 : (cellAt s p).1 ≤ (cellAt s' p).1) :
    Inv ms k (done ++ [endEv ms k p]) s' := by
  have hsub : ∀ e, e ∈ done → e ∈ done ++ [endEv ms k p] := fun e he => List.mem_append_left _ he
  have hstartmem : ∀ q, (startEv ms q ∈ done ++ [endEv ms k p] ↔ startEv ms q ∈ done) := by
    intro q
    simp only [List.mem_append, List.mem_singleton]
    constructor
    · rintro (h | h)
      · exact h
      · exact absurd h.symm (endEv_ne_startEv hp)
    · intro h; exact Or.inl h
  have hendmem : ∀ q, (endEv ms k q ∈ done ++ [endEv ms k p] ↔ endEv ms k q ∈ done ∨ q = p) := by
    intro q
    simp only [List.mem_append, List.mem_singleton]
    constructor
    · rintro (h | h)
      · exact Or.inl h
      · exact Or.inr (endEv_inj h)
    · rintro (h | h)
      · exact Or.inl h
      · right; rw [h]
  have hmono : s.best.1 ≤ s'.best.1 := by
    rcases h6 with ⟨h, _⟩ | h
    · rw [h]; exact Nat.le_refl _
    · rw [h, maxNI_fst]; omega
  refine ⟨h1, ?_, ?_, ?_, ?_, ?_, ?_, ?_⟩
  · obtain ⟨ups, ht, hm⟩ := hI.tree
    refine ⟨ups ++ [((mAt ms p).2 + k, (F ms k p, p))], by rw [run_snoc, h5, ht], ?_⟩
    intro u
    rw [List.mem_append, List.mem_singleton, hm u]
    constructor
    · rintro (⟨q, hq, he, hu⟩ | hu)
      · exact ⟨q, hq, (hendmem q).mpr (Or.inl he), hu⟩
      · exact ⟨p, hp, (hendmem p).mpr (Or.inr rfl), hu⟩
    · rintro ⟨q, hq, he, hu⟩
      rcases (hendmem q).mp he with h | h
      · exact Or.inl ⟨q, hq, h, hu⟩
      · subst h; exact Or.inr hu
  · intro q hq he
    by_cases hqp : q = p
    · subst hqp; exact h3
    · rw [h2 q hqp]
      rcases (hendmem q).mp he with h | h
      · exact hI.ended q hq h
      · exact absurd h hqp
  · intro q hq hs hne
    have hqp : q ≠ p := by intro e; subst e; exact hne ((hendmem q).mpr (Or.inr rfl))
    rw [h2 q hqp]
    exact hI.started q hq ((hstartmem q).mp hs) (fun h' => hne ((hendmem q).mpr (Or.inl h')))
  · intro q hq hs
    by_cases hqp : q = p
    · subst hqp; exact h4.mono hsub
    · rw [h2 q hqp]; exact (hI.ptr q hq ((hstartmem q).mp hs)).mono hsub
  · have := hI.best_ge; omega
  · intro q hq hs
    by_cases hqp : q = p
    · subst hqp
      rcases h6 with ⟨hb, hc⟩ | h
      · rw [hb, hc]; exact hI.best_ub q hq hst
      · rw [h, maxNI_fst]; simp only; omega
    · rw [h2 q hqp]
      have := hI.best_ub q hq ((hstartmem q).mp hs); omega
  · have hold : s'.best = s.best → (s'.best = (k, 0) ∨
        ∃ p0, p0 < ms.length ∧ s'.best.2 = (p0 : Int) ∧ startEv ms p0 ∈ done ++ [endEv ms k p] ∧
          s'.best.1 = (cellAt s' p0).1) := by
      intro hb
      rcases hI.best_at with h | ⟨p0, hp0, hb2, hs0, hb1⟩
      · left; rw [hb]; exact h
      · right
        refine ⟨p0, hp0, by rw [hb]; exact hb2, hsub _ hs0, ?_⟩
        by_cases hne : p0 = p
        · subst hne
          -- the kept best refers to the cell that has just been raised: both bounds meet
          have hub : (cellAt s' p0).1 ≤ s'.best.1 := by
            rcases h6 with ⟨hb', hc⟩ | h
            · rw [hb', hc]; exact hI.best_ub p0 hp0 hst
            · rw [h, maxNI_fst]; simp only; omega
          rw [hb] at hub ⊢
          omega
        · rw [hb, h2 p0 hne]; exact hb1
    rcases h6 with ⟨hb, _⟩ | hb
    · exact hold hb
    · rcases maxNI_cases s.best ((cellAt s' p).1, (p : Int)) with hc | hc
      · exact hold (by rw [hb, hc])
      · right
        exact ⟨p, hp, by rw [hb, hc], (hstartmem p).mpr hst, by rw [hb, hc]⟩

end RbV.Lemmas.Lcskpp
