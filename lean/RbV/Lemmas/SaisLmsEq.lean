import RbV.Lemmas.SaisKeys
/-
`lms_substring_eq` (the comparison used by the naming loop of `sort_lms_suffixes`) decides equality of the typed LMS
substrings `key t i`, `key t j` of two different LMS positions.
-/
namespace RbV.Sais
open RbV

/-! ### the loop -/

theorem lmsSubEqGo_succ (t : List Nat) (ty : List Bool) (i j f k : Nat) :
    lmsSubEqGo t ty i j (f + 1) k =
      if t.getD (i + k) 0 ≠ t.getD (j + k) 0 then false
      else if isLms ty (i + k) ≠ isLms ty (j + k) then false
      else if (decide (k > 0) && isLms ty (i + k) && isLms ty (j + k)) = true then true
      else lmsSubEqGo t ty i j f (k + 1) := rfl

/-- the loop returns `true` iff it reaches an offset `l > 0` at which both positions are LMS, all symbols and LMS flags
up to `l` agree, and no earlier offset `> 0` has both flags set -/
theorem lmsSubEqGo_iff (t : List Nat) (ty : List Bool) (i j f k : Nat) :
    lmsSubEqGo t ty i j f k = true ↔
      ∃ l, k ≤ l ∧ l < k + f ∧ 0 < l ∧ isLms ty (i + l) = true ∧ isLms ty (j + l) = true ∧
        (∀ k', k ≤ k' → k' ≤ l →
          t.getD (i + k') 0 = t.getD (j + k') 0 ∧ isLms ty (i + k') = isLms ty (j + k')) ∧
        (∀ k', k ≤ k' → k' < l → 0 < k' → ¬ (isLms ty (i + k') = true ∧ isLms ty (j + k') = true)) := by
  induction f generalizing k with
  | zero =>
    constructor
    · intro h; simp [lmsSubEqGo] at h
    · rintro ⟨l, h1, h2, _⟩; omega
  | succ f ih =>
    rw [lmsSubEqGo_succ]
    by_cases hs : t.getD (i + k) 0 = t.getD (j + k) 0
    · rw [if_neg (by simpa using hs)]
      by_cases hf : isLms ty (i + k) = isLms ty (j + k)
      · rw [if_neg (by simpa using hf)]
        by_cases hb : (decide (k > 0) && isLms ty (i + k) && isLms ty (j + k)) = true
        · rw [if_pos hb]
          simp only [Bool.and_eq_true, decide_eq_true_eq] at hb
          obtain ⟨⟨hk0, hbi⟩, hbj⟩ := hb
          refine ⟨fun _ => ⟨k, Nat.le_refl _, by omega, hk0, hbi, hbj, ?_, ?_⟩, fun _ => rfl⟩
          · intro k' h1 h2
            have : k' = k := by omega
            subst this; exact ⟨hs, hf⟩
          · intro k' h1 h2; omega
        · rw [if_neg hb, ih (k + 1)]
          simp only [Bool.and_eq_true, decide_eq_true_eq] at hb
          constructor
          · rintro ⟨l, h1, h2, h3, h4, h5, h6, h7⟩
            refine ⟨l, by omega, by omega, h3, h4, h5, ?_, ?_⟩
            · intro k' a b
              by_cases hk : k' = k
              · subst hk; exact ⟨hs, hf⟩
              · exact h6 k' (by omega) b
            · intro k' a b c
              by_cases hk : k' = k
              · subst hk; intro hh; exact hb ⟨⟨c, hh.1⟩, hh.2⟩
              · exact h7 k' (by omega) b c
          · rintro ⟨l, h1, h2, h3, h4, h5, h6, h7⟩
            have hlk : l ≠ k := by
              intro e; subst e; exact hb ⟨⟨h3, h4⟩, h5⟩
            exact ⟨l, by omega, by omega, h3, h4, h5, fun k' a b => h6 k' (by omega) b,
              fun k' a b c => h7 k' (by omega) b c⟩
      · rw [if_pos (by simpa using hf)]
        constructor
        · intro h; cases h
        · rintro ⟨l, h1, h2, h3, h4, h5, h6, h7⟩
          exact absurd (h6 k (Nat.le_refl _) h1).2 hf
    · rw [if_pos (by simpa using hs)]
      constructor
      · intro h; cases h
      · rintro ⟨l, h1, h2, h3, h4, h5, h6, h7⟩
        exact absurd (h6 k (Nat.le_refl _) h1).1 hs

/-! ### the keys -/

/-- `x + l` is the first LMS position strictly after `x` -/
def NextLms (t : List Nat) (x l : Nat) : Prop :=
  0 < l ∧ isLms (tyOf t) (x + l) = true ∧ ∀ k, 0 < k → k < l → isLms (tyOf t) (x + k) = false

theorem exists_least_pos (P : Nat → Prop) (m : Nat) (h0 : 0 < m) (hm : P m) :
    ∃ l, 0 < l ∧ l ≤ m ∧ P l ∧ ∀ k, 0 < k → k < l → ¬ P k := by
  induction m using Nat.strongRecOn with
  | _ m ih =>
    by_cases h : ∃ k, 0 < k ∧ k < m ∧ P k
    · obtain ⟨k, hk0, hkm, hk⟩ := h
      obtain ⟨l, a, b, c, d⟩ := ih k hkm hk0 hk
      exact ⟨l, a, by omega, c, d⟩
    · exact ⟨m, h0, Nat.le_refl _, hm, fun k hk0 hkm hk => h ⟨k, hk0, hkm, hk⟩⟩

/-- every position before the last has a next LMS position -/
theorem exists_nextLms (t : List Nat) (hv : Valid t) (x : Nat) (hx : x + 1 < t.length) :
    ∃ l, NextLms t x l ∧ x + l < t.length := by
  have hlast := isLms_last hv (by omega)
  obtain ⟨l, a, b, c, d⟩ := exists_least_pos (fun k => isLms (tyOf t) (x + k) = true) (t.length - 1 - x)
    (by omega) (by have : x + (t.length - 1 - x) = t.length - 1 := by omega
                   rw [this]; exact hlast)
  refine ⟨l, ⟨a, c, ?_⟩, by omega⟩
  intro k hk0 hkl
  have := d k hk0 hkl
  simpa using this

theorem nextLms_lt (t : List Nat) (x l : Nat) (h : NextLms t x l) : x + l < t.length :=
  lt_of_isLms _ h.2.1

theorem takeLms_drop (t : List Nat) (l q : Nat) (hl : isLms (tyOf t) (q + l) = true)
    (hn : ∀ k, k < l → isLms (tyOf t) (q + k) = false) :
    takeLms ((zs t).drop q) = (List.range (l + 1)).map (fun k => enc t (q + k)) := by
  induction l generalizing q with
  | zero =>
    have hlt : q < t.length := lt_of_isLms _ hl
    have hq : q < (zs t).length := by simp [zs]; omega
    rw [List.drop_eq_getElem_cons hq]
    have : (zs t)[q] = (enc t q, isLms (tyOf t) q) := by simp [zs]
    rw [this]
    simp only [Nat.add_zero] at hl
    simp [takeLms, hl]
  | succ l ih =>
    have hlt : q + (l + 1) < t.length := lt_of_isLms _ hl
    have hq : q < (zs t).length := by simp [zs]; omega
    rw [List.drop_eq_getElem_cons hq]
    have : (zs t)[q] = (enc t q, isLms (tyOf t) q) := by simp [zs]
    rw [this]
    have h0 := hn 0 (by omega)
    simp only [Nat.add_zero] at h0
    have := ih (q + 1) (by rw [Nat.add_assoc, Nat.add_comm 1]; exact hl)
      (fun k hk => by rw [Nat.add_assoc, Nat.add_comm 1]; exact hn (k + 1) (by omega))
    rw [List.range_succ_eq_map]
    simp only [takeLms, h0, this, List.map_cons, List.map_map, Nat.add_zero]
    simp [Function.comp_def, Nat.add_assoc, Nat.add_comm 1]

/-- **key characterization**: the typed LMS substring of `x` is the list of the typed symbols at offsets `0..l` -/
theorem key_eq_of_nextLms (t : List Nat) (x l : Nat) (h : NextLms t x l) :
    key t x = (List.range (l + 1)).map (fun k => enc t (x + k)) := by
  obtain ⟨h0, h1, h2⟩ := h
  cases l with
  | zero => omega
  | succ l =>
    unfold key
    rw [takeLms_drop t l (x + 1) (by rw [Nat.add_assoc, Nat.add_comm 1]; exact h1)
      (fun k hk => by rw [Nat.add_assoc, Nat.add_comm 1]; exact h2 (k + 1) (by omega) (by omega))]
    rw [List.range_succ_eq_map (n := l + 1)]
    simp [Function.comp_def, Nat.add_assoc, Nat.add_comm 1]

/-- the typed LMS substring of the last position is its typed symbol alone -/
theorem key_last (t : List Nat) (h : 0 < t.length) : key t (t.length - 1) = [enc t (t.length - 1)] := by
  unfold key
  rw [List.drop_eq_nil_of_le (by simp [zs]; omega)]
  rfl

theorem enc_inj (t : List Nat) (p q : Nat) (h : enc t p = enc t q) :
    sym t p = sym t q ∧ isS (tyOf t) p = isS (tyOf t) q := by
  unfold enc at h
  cases hp : isS (tyOf t) p <;> cases hq : isS (tyOf t) q <;> simp [hp, hq] at h ⊢ <;> omega

theorem enc_congr (t : List Nat) (p q : Nat) (h1 : sym t p = sym t q) (h2 : isS (tyOf t) p = isS (tyOf t) q) :
    enc t p = enc t q := by
  unfold enc; rw [h1, h2]

/-- equal keys: the same distance to the next LMS position, the same typed symbols up to it -/
theorem enc_eq_of_key_eq (t : List Nat) (x y lx ly : Nat) (hx : NextLms t x lx) (hy : NextLms t y ly)
    (h : key t x = key t y) : lx = ly ∧ ∀ k, k ≤ lx → enc t (x + k) = enc t (y + k) := by
  rw [key_eq_of_nextLms t x lx hx, key_eq_of_nextLms t y ly hy] at h
  have hlen := congrArg List.length h
  simp only [List.length_map, List.length_range] at hlen
  have e : lx = ly := by omega
  subst e
  refine ⟨rfl, ?_⟩
  intro k hk
  exact (List.map_inj_left.mp h) k (List.mem_range.mpr (by omega))

/-! ### the theorem -/

/-- the loop succeeds at offset `l`: the keys are equal -/
theorem key_eq_of_loop (t : List Nat) (i j l : Nat) (hl0 : 0 < l)
    (hli : isLms (tyOf t) (i + l) = true) (hlj : isLms (tyOf t) (j + l) = true)
    (heq : ∀ k', k' ≤ l → sym t (i + k') = sym t (j + k') ∧ isLms (tyOf t) (i + k') = isLms (tyOf t) (j + k'))
    (hnb : ∀ k', k' < l → 0 < k' → ¬ (isLms (tyOf t) (i + k') = true ∧ isLms (tyOf t) (j + k') = true)) :
    key t i = key t j := by
  have hni : NextLms t i l := by
    refine ⟨hl0, hli, ?_⟩
    intro k hk0 hkl
    cases hc : isLms (tyOf t) (i + k) with
    | false => rfl
    | true => exact absurd ⟨hc, by rw [← (heq k (by omega)).2]; exact hc⟩ (hnb k hkl hk0)
  have hnj : NextLms t j l := by
    refine ⟨hl0, hlj, ?_⟩
    intro k hk0 hkl
    cases hc : isLms (tyOf t) (j + k) with
    | false => rfl
    | true => exact absurd ⟨by rw [(heq k (by omega)).2]; exact hc, hc⟩ (hnb k hkl hk0)
  have hil : i + l < t.length := lt_of_isLms _ hli
  have hjl : j + l < t.length := lt_of_isLms _ hlj
  have hty : ∀ m k, k + m = l → isS (tyOf t) (i + k) = isS (tyOf t) (j + k) := by
    intro m
    induction m with
    | zero =>
      intro k hk
      have : k = l := by omega
      subst this
      rw [((isLms_iff _ _).mp hli).2.1, ((isLms_iff _ _).mp hlj).2.1]
    | succ m ih =>
      intro k hk
      have h1 := ih (k + 1) (by omega)
      have e1 := (heq k (by omega)).1
      have e2 := (heq (k + 1) (by omega)).1
      have si := isS_step t (i + k) (by omega)
      have sj := isS_step t (j + k) (by omega)
      rw [Nat.add_assoc] at si sj
      show isS (PosTypes.posTypes t) (i + k) = isS (PosTypes.posTypes t) (j + k)
      rw [si, sj, e1, e2]
      exact congrArg (fun b => if sym t (j + k) = sym t (j + (k + 1)) then b else
        decide (sym t (j + k) < sym t (j + (k + 1)))) h1
  rw [key_eq_of_nextLms t i l hni, key_eq_of_nextLms t j l hnj]
  apply List.map_inj_left.mpr
  intro k hk
  have hk' : k ≤ l := by have := List.mem_range.mp hk; omega
  exact enc_congr t _ _ (heq k hk').1 (hty (l - k) k (by omega))

/-- **`lms_substring_eq`** decides equality of the typed LMS substrings of two different LMS positions -/
theorem lmsSubEq_iff (t : List Nat) (hv : Valid t) (i j : Nat)
    (hi : isLms (tyOf t) i = true) (hj : isLms (tyOf t) j = true) (hij : i ≠ j) :
    lmsSubEq t (tyOf t) i j = true ↔ key t i = key t j := by
  unfold lmsSubEq
  rw [lmsSubEqGo_iff]
  have hin : i < t.length := lt_of_isLms _ hi
  have hjn : j < t.length := lt_of_isLms _ hj
  constructor
  · rintro ⟨l, _, _, h3, h4, h5, h6, h7⟩
    exact key_eq_of_loop t i j l h3 h4 h5 (fun k' hk => h6 k' (Nat.zero_le _) hk)
      (fun k' a b => h7 k' (Nat.zero_le _) a b)
  · intro hk
    -- neither position is the last one
    have hlen1 : (key t (t.length - 1)).length = 1 := by rw [key_last t hv.pos]; rfl
    have hlen2 : ∀ x, x + 1 < t.length → 2 ≤ (key t x).length := by
      intro x hx
      obtain ⟨l, hl, _⟩ := exists_nextLms t hv x hx
      rw [key_eq_of_nextLms t x l hl]
      have := hl.1
      simp only [List.length_map, List.length_range]; omega
    have hi1 : i + 1 < t.length := by
      apply Classical.byContradiction
      intro hc
      have e : i = t.length - 1 := by omega
      have := hlen2 j (by omega)
      rw [← hk, e, hlen1] at this; omega
    have hj1 : j + 1 < t.length := by
      apply Classical.byContradiction
      intro hc
      have e : j = t.length - 1 := by omega
      have := hlen2 i hi1
      rw [hk, e, hlen1] at this; omega
    obtain ⟨li, hli, hlin⟩ := exists_nextLms t hv i hi1
    obtain ⟨lj, hlj, _⟩ := exists_nextLms t hv j hj1
    obtain ⟨e, henc⟩ := enc_eq_of_key_eq t i j li lj hli hlj hk
    subst e
    have hsym : ∀ k, k ≤ li → sym t (i + k) = sym t (j + k) := fun k hk => (enc_inj t _ _ (henc k hk)).1
    have hty : ∀ k, k ≤ li → isS (tyOf t) (i + k) = isS (tyOf t) (j + k) :=
      fun k hk => (enc_inj t _ _ (henc k hk)).2
    refine ⟨li, Nat.zero_le _, by omega, hli.1, hli.2.1, hlj.2.1, ?_, ?_⟩
    · intro k _ hk
      refine ⟨hsym k hk, ?_⟩
      cases k with
      | zero => simp only [Nat.add_zero]; rw [hi, hj]
      | succ k =>
        have a := hty (k + 1) hk
        have b := hty k (by omega)
        rw [Bool.eq_iff_iff, isLms_iff, isLms_iff, a]
        have e1 : i + (k + 1) - 1 = i + k := by omega
        have e2 : j + (k + 1) - 1 = j + k := by omega
        rw [e1, e2, b]
        constructor
        · rintro ⟨_, h2, h3⟩; exact ⟨by omega, h2, h3⟩
        · rintro ⟨_, h2, h3⟩; exact ⟨by omega, h2, h3⟩
    · intro k _ hkl hk0 hh
      have := hli.2.2 k hk0 hkl
      rw [this] at hh
      exact absurd hh.1 (by simp)

end RbV.Sais
