import RbV.Spec.Hmm
/-! # C14 — from cleared numerators to probabilities (builder genleft)

The specification of C14 (`Spec/Hmm.lean`) and the source-level theorems about the translated `forward` / `backward` /
`viterbi` speak about natural-number *numerators* over common denominators.  This file links them to exact rational
probabilities (core `Rat`): `HmmQ` is a model whose entries are rationals, `jointQ` / `likelihoodQ` are the product of the
*probabilities* along a path / its sum over all paths, and `Scaled m q dI dT dE dF` says that `m` is `q` with the
denominators `dI` (initial), `dT` (transition), `dE` (emission), `dF` (end) cleared.  Every path has the same number of
factors of each kind, so clearing denominators multiplies every path weight by the same constant
`scale dI dT dE dF T = dI · dE · (dT·dE)^(T-1) · dF` (`joint_scaled`), hence the likelihood too (`likelihood_scaled`) and
the order of path weights is unchanged (`joint_le_iff`).  Core Lean only. -/
namespace RbV.Hmm

/-- a model with exact rational entries (probabilities) -/
structure HmmQ where
  S : Nat
  init : Nat → Rat
  trans : Nat → Nat → Rat
  emit : Nat → Nat → Rat
  fin : Nat → Rat

/-- `chain` over the rationals -/
def chainQ (q : HmmQ) : Nat → List Nat → List Nat → Rat
  | s, [], [] => q.fin s
  | s, o :: os, p :: ps => q.trans s p * q.emit p o * chainQ q p os ps
  | _, _, _ => 0

/-- P(path, observations): initial · ∏ transition · ∏ emission · end, as probabilities -/
def jointQ (q : HmmQ) : List Nat → List Nat → Rat
  | o :: os, p :: ps => q.init p * q.emit p o * chainQ q p os ps
  | _, _ => 0

def sumQ : List Rat → Rat
  | [] => 0
  | x :: xs => x + sumQ xs

/-- P(observations) = Σ over all state paths -/
def likelihoodQ (q : HmmQ) (obs : List Nat) : Rat := sumQ ((paths q.S obs.length).map (jointQ q obs))

/-- `m` is `q` with the denominators cleared -/
structure Scaled (m : Hmm) (q : HmmQ) (dI dT dE dF : Nat) : Prop where
  S : q.S = m.S
  init : ∀ s, q.init s * (dI : Rat) = (m.init s : Rat)
  trans : ∀ a b, q.trans a b * (dT : Rat) = (m.trans a b : Rat)
  emit : ∀ s o, q.emit s o * (dE : Rat) = (m.emit s o : Rat)
  fin : ∀ s, q.fin s * (dF : Rat) = (m.fin s : Rat)

/-- the common factor of all paths over `T ≥ 1` observations -/
def scale (dI dT dE dF T : Nat) : Nat := dI * dE * ((dT * dE) ^ (T - 1) * dF)

theorem chain_scaled (m : Hmm) (q : HmmQ) (dI dT dE dF : Nat) (h : Scaled m q dI dT dE dF) :
    ∀ (os ps : List Nat) (s : Nat),
      chainQ q s os ps * (((dT * dE) ^ os.length * dF : Nat) : Rat) = (chain m s os ps : Rat)
  | [], [], s => by simp [chainQ, chain, h.fin]
  | [], _ :: _, s => by simp [chainQ, chain]
  | _ :: _, [], s => by simp [chainQ, chain]
  | o :: os, p :: ps, s => by
    have ih := chain_scaled m q dI dT dE dF h os ps p
    have ht := h.trans s p
    have he := h.emit p o
    simp only [chainQ, chain, List.length_cons, Nat.pow_succ, Rat.natCast_mul] at ih ⊢
    generalize chainQ q p os ps = X at ih ⊢
    generalize (((dT * dE) ^ os.length : Nat) : Rat) = P at ih ⊢
    grind

/-- **clearing denominators multiplies every path weight by the same constant** -/
theorem joint_scaled (m : Hmm) (q : HmmQ) (dI dT dE dF : Nat) (h : Scaled m q dI dT dE dF) (obs π : List Nat) :
    jointQ q obs π * (scale dI dT dE dF obs.length : Rat) = (joint m obs π : Rat) := by
  cases obs with
  | nil => simp [jointQ, joint]
  | cons o os =>
    cases π with
    | nil => simp [jointQ, joint]
    | cons p ps =>
      have hc := chain_scaled m q dI dT dE dF h os ps p
      have hi := h.init p
      have he := h.emit p o
      simp only [jointQ, joint, scale, List.length_cons, Nat.add_sub_cancel, Rat.natCast_mul] at hc ⊢
      generalize chainQ q p os ps = X at hc ⊢
      generalize (((dT * dE) ^ os.length : Nat) : Rat) = P at hc ⊢
      grind

theorem sumQ_scaled (f : List Nat → Rat) (g : List Nat → Nat) (c : Rat) (l : List (List Nat))
    (h : ∀ π, f π * c = (g π : Rat)) : sumQ (l.map f) * c = ((l.map g).sum : Nat) := by
  induction l with
  | nil => simp [sumQ]
  | cons a l ih =>
    have ha := h a
    simp only [List.map_cons, sumQ, List.sum_cons, Rat.natCast_add]
    grind

/-- **P(observations) · scale = the numerator likelihood** -/
theorem likelihood_scaled (m : Hmm) (q : HmmQ) (dI dT dE dF : Nat) (h : Scaled m q dI dT dE dF) (obs : List Nat) :
    likelihoodQ q obs * (scale dI dT dE dF obs.length : Rat) = (likelihood m obs : Rat) := by
  unfold likelihoodQ likelihood
  rw [h.S]
  exact sumQ_scaled _ _ _ _ (joint_scaled m q dI dT dE dF h obs)

/-- the model of probabilities `numerator / denominator` -/
def ofNumerators (m : Hmm) (dI dT dE dF : Nat) : HmmQ :=
  { S := m.S, init := fun s => (m.init s : Rat) / dI, trans := fun a b => (m.trans a b : Rat) / dT,
    emit := fun s o => (m.emit s o : Rat) / dE, fin := fun s => (m.fin s : Rat) / dF }

theorem natCast_ne_zero {d : Nat} (h : d ≠ 0) : (d : Rat) ≠ 0 := by exact_mod_cast h

theorem ofNumerators_scaled (m : Hmm) (dI dT dE dF : Nat) (hI : dI ≠ 0) (hT : dT ≠ 0) (hE : dE ≠ 0) (hF : dF ≠ 0) :
    Scaled m (ofNumerators m dI dT dE dF) dI dT dE dF :=
  ⟨rfl, fun _ => Rat.div_mul_cancel (natCast_ne_zero hI), fun _ _ => Rat.div_mul_cancel (natCast_ne_zero hT),
    fun _ _ => Rat.div_mul_cancel (natCast_ne_zero hE), fun _ => Rat.div_mul_cancel (natCast_ne_zero hF)⟩

theorem scale_ne_zero (dI dT dE dF T : Nat) (hI : dI ≠ 0) (hT : dT ≠ 0) (hE : dE ≠ 0) (hF : dF ≠ 0) :
    scale dI dT dE dF T ≠ 0 := by
  unfold scale
  have h1 : 0 < dI := Nat.pos_of_ne_zero hI
  have h2 : 0 < dE := Nat.pos_of_ne_zero hE
  have h3 : 0 < (dT * dE) ^ (T - 1) := Nat.pow_pos (Nat.mul_pos (Nat.pos_of_ne_zero hT) h2)
  have h4 : 0 < dF := Nat.pos_of_ne_zero hF
  exact Nat.ne_of_gt (Nat.mul_pos (Nat.mul_pos h1 h2) (Nat.mul_pos h3 h4))

/-- division form: `x · c = n`, `c ≠ 0` ⟹ `x = n / c` -/
theorem eq_div_of_mul_eq {x n c : Rat} (hc : c ≠ 0) (h : x * c = n) : x = n / c := by
  rw [← h, Rat.mul_div_cancel hc]

/-- **clearing denominators preserves the order of path weights** (so the arg-max over paths is the same) -/
theorem jointQ_le_of_joint_le (m : Hmm) (q : HmmQ) (dI dT dE dF : Nat) (h : Scaled m q dI dT dE dF)
    (hI : dI ≠ 0) (hT : dT ≠ 0) (hE : dE ≠ 0) (hF : dF ≠ 0) (obs π ρ : List Nat) (hle : joint m obs ρ ≤ joint m obs π) :
    jointQ q obs ρ ≤ jointQ q obs π := by
  have hc : (0 : Rat) < (scale dI dT dE dF obs.length : Rat) := by
    have := Nat.pos_of_ne_zero (scale_ne_zero dI dT dE dF obs.length hI hT hE hF)
    exact_mod_cast this
  apply Rat.le_of_mul_le_mul_right _ hc
  rw [joint_scaled m q dI dT dE dF h, joint_scaled m q dI dT dE dF h]
  exact_mod_cast hle

end RbV.Hmm
