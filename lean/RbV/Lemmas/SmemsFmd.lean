import RbV.Lemmas.SmemsSim
/-!
# The bi-interval operations of the FMD index implement the string-level ones (C06)

`simHyp_fmd`: on an index over `fmdText seqs` whose suffix array passes `LF.sortedAllB`, with
`G x b e := x.size = #occ(pat[b..e)) ∧ (pat[b..e) occurs → x is the bi-interval of pat[b..e))` (`chain_correct`)
and `E x := x is empty with non-zero lower bounds` (extending it gives size `occ(lower-1, ·) - occ(lower-1, ·) = 0`),
the hypotheses of the lock-step theorem hold.  Consequences: `smems_bi_eq_str`, `smems_bi_prop`, `allSmems_bi_prop`.
-/
namespace RbV.SmemModel
open RbV RbV.FMDModel RbV.FMDSym RbV.LF RbV.BSModel

def GFmd (T sa pat : List Nat) (x : Bi) (b e : Nat) : Prop :=
  x.size = cnt T pat b e ∧ (cnt T pat b e ≠ 0 → BiOf T sa (sub pat b (e - b)) x)

def EFmd (x : Bi) : Prop := x.size = 0 ∧ x.lower ≠ 0 ∧ x.lowerRev ≠ 0

theorem biOf_size (T sa P : List Nat) (x : Bi) (hperm : sa.Perm (List.range T.length)) (hP : P ≠ [])
    (h : BiOf T sa P x) : x.size = (occurrences P T).length := by
  have := (biIntervalOf_of_biOf T sa P x hperm hP h).2.2.1
  simp only [Nat.add_sub_cancel_left] at this
  exact this

/-! ### extending an empty bi-interval -/

theorem extLoop_size_zero (occ : Nat → Nat → Nat) (iv : Bi) (a : Nat) (h0 : iv.size = 0) (hl : iv.lower ≠ 0) :
    ∀ (ord : List Nat) (st : Nat × Nat × Nat), st.2.1 = 0 → (extLoop occ iv a ord st).2.1 = 0
  | [], st, h => by simpa [extLoop] using h
  | b :: rest, (l, s, o), _ => by
    simp only [extLoop, h0, if_neg hl, Nat.add_zero, Nat.sub_self]
    split
    · rfl
    · exact extLoop_size_zero occ iv a h0 hl rest _ rfl

theorem backwardExt_dead (less : Nat → Nat) (occ : Nat → Nat → Nat) (iv : Bi) (a : Nat) (h0 : iv.size = 0)
    (hl : iv.lower ≠ 0) : (backwardExt less occ iv a).size = 0 := by
  simp only [backwardExt]
  exact extLoop_size_zero occ iv a h0 hl order _ rfl

theorem forwardExt_dead (less : Nat → Nat) (occ : Nat → Nat → Nat) (iv : Bi) (a : Nat) (h0 : iv.size = 0)
    (hl : iv.lowerRev ≠ 0) : (forwardExt less occ iv a).size = 0 := by
  simp only [forwardExt, swapped]
  exact backwardExt_dead less occ _ _ h0 hl

/-! ### `less(a) ≥ 1` for every DNA symbol: the sentinel occurs and is smaller -/

theorem dna_gt (a : Nat) (h : isDna a = true) : 36 < a := by
  simp only [isDna, List.contains_iff_mem, List.mem_cons, List.not_mem_nil, or_false] at h
  omega

theorem fmd_length_pos (seqs : List (List Nat)) (hne : seqs ≠ []) : 0 < (fmdText seqs).length := by
  cases seqs with
  | nil => exact absurd rfl hne
  | cons s rest => rw [fmdText_cons]; have := block_pos s; simp only [List.length_append]; omega

theorem less_pos (seqs : List (List Nat)) (sa : List Nat) (hne : seqs ≠ [])
    (hperm : sa.Perm (List.range (fmdText seqs).length)) (a : Nat) (ha : isDna a = true) :
    lessRef (bwtOf (fmdText seqs) sa) a ≠ 0 := by
  have hmem : (36 : Nat) ∈ fmdText seqs := by
    have := FMDModel.getD_mem (fmdText seqs) ((fmdText seqs).length - 1) (by have := fmd_length_pos seqs hne; omega)
    rwa [fmd_last seqs hne] at this
  have hb : (36 : Nat) ∈ bwtOf (fmdText seqs) sa := by
    rw [← List.count_pos_iff, count_bwt _ _ hperm, List.count_pos_iff]; exact hmem
  have : 0 < lessRef (bwtOf (fmdText seqs) sa) a := by
    unfold lessRef
    rw [List.countP_pos_iff]
    exact ⟨36, hb, by simpa using dna_gt a ha⟩
  omega

/-! ### the simulation hypotheses -/

theorem simHyp_fmd (seqs : List (List Nat)) (sa pat : List Nat)
    (hne : seqs ≠ []) (hseqs : ∀ s ∈ seqs, ∀ c ∈ s, isDna c = true)
    (hchk : sortedAllB (fmdText seqs) sa = true) (hpat : ∀ c ∈ pat, isDna c = true) :
    SimHyp (biOps (lessRef (bwtOf (fmdText seqs) sa)) (occRef (bwtOf (fmdText seqs) sa)))
      (cnt (fmdText seqs) pat) pat.length pat (GFmd (fmdText seqs) sa pat) EFmd := by
  have hperm : sa.Perm (List.range (fmdText seqs).length) := by
    simp only [sortedAllB, Bool.and_eq_true] at hchk
    exact List.isPerm_iff.mp hchk.1
  refine ⟨fun x b e h => h.1, ?_, ?_, ?_, ?_⟩
  · intro i hi
    have hbi := chain_start seqs sa pat i hne hchk hpat hi
    have hsz := biOf_size _ sa _ _ hperm (sub_ne_nil pat i (i + 1 - i) (by omega) hi) hbi
    have hai := hpat _ (FMDModel.getD_mem pat i hi)
    refine ⟨⟨hsz, fun _ => hbi⟩, fun h0 => ⟨?_, ?_, ?_⟩⟩
    · show (initIntervalWith _ _).size = 0
      rw [hsz]; exact h0
    · exact less_pos seqs sa hne hperm _ hai
    · exact less_pos seqs sa hne hperm _ (isDna_compl _ hai)
  · intro x b e hg h0 hbe hem
    have hpos : 0 < x.size := by rw [hg.1]; omega
    have hbi := chain_step_forward seqs sa pat x b e hne hseqs hchk hpat hbe hem (hg.2 h0) hpos
    have hsz := biOf_size _ sa _ _ hperm (sub_ne_nil pat b (e + 1 - b) (by omega) (by omega)) hbi
    exact ⟨hsz, fun _ => hbi⟩
  · intro x b e hg h0 hb hbe hem
    have hpos : 0 < x.size := by rw [hg.1]; omega
    have hbi := chain_step_backward seqs sa pat x b e hne hseqs hchk hpat hb hbe hem (hg.2 h0) hpos
    have hsz := biOf_size _ sa _ _ hperm (sub_ne_nil pat (b - 1) (e - (b - 1)) (by omega) (by omega)) hbi
    exact ⟨hsz, fun _ => hbi⟩
  · intro x hx a
    exact ⟨forwardExt_dead (lessRef (bwtOf (fmdText seqs) sa)) (occRef (bwtOf (fmdText seqs) sa)) x a hx.1 hx.2.2,
      backwardExt_dead (lessRef (bwtOf (fmdText seqs) sa)) (occRef (bwtOf (fmdText seqs) sa)) x a hx.1 hx.2.1⟩

/-! ### consequences for the bi-interval model of `smems` / `all_smems` -/

section consequences
variable (seqs : List (List Nat)) (sa pat : List Nat)
  (hne : seqs ≠ []) (hseqs : ∀ s ∈ seqs, ∀ c ∈ s, isDna c = true)
  (hchk : sortedAllB (fmdText seqs) sa = true) (hpat : ∀ c ∈ pat, isDna c = true)

include hne hseqs hchk hpat

/-- the bi-interval model and the string-level model report the same (position, length) pairs in the same order -/
theorem smems_bi_eq_str (i l : Nat) (hi : i < pat.length) :
    (smems (biOps (lessRef (bwtOf (fmdText seqs) sa)) (occRef (bwtOf (fmdText seqs) sa))) pat i l).map
      (fun h => (h.pos, h.len)) = smemsStr (fmdText seqs) pat i l := by
  have h := sim_smems (countLaws_cnt (fmdText seqs) pat) (simHyp_fmd seqs sa pat hne hseqs hchk hpat) rfl i l hi
  unfold smemsStr
  exact h.map_eq _ _ (fun a b hab => by rw [hab.1, hab.2.1])

theorem allSmems_bi_eq_str (l : Nat) :
    (allSmems (biOps (lessRef (bwtOf (fmdText seqs) sa)) (occRef (bwtOf (fmdText seqs) sa))) pat l).map
      (fun h => (h.pos, h.len)) = allSmemsStr (fmdText seqs) pat l := by
  have h := sim_allSmems (countLaws_cnt (fmdText seqs) pat) (simHyp_fmd seqs sa pat hne hseqs hchk hpat) rfl l
  unfold allSmemsStr
  exact h.map_eq _ _ (fun a b hab => by rw [hab.1, hab.2.1])

omit hne hseqs hpat in
/-- an interval that stands for an occurring substring has both strands right -/
theorem intervalsOk_of_G (h : Hit Bi) (hg : GFmd (fmdText seqs) sa pat h.iv h.pos (h.pos + h.len))
    (hs : Smem (fmdText seqs) pat h.pos h.len) : SmemIntervalsOk (fmdText seqs) sa pat (hitObs h) := by
  have hperm : sa.Perm (List.range (fmdText seqs).length) := by
    simp only [sortedAllB, Bool.and_eq_true] at hchk
    exact List.isPerm_iff.mp hchk.1
  obtain ⟨h1, h2, h3, _, _⟩ := hs
  have e1 : h.pos + h.len - h.pos = h.len := by omega
  have hcn : cnt (fmdText seqs) pat h.pos (h.pos + h.len) ≠ 0 := by
    unfold cnt; rw [e1]; exact (occurs_iff_length_pos _ _).mp h3
  have hbi := hg.2 hcn
  rw [e1] at hbi
  have := biIntervalOf_of_biOf _ sa _ h.iv hperm (sub_ne_nil pat h.pos h.len h1 (by omega)) hbi
  exact this.2.2.2.2 h3

/-- **the mirror model of `smems`, run on `less`/`occ` of the index, satisfies the property** -/
theorem smems_bi_prop (i l : Nat) (hi : i < pat.length) (hl : 1 ≤ l) :
    SmemsProp (fmdText seqs) sa pat i l
      ((smems (biOps (lessRef (bwtOf (fmdText seqs) sa)) (occRef (bwtOf (fmdText seqs) sa))) pat i l).map hitObs) := by
  have hsim := sim_smems (countLaws_cnt (fmdText seqs) pat) (simHyp_fmd seqs sa pat hne hseqs hchk hpat) rfl i l hi
  have heq := smems_bi_eq_str seqs sa pat hne hseqs hchk hpat i l hi
  constructor
  · intro b len
    rw [← mem_smemsRef, ← smemsStr_correct _ pat i l hi hl, ← heq]
    simp only [List.mem_map, hitObs, Prod.mk.injEq]
    constructor
    · rintro ⟨o, ⟨h, hh, rfl⟩, rfl, rfl⟩; exact ⟨h, hh, rfl, rfl⟩
    · rintro ⟨h, hh, rfl, rfl⟩; exact ⟨_, ⟨h, hh, rfl⟩, rfl, rfl⟩
  · intro o ho
    obtain ⟨h, hh, rfl⟩ := List.mem_map.mp ho
    obtain ⟨k, hk, hpos, hlen, hg⟩ := hsim.mem_left h hh
    have habs := (smems_abs_correct (countLaws_cnt (fmdText seqs) pat) pat rfl hi l hl k).mp hk
    rw [habs.1] at hg
    simp only at hg
    rw [← hpos, ← hlen] at hg
    apply intervalsOk_of_G seqs sa pat hchk h hg
    rw [hpos, hlen]
    exact (absSmem_iff_smem _ _ _ _).mp habs.2.2.1

/-- **… and so does the mirror model of `all_smems`** -/
theorem allSmems_bi_prop (l : Nat) (hl : 1 ≤ l) :
    AllSmemsProp (fmdText seqs) sa pat l
      ((allSmems (biOps (lessRef (bwtOf (fmdText seqs) sa)) (occRef (bwtOf (fmdText seqs) sa))) pat l).map hitObs) := by
  have hsim := sim_allSmems (countLaws_cnt (fmdText seqs) pat) (simHyp_fmd seqs sa pat hne hseqs hchk hpat) rfl l
  have heq := allSmems_bi_eq_str seqs sa pat hne hseqs hchk hpat l
  constructor
  · intro b len
    rw [← mem_allSmemsMin, ← allSmemsStr_correct _ pat l hl, ← heq]
    simp only [List.mem_map, hitObs, Prod.mk.injEq]
    constructor
    · rintro ⟨o, ⟨h, hh, rfl⟩, rfl, rfl⟩; exact ⟨h, hh, rfl, rfl⟩
    · rintro ⟨h, hh, rfl, rfl⟩; exact ⟨_, ⟨h, hh, rfl⟩, rfl, rfl⟩
  · intro o ho
    obtain ⟨h, hh, rfl⟩ := List.mem_map.mp ho
    obtain ⟨k, hk, hpos, hlen, hg⟩ := hsim.mem_left h hh
    have habs := (allSmems_abs_correct (countLaws_cnt (fmdText seqs) pat) pat rfl l hl k).mp hk
    rw [habs.1] at hg
    simp only at hg
    rw [← hpos, ← hlen] at hg
    apply intervalsOk_of_G seqs sa pat hchk h hg
    rw [hpos, hlen]
    exact (absSmem_iff_smem _ _ _ _).mp habs.2.1

end consequences

end RbV.SmemModel
