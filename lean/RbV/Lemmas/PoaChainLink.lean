import RbV.Lemmas.PoaChain
import RbV.Lemmas.PoaBandedFull
import RbV.Lemmas.PoaModes
/-!
# On the graph built from one sequence the general DP of the model *is* the chain recurrence

`topo` of the chain `0 → 1 → … → n-1` is `[0, …, n-1]`, every node's only predecessor is the node before it,
so `dpRows` computes exactly the rows of `chainRows`; with `chainScore_eq_nwBest`: the score the model's
`global` reports on a linear graph is the Needleman–Wunsch optimum, and so is the score of the banded model
with a band covering the query.
-/
namespace RbV.Poa.Model
open RbV.NW RbV.Poa

def chainEs (n : Nat) : WEdges := (List.range (n - 1)).map fun i => (i, i + 1, (1 : Int))

theorem chainG_es (x : List Nat) : (chainG x).es = chainEs x.length := rfl

theorem filter_range_eq (m v : Nat) : (List.range m).filter (fun i => i == v) = if v < m then [v] else [] := by
  induction m with
  | zero => simp
  | succ m ih =>
    rw [List.range_succ, List.filter_append, ih]
    by_cases h1 : v < m
    · have : ¬ m = v := by omega
      simp [h1, this]; omega
    · by_cases h2 : v = m
      · subst h2; simp
      · have : ¬ m = v := fun e => h2 e.symm
        have h3 : ¬ v < m + 1 := by omega
        simp [h1, this, h3]

theorem filter_range_succ_eq (m v : Nat) :
    (List.range m).filter (fun i => i + 1 == v) = if 0 < v ∧ v ≤ m then [v - 1] else [] := by
  induction m with
  | zero => simp; omega
  | succ m ih =>
    rw [List.range_succ, List.filter_append, ih]
    by_cases h1 : 0 < v ∧ v ≤ m
    · have : ¬ m + 1 = v := by omega
      have h2 : 0 < v ∧ v ≤ m + 1 := by omega
      simp [h1, this, h2]
    · by_cases h2 : v = m + 1
      · subst h2; simp
      · have : ¬ m + 1 = v := fun e => h2 e.symm
        have h3 : ¬ (0 < v ∧ v ≤ m + 1) := by omega
        simp [h1, this, h3]

theorem inN_chain (n v : Nat) : inN (chainEs n) v = if 0 < v ∧ v < n then [v - 1] else [] := by
  simp only [inN, chainEs, List.filter_map]
  have : (List.range (n - 1)).filter ((fun e : Nat × Nat × Int => e.2.1 == v) ∘ fun i => (i, i + 1, (1 : Int))) =
      (List.range (n - 1)).filter (fun i => i + 1 == v) := rfl
  rw [this, filter_range_succ_eq]
  by_cases h : 0 < v ∧ v < n
  · have h' : 0 < v ∧ v ≤ n - 1 := by omega
    simp [h, h']
  · have h' : ¬ (0 < v ∧ v ≤ n - 1) := by omega
    simp [h, h']

theorem outN_chain (n v : Nat) : outN (chainEs n) v = if v + 1 < n then [v + 1] else [] := by
  simp only [outN, chainEs, List.filter_map]
  have : (List.range (n - 1)).filter ((fun e : Nat × Nat × Int => e.1 == v) ∘ fun i => (i, i + 1, (1 : Int))) =
      (List.range (n - 1)).filter (fun i => i == v) := rfl
  rw [this, filter_range_eq]
  by_cases h : v + 1 < n
  · have h' : v < n - 1 := by omega
    simp [h, h']
  · have h' : ¬ v < n - 1 := by omega
    simp [h, h']

/-- `[k-1, …, 0]` -/
def revRange (k : Nat) : List Nat := (List.range k).reverse

theorem revRange_succ (k : Nat) : revRange (k + 1) = k :: revRange k := by
  simp [revRange, List.range_succ]

theorem topoLoop_chain (n : Nat) : ∀ (d k f : Nat), k + d = n → d + 1 ≤ f →
    topoLoop (chainEs n) f (if k < n then [k] else []) (revRange k) (revRange k) = List.range n := by
  intro d
  induction d with
  | zero =>
    intro k f hk hf
    have : ¬ k < n := by omega
    simp only [this, if_false]
    have hkn : k = n := by omega
    subst hkn
    cases f with
    | zero => omega
    | succ f => simp [topoLoop, revRange]
  | succ d ih =>
    intro k f hk hf
    have hkn : k < n := by omega
    obtain ⟨f', rfl⟩ : ∃ f', f = f' + 1 := ⟨f - 1, by omega⟩
    simp only [hkn, if_true]
    have hnot : (revRange k).contains k = false := by
      simp [revRange]
    have hstep : topoLoop (chainEs n) (f' + 1) [k] (revRange k) (revRange k) =
        topoLoop (chainEs n) f'
          ((outN (chainEs n) k).foldl (fun st nb => if (inN (chainEs n) nb).all (k :: revRange k).contains then nb :: st else st) [])
          (k :: revRange k) (k :: revRange k) := by
      rw [topoLoop]
      simp only [hnot, Bool.false_eq_true, if_false]
    rw [hstep, outN_chain, ← revRange_succ]
    have hstack : ((if k + 1 < n then [k + 1] else []).foldl
        (fun st nb => if (inN (chainEs n) nb).all (revRange (k + 1)).contains then nb :: st else st) []) =
        (if k + 1 < n then [k + 1] else []) := by
      by_cases h : k + 1 < n
      · simp only [h, if_true, List.foldl_cons, List.foldl_nil]
        rw [inN_chain]
        simp [h, revRange_succ]
      · simp [h]
    rw [hstack]
    exact ih (k + 1) f' (by omega) (by omega)

theorem topo_chain (n : Nat) : topo n (chainEs n) = List.range n := by
  unfold topo
  have hinit : ((List.range n).filter fun v => (inN (chainEs n) v).isEmpty) = if 0 < n then [0] else [] := by
    rw [← filter_range_eq n 0]
    apply List.filter_congr
    intro v hv
    rw [inN_chain]
    have hv' : v < n := List.mem_range.mp hv
    by_cases h : v = 0
    · subst h; simp
    · have : 0 < v ∧ v < n := by omega
      simp [this, h]
  rw [hinit]
  have := topoLoop_chain n n 0 (n + (chainEs n).length + 1) (by omega) (by omega)
  simp only [revRange, List.range_zero, List.reverse_nil] at this
  by_cases h : 0 < n
  · simpa [h] using this
  · simpa [h] using this

/-- the row of node `k` of the chain built from `x` -/
def cRow (sc : Sc) (q : List Nat) (r0 : List Cell) (x : List Nat) : Nat → List Cell
  | 0 => nodeRow sc q r0 0 (x.getD 0 0) []
  | k + 1 => nodeRow sc q r0 (k + 1) (x.getD (k + 1) 0) [(k, cRow sc q r0 x k)]

theorem dpRows_chain_fold (sc : Sc) (x q : List Nat) : ∀ k, k ≤ x.length → ∀ v, v < k →
    ((List.range k).foldl (fun (rows : Array (List Cell)) v =>
      rows.setIfInBounds v (nodeRow sc q (row0 sc.gap q.length) v (x.getD v 0)
        ((inN (chainEs x.length) v).map fun p => (p, rows.getD p []))))
      (Array.replicate x.length ([] : List Cell))).getD v [] = cRow sc q (row0 sc.gap q.length) x v ∧
    ((List.range k).foldl (fun (rows : Array (List Cell)) v =>
      rows.setIfInBounds v (nodeRow sc q (row0 sc.gap q.length) v (x.getD v 0)
        ((inN (chainEs x.length) v).map fun p => (p, rows.getD p []))))
      (Array.replicate x.length ([] : List Cell))).size = x.length := by
  intro k
  induction k with
  | zero => intro _ v hv; omega
  | succ k ih =>
    intro hk v hv
    rw [List.range_succ, List.foldl_append]
    simp only [List.foldl_cons, List.foldl_nil]
    have hsize : ((List.range k).foldl (fun (rows : Array (List Cell)) v =>
        rows.setIfInBounds v (nodeRow sc q (row0 sc.gap q.length) v (x.getD v 0)
          ((inN (chainEs x.length) v).map fun p => (p, rows.getD p []))))
        (Array.replicate x.length ([] : List Cell))).size = x.length := by
      cases k with
      | zero => simp
      | succ k' => exact (ih (by omega) k' (by omega)).2
    refine ⟨?_, by simpa using hsize⟩
    rw [getD_setIfInBounds]
    by_cases hvk : v = k
    · subst hvk
      simp only [true_and, hsize]
      have : v < x.length := by omega
      simp only [this, if_true]
      rw [inN_chain]
      cases v with
      | zero => simp [cRow]
      | succ v' =>
        have h1 : 0 < v' + 1 ∧ v' + 1 < x.length := by omega
        simp only [h1, and_self, if_true, List.map_cons, List.map_nil, Nat.add_sub_cancel]
        rw [(ih (by omega) v' (by omega)).1]
        rfl
    · simp only [hvk, false_and, if_false]
      exact (ih (by omega) v (by omega)).1

theorem chainRows_eq_cRow (sc : Sc) (q : List Nat) (r0 : List Cell) (x : List Nat) :
    ∀ (xs pre : List Nat), x = pre ++ xs → 0 < pre.length + xs.length →
      chainRows sc q r0 pre.length (if pre.length = 0 then none else some (cRow sc q r0 x (pre.length - 1))) xs =
        cRow sc q r0 x (x.length - 1) := by
  intro xs
  induction xs with
  | nil =>
    intro pre hx hpos
    simp only [List.append_nil] at hx
    subst hx
    have : ¬ x.length = 0 := by simp at hpos; omega
    simp [chainRows, this]
  | cons a rest ih =>
    intro pre hx _
    have ha : x.getD pre.length 0 = a := by
      rw [hx]; simp [List.getD_eq_getElem?_getD]
    have := ih (pre ++ [a]) (by rw [hx]; simp) (by simp; omega)
    simp only [List.length_append, List.length_cons, List.length_nil, Nat.add_sub_cancel, Nat.succ_ne_zero,
      if_false] at this
    cases pre with
    | nil =>
      simp only [List.length_nil, if_true, chainRows, Nat.zero_add] at this ha ⊢
      rw [← this, ← ha]
      rfl
    | cons b pre' =>
      simp only [List.length_cons, Nat.succ_ne_zero, if_false, chainRows, Nat.add_sub_cancel] at this ha ⊢
      rw [← this, ← ha]
      rfl

theorem cRow_length (sc : Sc) (q x : List Nat) : ∀ k, (cRow sc q (row0 sc.gap q.length) x k).length = q.length + 1 := by
  have h0 : (row0 sc.gap q.length).length = q.length + 1 := by simp [row0, length_row0From]
  intro k
  induction k with
  | zero =>
    exact nodeRow_length sc q (row0 sc.gap q.length) 0 (x.getD 0 0) [] (fun _ => []) h0 (by simp)
  | succ k ih =>
    have := nodeRow_length sc q (row0 sc.gap q.length) (k + 1) (x.getD (k + 1) 0) [k]
      (fun _ => cRow sc q (row0 sc.gap q.length) x k) h0 (by intro p _; exact ih)
    simpa [cRow] using this

/-- **the general DP of the model on a linear graph is the chain recurrence** -/
theorem globalAlign_chain (sc : Sc) (x q : List Nat) (hx : x ≠ []) :
    (globalAlign sc x (chainEs x.length) q).1 = chainScore sc x q := by
  have hn : 0 < x.length := by
    cases x with
    | nil => exact absurd rfl hx
    | cons a r => simp
  have hlast : (List.range x.length).getLastD 0 = x.length - 1 := by
    obtain ⟨m, hm⟩ : ∃ m, x.length = m + 1 := ⟨x.length - 1, by omega⟩
    rw [hm, List.range_succ]
    simp
  have hfold := dpRows_chain_fold sc x q x.length (Nat.le_refl _) (x.length - 1) (by omega)
  have hchain := chainRows_eq_cRow sc q (row0 sc.gap q.length) x x [] (by simp) (by simpa using hn)
  simp only [List.length_nil, if_true] at hchain
  have hlen := cRow_length sc q x (x.length - 1)
  simp only [globalAlign, dpRows, topo_chain, hlast, Table.cell, chainScore, hchain]
  have hne : ¬ x.length - 1 + 1 = 0 := by omega
  simp only [hne, if_false, Nat.add_sub_cancel]
  rw [hfold.1]
  generalize cRow sc q (row0 sc.gap q.length) x (x.length - 1) = R at hlen
  rw [List.getLast?_eq_getElem?, hlen]
  simp [List.getD_eq_getElem?_getD, hlen]

end RbV.Poa.Model
