import RbV.Lemmas.SaisText
/-
L/S types (`PosTypes::new`) by their local rules, LMS positions, and the first loop of `calc_lms_pos`
(C03 (b): `lms_pos` = exactly the LMS positions, ascending; `reduced_text_pos[r]` = index of `r` among them).
-/
namespace RbV.Sais
open RbV

theorem posTypes_cons2 (a b : Nat) (rest : List Nat) :
    PosTypes.posTypes (a :: b :: rest) =
      (if a = b then (PosTypes.posTypes (b :: rest)).getD 0 false else decide (a < b)) ::
        PosTypes.posTypes (b :: rest) := by
  simp only [PosTypes.posTypes]
  cases h : PosTypes.posTypes (b :: rest) with
  | nil =>
    have := PosTypes.length_posTypes (b :: rest)
    rw [h] at this; simp at this
  | cons tb ts => simp

/-- the last position is S-type -/
theorem isS_last (t : List Nat) (h : 0 < t.length) : isS (PosTypes.posTypes t) (t.length - 1) = true := by
  induction t with
  | nil => simp at h
  | cons a l ih =>
    cases l with
    | nil => simp [PosTypes.posTypes, isS]
    | cons b rest =>
      rw [posTypes_cons2]
      have := ih (by simp)
      simp only [List.length_cons] at this ⊢
      unfold isS at this ⊢
      have e : rest.length + 1 + 1 - 1 = (rest.length + 1 - 1) + 1 := by omega
      rw [e, List.getD_cons_succ]
      exact this

/-- the rule of `PosTypes::new` for a position that has a successor -/
theorem isS_step (t : List Nat) (p : Nat) (h : p + 1 < t.length) :
    isS (PosTypes.posTypes t) p =
      if sym t p = sym t (p + 1) then isS (PosTypes.posTypes t) (p + 1) else decide (sym t p < sym t (p + 1)) := by
  induction t generalizing p with
  | nil => simp at h
  | cons a l ih =>
    cases l with
    | nil => simp at h
    | cons b rest =>
      rw [posTypes_cons2]
      cases p with
      | zero => simp [isS, sym]
      | succ p =>
        have := ih p (by simpa using h)
        unfold isS sym at this ⊢
        simp only [List.getD_cons_succ]
        exact this

theorem isL_eq_not (ty : List Bool) (p : Nat) : isL ty p = !isS ty p := rfl

section valid
variable {t : List Nat}

/-- abbreviation: the types of `t` -/
def tyOf (t : List Nat) : List Bool := PosTypes.posTypes t

theorem length_tyOf (t : List Nat) : (tyOf t).length = t.length := PosTypes.length_posTypes t

theorem isS_of_lt (p : Nat) (h : p + 1 < t.length) (hlt : sym t p < sym t (p + 1)) : isS (tyOf t) p = true := by
  unfold tyOf; rw [isS_step t p h]
  have : sym t p ≠ sym t (p + 1) := by omega
  simp [this, hlt]

theorem isL_of_gt (p : Nat) (h : p + 1 < t.length) (hgt : sym t (p + 1) < sym t p) : isS (tyOf t) p = false := by
  unfold tyOf; rw [isS_step t p h]
  have : sym t p ≠ sym t (p + 1) := by omega
  have h2 : ¬ sym t p < sym t (p + 1) := by omega
  simp [this, h2]

theorem isS_of_eq (p : Nat) (h : p + 1 < t.length) (he : sym t p = sym t (p + 1)) :
    isS (tyOf t) p = isS (tyOf t) (p + 1) := by
  unfold tyOf; rw [isS_step t p h]; simp [he]

/-- S-type: the next symbol is not smaller -/
theorem sym_le_of_isS (p : Nat) (h : p + 1 < t.length) (hs : isS (tyOf t) p = true) : sym t p ≤ sym t (p + 1) := by
  apply Classical.byContradiction
  intro hc
  have := isL_of_gt (t := t) p h (by omega)
  rw [this] at hs; cases hs

/-- L-type: the next symbol is not larger -/
theorem sym_ge_of_isL (p : Nat) (h : p + 1 < t.length) (hs : isS (tyOf t) p = false) : sym t (p + 1) ≤ sym t p := by
  apply Classical.byContradiction
  intro hc
  have := isS_of_lt (t := t) p h (by omega)
  rw [this] at hs; cases hs

theorem isS_oob (p : Nat) (h : t.length ≤ p) : isS (tyOf t) p = false := by
  unfold isS
  rw [List.getD_eq_getElem?_getD, List.getElem?_eq_none (by rw [length_tyOf]; exact h)]; rfl

/-- an L-type position has a successor -/
theorem lt_of_isL (hv : Valid t) (p : Nat) (hp : p < t.length) (hs : isS (tyOf t) p = false) : p + 1 < t.length := by
  apply Classical.byContradiction
  intro hc
  have : p = t.length - 1 := by omega
  rw [this, show tyOf t = PosTypes.posTypes t from rfl, isS_last t hv.pos] at hs
  cases hs

/-- the position before the last is L-type -/
theorem isL_penult (hv : Valid t) (h2 : 2 ≤ t.length) : isS (tyOf t) (t.length - 2) = false := by
  have h1 := hv.lastMin (t.length - 2) (by omega)
  apply isL_of_gt (t.length - 2) (by omega)
  have : t.length - 2 + 1 = t.length - 1 := by omega
  rw [this]; exact h1

theorem isLms_iff (ty : List Bool) (p : Nat) :
    isLms ty p = true ↔ p ≠ 0 ∧ isS ty p = true ∧ isS ty (p - 1) = false := by
  unfold isLms isL isS
  simp [Bool.and_eq_true, and_assoc]

/-- the last position is LMS (texts of length ≥ 2) -/
theorem isLms_last (hv : Valid t) (h2 : 2 ≤ t.length) : isLms (tyOf t) (t.length - 1) = true := by
  rw [isLms_iff]
  refine ⟨by omega, isS_last t hv.pos, ?_⟩
  have : t.length - 1 - 1 = t.length - 2 := by omega
  rw [this]; exact isL_penult hv h2

theorem lt_of_isLms (p : Nat) (h : isLms (tyOf t) p = true) : p < t.length := by
  rw [isLms_iff] at h
  apply Classical.byContradiction
  intro hc
  rw [isS_oob p (by omega)] at h
  exact absurd h.2.1 (by simp)

/-- the last symbol occurs only at the end -/
theorem sym_ne_last (hv : Valid t) (p : Nat) (hp : p + 1 < t.length) : sym t p ≠ sym t (t.length - 1) := by
  have := hv.lastMin p hp; omega

theorem sym_mem (p : Nat) (hp : p < t.length) : sym t p ∈ t := getD_mem_of_lt t p hp

theorem sym_lt_maxSucc (p : Nat) (hp : p < t.length) : sym t p < maxSucc t := lt_maxSucc_of_mem t _ (sym_mem p hp)

/-- the last symbol is 0 -/
theorem sym_last_zero (hv : Valid t) : sym t (t.length - 1) = 0 := by
  have hm : sym t (t.length - 1) ∈ t := sym_mem _ (by have := hv.pos; omega)
  have h0 : 0 ∈ t := hv.dense 0 _ hm (by omega)
  obtain ⟨i, hi, he⟩ := exists_getD_of_mem t 0 h0
  by_cases hil : i + 1 < t.length
  · have := hv.lastMin i hil
    unfold sym at this; omega
  · have : i = t.length - 1 := by omega
    rw [← this]; exact he

end valid

/-! ### the first loop of `calc_lms_pos` -/

/-- LMS positions below `k`, ascending -/
def lmsBelow (ty : List Bool) (k : Nat) : List Nat := (List.range k).filter (isLms ty)

theorem lmsBelow_succ (ty : List Bool) (k : Nat) :
    lmsBelow ty (k + 1) = if isLms ty k then lmsBelow ty k ++ [k] else lmsBelow ty k := by
  unfold lmsBelow
  rw [List.range_succ, List.filter_append]
  by_cases h : isLms ty k = true <;> simp [h]

/-- state of the collection loop after `k` iterations -/
theorem collect_spec (ty : List Bool) (red : List Nat) (k : Nat) (hk : k ≤ red.length) :
    let c := forUp k (collectStep ty) ([], red, 0)
    c.1 = lmsBelow ty k ∧ c.2.2 = (lmsBelow ty k).length ∧ c.2.1.length = red.length ∧
    (∀ r, r < k → isLms ty r = true → c.2.1.getD r 0 = (lmsBelow ty r).length) ∧
    (∀ r, k ≤ r → c.2.1.getD r 0 = red.getD r 0) := by
  induction k with
  | zero => simp [forUp, lmsBelow]
  | succ k ih =>
    obtain ⟨h1, h2, h3, h4, h5⟩ := ih (by omega)
    simp only [forUp]
    generalize forUp k (collectStep ty) ([], red, 0) = c at h1 h2 h3 h4 h5 ⊢
    unfold collectStep
    rw [lmsBelow_succ]
    by_cases hl : isLms ty k = true
    · simp only [hl, if_true]
      refine ⟨by rw [h1], by rw [h2]; simp, by rw [List.length_set, h3], ?_, ?_⟩
      · intro r hr hlr
        by_cases hrk : r = k
        · subst hrk
          rw [getD_set_eq _ _ _ _ (by omega), h2]
        · rw [getD_set_ne _ _ _ _ _ (by omega)]
          exact h4 r (by omega) hlr
      · intro r hr
        rw [getD_set_ne _ _ _ _ _ (by omega)]
        exact h5 r (by omega)
    · simp only [hl]
      refine ⟨h1, h2, h3, ?_, fun r hr => h5 r (by omega)⟩
      intro r hr hlr
      by_cases hrk : r = k
      · subst hrk; exact absurd hlr hl
      · exact h4 r (by omega) hlr

end RbV.Sais
