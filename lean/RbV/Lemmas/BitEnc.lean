import RbV.Model.BitEnc
import RbV.Lemmas.BitEncBits
/-! List-level part of the `BitEnc` refinement proof (C18 [A]): every operation of the mirror model preserves
`Abs w s l` — "state `s` represents the plain vector `l`".  Block-level facts come from `BitEncBits`. Core only. -/
namespace RbV.Lemmas.BitEnc
open RbV.Model.BitEnc RbV.Lemmas.BitEncBits
open RbV.Spec.BitEnc (Op specStep perBlock specBlocks)

/-- the possible values of `32 / w` for `1 ≤ w ≤ 8` -/
def P7 (p : Nat) : Prop := p = 32 ∨ p = 16 ∨ p = 10 ∨ p = 8 ∨ p = 6 ∨ p = 5 ∨ p = 4

theorem per_cases (w : Nat) (hw : 1 ≤ w ∧ w ≤ 8) : P7 (32 / w) := by
  unfold P7
  obtain ⟨h1, h8⟩ := hw
  have : w = 1 ∨ w = 2 ∨ w = 3 ∨ w = 4 ∨ w = 5 ∨ w = 6 ∨ w = 7 ∨ w = 8 := by omega
  rcases this with rfl | rfl | rfl | rfl | rfl | rfl | rfl | rfl <;> simp

theorem per_pos (w : Nat) (hw : 1 ≤ w ∧ w ≤ 8) : 0 < 32 / w := by
  have := per_cases w hw; unfold P7 at this; omega

/-- `addr` in slot coordinates -/
theorem addr_eq (w i : Nat) (hw : 1 ≤ w ∧ w ≤ 8) :
    addr w i = (i / (32 / w), (i % (32 / w)) * w) := by
  unfold addr
  simp only [usable_eq w hw]
  have hw0 : 0 < w := by omega
  rw [Nat.mul_div_mul_right _ _ hw0, Nat.mul_mod_mul_right]

/-- value at index `i` of the packed storage -/
def getI (w : Nat) (st : List Nat) (i : Nat) : Nat := slot w (st.getD (i / (32 / w)) 0) (i % (32 / w))

/-- storage after writing index `i` -/
def setI (w : Nat) (st : List Nat) (i v : Nat) : List Nat :=
  st.set (i / (32 / w)) (rmw w (st.getD (i / (32 / w)) 0) ((i % (32 / w)) * w) v)

theorem getByAddr_addr (w : Nat) (st : List Nat) (i : Nat) (hw : 1 ≤ w ∧ w ≤ 8) :
    getByAddr w st (addr w i).1 (addr w i).2 = getI w st i := by
  rw [addr_eq w i hw]; rfl

theorem setByAddr_addr (w : Nat) (st : List Nat) (i v : Nat) (hw : 1 ≤ w ∧ w ≤ 8) :
    setByAddr w st (addr w i).1 (addr w i).2 v = setI w st i v := by
  rw [addr_eq w i hw]; rfl

theorem length_setI (w : Nat) (st : List Nat) (i v : Nat) : (setI w st i v).length = st.length := by
  simp [setI]

theorem getD_set_eq (l : List Nat) (i : Nat) (v d : Nat) (hi : i < l.length) : (l.set i v).getD i d = v := by
  simp [List.getD_eq_getElem?_getD, hi]

theorem getD_set_ne (l : List Nat) (i j : Nat) (v d : Nat) (hij : i ≠ j) : (l.set i v).getD j d = l.getD j d := by
  simp [List.getD_eq_getElem?_getD, List.getElem?_set_ne hij]

theorem eq_of_div_mod (p i j : Nat) (h1 : i / p = j / p) (h2 : i % p = j % p) : i = j := by
  have a := Nat.div_add_mod i p
  have b := Nat.div_add_mod j p
  rw [h1, h2] at a; omega

/-- read after write -/
theorem getI_setI (w : Nat) (st : List Nat) (i j v : Nat) (hw : 1 ≤ w ∧ w ≤ 8)
    (hi : i / (32 / w) < st.length) :
    getI w (setI w st i v) j = if j = i then v % 2 ^ w else getI w st j := by
  have hp := per_pos w hw
  unfold getI setI
  by_cases hb : j / (32 / w) = i / (32 / w)
  · rw [hb, getD_set_eq _ _ _ _ hi]
    by_cases hs : j % (32 / w) = i % (32 / w)
    · have : j = i := eq_of_div_mod _ _ _ hb hs
      simp only [this, if_true]
      exact slot_rmw_same w _ _ v hw (Nat.mod_lt _ hp)
    · have hne : j ≠ i := fun h => hs (by rw [h])
      simp only [hne, if_false]
      rw [slot_rmw_other w _ _ _ v hw (Nat.mod_lt _ hp) (Nat.mod_lt _ hp) (fun h => hs h.symm)]
  · have hne : j ≠ i := fun h => hb (by rw [h])
    simp only [hne, if_false]
    rw [getD_set_ne _ _ _ _ _ (fun h => hb h.symm)]

/-- read after an out-of-bounds write (`List.set` is then the identity) -/
theorem setI_oob (w : Nat) (st : List Nat) (i v : Nat) (hi : st.length ≤ i / (32 / w)) : setI w st i v = st := by
  unfold setI; exact List.set_eq_of_length_le hi

/-- the part of the abstraction relation that does not talk about the block count -/
def AbsP (w : Nat) (s : St) (l : List Nat) : Prop :=
  s.len = l.length ∧ ∀ i, i < s.len → l[i]? = some (getI w s.storage i)

/-- `s` represents the plain vector `l` (and has exactly the specified number of blocks) -/
def Abs (w : Nat) (s : St) (l : List Nat) : Prop :=
  AbsP w s l ∧ s.storage.length = specBlocks w s.len

theorem abs_new (w : Nat) (hw : 1 ≤ w ∧ w ≤ 8) : Abs w new [] := by
  refine ⟨⟨rfl, ?_⟩, ?_⟩
  · intro i hi; simp [new] at hi
  · have hp := per_cases w hw
    simp only [new, specBlocks, perBlock, List.length_nil]
    unfold P7 at hp
    rcases hp with h | h | h | h | h | h | h <;> rw [h]

/-! ### arithmetic of block counts (by cases on the seven possible values of `32 / w`) -/

theorem blocks_lt (p n i : Nat) (hp : P7 p) (h : i < n) : i / p < (n + p - 1) / p := by
  unfold P7 at hp; rcases hp with rfl | rfl | rfl | rfl | rfl | rfl | rfl <;> omega

theorem blocks_succ_full (p n : Nat) (hp : P7 p) (h : n % p = 0) :
    (n + 1 + p - 1) / p = (n + p - 1) / p + 1 ∧ n / p = (n + p - 1) / p := by
  unfold P7 at hp; rcases hp with rfl | rfl | rfl | rfl | rfl | rfl | rfl <;> omega

theorem blocks_succ_part (p n : Nat) (hp : P7 p) (h : n % p ≠ 0) :
    (n + 1 + p - 1) / p = (n + p - 1) / p ∧ n / p < (n + p - 1) / p := by
  unfold P7 at hp; rcases hp with rfl | rfl | rfl | rfl | rfl | rfl | rfl <;> omega


/-! ### push -/

theorem absP_write_end (w : Nat) (st : List Nat) (len : Nat) (l : List Nat) (v : Nat) (hw : 1 ≤ w ∧ w ≤ 8)
    (h : AbsP w { storage := st, len := len } l) (hb : len / (32 / w) < st.length) :
    AbsP w { storage := setI w st len v, len := len + 1 } (l ++ [v % 2 ^ w]) := by
  obtain ⟨hl, hg⟩ := h
  simp only at hl hg
  refine ⟨by simp [hl], ?_⟩
  intro i hi
  simp only at hi ⊢
  rw [getI_setI w st len i v hw hb]
  by_cases hil : i = len
  · subst hil
    simp only [if_true]
    rw [List.getElem?_append_right (by omega)]
    simp [hl]
  · simp only [hil, if_false]
    have : i < len := by omega
    rw [List.getElem?_append_left (by omega)]
    exact hg i this

theorem getI_append_left (w : Nat) (st ext : List Nat) (i : Nat) (h : i / (32 / w) < st.length) :
    getI w (st ++ ext) i = getI w st i := by
  unfold getI
  simp [List.getD_eq_getElem?_getD, List.getElem?_append_left h]

theorem abs_push (w : Nat) (s : St) (l : List Nat) (v : Nat) (hw : 1 ≤ w ∧ w ≤ 8) (h : Abs w s l) :
    Abs w (push w s v) (l ++ [v % 2 ^ w]) := by
  obtain ⟨hP, hB⟩ := h
  have hp := per_cases w hw
  have hw0 : 0 < w := by omega
  unfold push
  rw [addr_eq w s.len hw]
  simp only
  have hset : ∀ st, setByAddr w st (s.len / (32 / w)) (s.len % (32 / w) * w) v = setI w st s.len v := fun _ => rfl
  rw [hset]
  simp only [specBlocks, perBlock] at hB
  by_cases h0 : s.len % (32 / w) = 0
  · have hbit : s.len % (32 / w) * w = 0 := by rw [h0]; simp
    simp only [hbit, if_true]
    have ⟨e1, e2⟩ := blocks_succ_full _ s.len hp h0
    constructor
    · apply absP_write_end w (s.storage ++ [0]) s.len l v hw
      · refine ⟨hP.1, ?_⟩
        intro i hi
        simp only at hi ⊢
        rw [getI_append_left w _ _ _ (by rw [hB]; exact blocks_lt _ _ _ hp hi)]
        exact hP.2 i hi
      · simp only [List.length_append, List.length_cons, List.length_nil]; omega
    · simp only [length_setI, List.length_append, List.length_cons, List.length_nil, specBlocks, perBlock]
      omega
  · have hbit : ¬ s.len % (32 / w) * w = 0 := by
      intro hc
      rcases Nat.mul_eq_zero.mp hc with hc | hc <;> omega
    simp only [hbit, if_false]
    have ⟨e1, e2⟩ := blocks_succ_part _ s.len hp h0
    constructor
    · exact absP_write_end w s.storage s.len l v hw hP (by omega)
    · simp only [length_setI, specBlocks, perBlock]; omega

/-! ### set / get / clear / iter -/

theorem abs_set (w : Nat) (s : St) (l : List Nat) (i v : Nat) (hw : 1 ≤ w ∧ w ≤ 8) (h : Abs w s l) :
    Abs w (set w s i v) (l.set i (v % 2 ^ w)) := by
  obtain ⟨⟨hl, hg⟩, hB⟩ := h
  unfold Model.BitEnc.set
  rw [addr_eq w i hw]
  simp only
  have hset : setByAddr w s.storage (i / (32 / w)) (i % (32 / w) * w) v = setI w s.storage i v := rfl
  rw [hset]
  refine ⟨⟨by simp [hl], ?_⟩, by simpa [length_setI] using hB⟩
  intro j hj
  simp only at hj ⊢
  by_cases hb : i / (32 / w) < s.storage.length
  · rw [getI_setI w _ i j v hw hb]
    by_cases hji : j = i
    · subst hji
      simp only [if_true]
      rw [List.getElem?_set_self (by omega)]
    · simp only [hji, if_false]
      rw [List.getElem?_set_ne (fun h => hji h.symm)]
      exact hg j hj
  · rw [setI_oob w _ i v (by omega)]
    have hp := per_cases w hw
    simp only [specBlocks, perBlock] at hB
    have : ¬ i < s.len := by
      intro hlt
      have := blocks_lt _ _ _ hp hlt
      omega
    rw [List.getElem?_set_ne (by omega)]
    exact hg j hj

theorem get_of_abs (w : Nat) (s : St) (l : List Nat) (i : Nat) (hw : 1 ≤ w ∧ w ≤ 8) (h : Abs w s l) :
    get w s i = l[i]? := by
  obtain ⟨⟨hl, hg⟩, _⟩ := h
  unfold Model.BitEnc.get
  by_cases hi : i ≥ s.len
  · simp only [hi, if_true]
    exact (List.getElem?_eq_none (by omega)).symm
  · simp only [hi, if_false]
    have := getByAddr_addr w s.storage i hw
    rw [hg i (by omega)]
    simp only [Option.some.injEq]
    exact this

theorem toList_of_abs (w : Nat) (s : St) (l : List Nat) (hw : 1 ≤ w ∧ w ≤ 8) (h : Abs w s l) :
    toList w s = l := by
  obtain ⟨⟨hl, hg⟩, _⟩ := h
  apply List.ext_getElem?
  intro i
  unfold toList
  by_cases hi : i < s.len
  · rw [hg i hi]
    simp [hi, getByAddr_addr w s.storage i hw]
  · rw [List.getElem?_eq_none (by simp; omega), List.getElem?_eq_none (by omega)]

theorem abs_clear (w : Nat) (s : St) (hw : 1 ≤ w ∧ w ≤ 8) : Abs w (clear s) [] := abs_new w hw


/-! ### push_values, phase 1: the fill-up loop -/

theorem div_mod_of_eq (p b t : Nat) (ht : t < p) : (b * p + t) / p = b ∧ (b * p + t) % p = t := by
  have hp : 0 < p := by omega
  constructor
  · rw [Nat.mul_comm, Nat.mul_add_div hp, Nat.div_eq_of_lt ht]; rfl
  · rw [Nat.mul_comm, Nat.mul_add_mod, Nat.mod_eq_of_lt ht]

theorem fill_spec (w block v : Nat) (hw : 1 ≤ w ∧ w ≤ 8) : ∀ (n t : Nat) (s : St) (l : List Nat),
    t ≤ 32 / w → s.len = block * (32 / w) + t → block < s.storage.length → AbsP w s l →
    (fillLoop w block v (t * w) n s).2 = n - min n (32 / w - t) ∧
    (fillLoop w block v (t * w) n s).1.len = s.len + min n (32 / w - t) ∧
    (fillLoop w block v (t * w) n s).1.storage.length = s.storage.length ∧
    AbsP w (fillLoop w block v (t * w) n s).1 (l ++ List.replicate (min n (32 / w - t)) (v % 2 ^ w)) := by
  have hw0 : 0 < w := by omega
  intro n
  induction n with
  | zero =>
    intro t s l _ _ _ hA
    simp only [fillLoop, Nat.zero_min, Nat.sub_zero, Nat.add_zero, List.replicate_zero, List.append_nil]
    exact ⟨trivial, trivial, trivial, hA⟩
  | succ n ih =>
    intro t s l ht hlen hblk hA
    unfold fillLoop
    rw [usable_eq w hw]
    by_cases htp : t < 32 / w
    · have hlt : t * w < 32 / w * w := Nat.mul_lt_mul_of_pos_right htp hw0
      simp only [hlt, if_true]
      have ⟨hd, hm⟩ := div_mod_of_eq (32 / w) block t htp
      have hset : setByAddr w s.storage block (t * w) v = setI w s.storage s.len v := by
        unfold setI setByAddr; rw [hlen, hd, hm]
      rw [hset]
      have hA1 : AbsP w { storage := setI w s.storage s.len v, len := s.len + 1 } (l ++ [v % 2 ^ w]) := by
        apply absP_write_end w s.storage s.len l v hw
        · exact hA
        · rw [hlen, hd]; exact hblk
      have := ih (t + 1) { storage := setI w s.storage s.len v, len := s.len + 1 } (l ++ [v % 2 ^ w])
        (by omega) (by simp only; omega) (by simp only [length_setI]; exact hblk) hA1
      rw [Nat.succ_mul] at this
      obtain ⟨h1, h2, h3, h4⟩ := this
      refine ⟨by rw [h1]; omega, by rw [h2]; simp only; omega, by rw [h3, length_setI], ?_⟩
      have hk : min (n + 1) (32 / w - t) = min n (32 / w - (t + 1)) + 1 := by omega
      rw [hk, List.replicate_succ]
      simpa [List.append_assoc] using h4
    · have hge : ¬ t * w < 32 / w * w := by
        intro hc
        exact htp (Nat.lt_of_mul_lt_mul_right hc)
      simp only [hge, if_false]
      have hk : min (n + 1) (32 / w - t) = 0 := by omega
      rw [hk]
      simp only [Nat.sub_zero, Nat.add_zero, List.replicate_zero, List.append_nil]
      exact ⟨trivial, trivial, trivial, hA⟩

/-- the first block of `push_values` -/
def phase1 (w : Nat) (s : St) (n v : Nat) : St × Nat :=
  if (addr w s.len).2 > 0 then fillLoop w (addr w s.len).1 v (addr w s.len).2 n s else (s, n)

/-- the second block of `push_values` -/
def phase2 (w : Nat) (s1 : St) (n1 v : Nat) : St :=
  if n1 > 0 then
    let vb := valueBlock w v
    let i := s1.len + n1
    let st := resize s1.storage (addr w i).1 vb
    let st := if (addr w i).2 > 0 then st ++ [vb >>> (usable w - (addr w i).2)] else st
    { storage := st, len := i }
  else s1

theorem pushValues_eq (w : Nat) (s : St) (n v : Nat) :
    pushValues w s n v = phase2 w (phase1 w s n v).1 (phase1 w s n v).2 v := rfl

theorem blocks_fill (p len k : Nat) (hp : P7 p) (ht : len % p ≠ 0) (hk : k ≤ p - len % p) :
    (len + k + p - 1) / p = (len + p - 1) / p ∧ (k = p - len % p → (len + k) % p = 0) ∧
    len = len / p * p + len % p ∧ len % p ≤ p := by
  unfold P7 at hp; rcases hp with rfl | rfl | rfl | rfl | rfl | rfl | rfl <;> omega

theorem phase1_spec (w : Nat) (s : St) (l : List Nat) (n v : Nat) (hw : 1 ≤ w ∧ w ≤ 8) (h : Abs w s l) :
    ∃ k, k ≤ n ∧ (phase1 w s n v).2 = n - k ∧ Abs w (phase1 w s n v).1 (l ++ List.replicate k (v % 2 ^ w)) ∧
      ((phase1 w s n v).2 > 0 → (phase1 w s n v).1.len % (32 / w) = 0) := by
  have hp := per_cases w hw
  have hw0 : 0 < w := by omega
  obtain ⟨hP, hB⟩ := h
  simp only [specBlocks, perBlock] at hB
  unfold phase1
  rw [addr_eq w s.len hw]
  simp only
  by_cases h0 : s.len % (32 / w) = 0
  · have hbit : ¬ s.len % (32 / w) * w > 0 := by rw [h0]; simp
    simp only [hbit, if_false]
    refine ⟨0, by omega, by omega, ?_, fun _ => h0⟩
    simp only [List.replicate_zero, List.append_nil]
    exact ⟨hP, by simpa [specBlocks, perBlock] using hB⟩
  · have hbit : s.len % (32 / w) * w > 0 := Nat.mul_pos (by omega) hw0
    simp only [hbit, if_true]
    have hlt := Nat.mod_lt s.len (per_pos w hw)
    have ⟨e1, e2⟩ := blocks_succ_part _ s.len hp h0
    have hk0 : min n (32 / w - s.len % (32 / w)) ≤ 32 / w - s.len % (32 / w) := by omega
    have ⟨f1, f2, f3, f4⟩ := blocks_fill _ s.len _ hp h0 hk0
    have := fill_spec w (s.len / (32 / w)) v hw n (s.len % (32 / w)) s l (by omega) f3 (by omega) hP
    obtain ⟨h1, h2, h3, h4⟩ := this
    refine ⟨min n (32 / w - s.len % (32 / w)), by omega, h1, ⟨h4, ?_⟩, ?_⟩
    · rw [h3, h2, hB]; simp only [specBlocks, perBlock]; omega
    · intro hpos
      rw [h1] at hpos
      rw [h2]
      apply f2
      omega


/-! ### push_values, phase 2: whole blocks and the partial last block -/

theorem getD_app_left (a b : List Nat) (i : Nat) (h : i < a.length) : (a ++ b).getD i 0 = a.getD i 0 := by
  simp [List.getD_eq_getElem?_getD, List.getElem?_append_left h]

theorem getD_app_mid (a t : List Nat) (m x i : Nat) (h1 : a.length ≤ i) (h2 : i < a.length + m) :
    (a ++ List.replicate m x ++ t).getD i 0 = x := by
  rw [List.append_assoc, List.getD_eq_getElem?_getD, List.getElem?_append_right h1,
    List.getElem?_append_left (by simp; omega), List.getElem?_replicate]
  have : i - a.length < m := by omega
  simp [this]

theorem getD_app_last (a : List Nat) (m x y i : Nat) (h : i = a.length + m) :
    (a ++ List.replicate m x ++ [y]).getD i 0 = y := by
  rw [List.getD_eq_getElem?_getD, List.getElem?_append_right (by simp; omega)]
  simp [h]

theorem phase2_arith (p len1 n1 idx : Nat) (hp : P7 p) (h0 : len1 % p = 0) (hidx : idx < len1 + n1) :
    (len1 + p - 1) / p = len1 / p ∧ len1 / p ≤ (len1 + n1) / p ∧
    (len1 + n1 + p - 1) / p = (len1 + n1) / p + (if (len1 + n1) % p = 0 then 0 else 1) ∧
    (idx < len1 → idx / p < len1 / p) ∧
    (len1 ≤ idx → len1 / p ≤ idx / p ∧ idx / p ≤ (len1 + n1) / p ∧
      (idx / p = (len1 + n1) / p → idx % p < (len1 + n1) % p)) ∧ (len1 + n1) % p < p ∧ idx % p < p := by
  unfold P7 at hp; rcases hp with rfl | rfl | rfl | rfl | rfl | rfl | rfl <;> (split <;> omega)

theorem phase2_spec (w : Nat) (s1 : St) (l1 : List Nat) (n1 v : Nat) (hw : 1 ≤ w ∧ w ≤ 8) (h : Abs w s1 l1)
    (h0 : n1 > 0 → s1.len % (32 / w) = 0) :
    Abs w (phase2 w s1 n1 v) (l1 ++ List.replicate n1 (v % 2 ^ w)) := by
  have hp := per_cases w hw
  have hw0 : 0 < w := by omega
  unfold phase2
  by_cases hn : n1 > 0
  · simp only [hn, if_true]
    have h0 := h0 hn
    obtain ⟨⟨hl, hg⟩, hB⟩ := h
    simp only [specBlocks, perBlock] at hB
    rw [addr_eq w (s1.len + n1) hw]
    simp only
    have hL : s1.storage.length = s1.len / (32 / w) := by
      rw [hB]; exact (phase2_arith _ s1.len n1 0 hp h0 (by omega)).1
    have hLle := (phase2_arith _ s1.len n1 0 hp h0 (by omega)).2.1
    have hres : resize s1.storage ((s1.len + n1) / (32 / w)) (valueBlock w v)
        = s1.storage ++ List.replicate ((s1.len + n1) / (32 / w) - s1.storage.length) (valueBlock w v) := by
      unfold resize; rw [List.take_of_length_le (by omega)]
    rw [hres]
    have hceil := (phase2_arith _ s1.len n1 0 hp h0 (by omega)).2.2.1
    -- the value at every index of the new storage, in both shapes of the tail
    have key : ∀ (tail : List Nat),
        (tail = [] ∧ (s1.len + n1) % (32 / w) = 0 ∨
         tail = [valueBlock w v >>> (usable w - (s1.len + n1) % (32 / w) * w)] ∧ (s1.len + n1) % (32 / w) ≠ 0) →
        Abs w { storage := s1.storage ++ List.replicate ((s1.len + n1) / (32 / w) - s1.storage.length) (valueBlock w v) ++ tail,
                len := s1.len + n1 } (l1 ++ List.replicate n1 (v % 2 ^ w)) := by
      intro tail htail
      refine ⟨⟨by simp [hl], ?_⟩, ?_⟩
      · intro idx hidx
        simp only at hidx ⊢
        obtain ⟨_, _, _, a1, a2, a3, a4⟩ := phase2_arith _ s1.len n1 idx hp h0 hidx
        by_cases hlt : idx < s1.len
        · rw [List.getElem?_append_left (by omega)]
          rw [hg idx hlt]
          have := a1 hlt
          unfold getI
          rw [List.append_assoc, getD_app_left _ _ _ (by omega)]
        · have hge : s1.len ≤ idx := by omega
          obtain ⟨b1, b2, b3⟩ := a2 hge
          rw [List.getElem?_append_right (by omega), List.getElem?_replicate]
          have : idx - l1.length < n1 := by omega
          simp only [this, if_true, Option.some.injEq]
          unfold getI
          by_cases hblk : idx / (32 / w) < (s1.len + n1) / (32 / w)
          · rw [getD_app_mid _ _ _ _ _ (by omega) (by omega)]
            exact (slot_valueBlock w v _ hw a4).symm
          · have heq : idx / (32 / w) = (s1.len + n1) / (32 / w) := by omega
            have hmod := b3 heq
            rcases htail with ⟨_, hz⟩ | ⟨ht, hnz⟩
            · omega
            · rw [ht, getD_app_last _ _ _ _ _ (by omega)]
              have hsub : usable w - (s1.len + n1) % (32 / w) * w
                  = (32 / w - (s1.len + n1) % (32 / w)) * w := by
                rw [usable_eq w hw, Nat.sub_mul]
              rw [hsub]
              exact (slot_valueBlock_shift w v _ _ hw (by omega)).symm
      · simp only [specBlocks, perBlock, List.length_append, List.length_replicate]
        rw [hceil]
        rcases htail with ⟨ht, hz⟩ | ⟨ht, hnz⟩
        · rw [ht]; simp only [hz, if_true, List.length_nil]; omega
        · rw [ht]; simp only [hnz, if_false, List.length_cons, List.length_nil]; omega
    by_cases hz : (s1.len + n1) % (32 / w) = 0
    · have hbit : ¬ (s1.len + n1) % (32 / w) * w > 0 := by rw [hz]; simp
      simp only [hbit, if_false]
      have := key [] (Or.inl ⟨rfl, hz⟩)
      simpa using this
    · have hbit : (s1.len + n1) % (32 / w) * w > 0 := Nat.mul_pos (by omega) hw0
      simp only [hbit, if_true]
      exact key _ (Or.inr ⟨rfl, hz⟩)
  · simp only [hn, if_false]
    have : n1 = 0 := by omega
    subst this
    simpa using h

theorem abs_pushValues (w : Nat) (s : St) (l : List Nat) (n v : Nat) (hw : 1 ≤ w ∧ w ≤ 8) (h : Abs w s l) :
    Abs w (pushValues w s n v) (l ++ List.replicate n (v % 2 ^ w)) := by
  rw [pushValues_eq]
  obtain ⟨k, hk, h2, hA, hz⟩ := phase1_spec w s l n v hw h
  have := phase2_spec w _ _ (phase1 w s n v).2 v hw hA hz
  rw [h2] at this ⊢
  rw [List.append_assoc, List.replicate_append_replicate] at this
  have hkn : k + (n - k) = n := by omega
  rw [hkn] at this
  exact this

/-! ### every operation, every history -/

theorem abs_step (w : Nat) (s : St) (l : List Nat) (op : Op) (hw : 1 ≤ w ∧ w ≤ 8) (h : Abs w s l) :
    Abs w (step w s op) (specStep w l op) := by
  cases op with
  | push v => exact abs_push w s l v hw h
  | pushValues n v => exact abs_pushValues w s l n v hw h
  | set i v => exact abs_set w s l i v hw h
  | get i => exact h
  | iter => exact h
  | clear => exact abs_clear w s hw

theorem abs_run (w : Nat) (hw : 1 ≤ w ∧ w ≤ 8) (ops : List Op) : ∀ (s : St) (l : List Nat), Abs w s l →
    Abs w (ops.foldl (step w) s) (ops.foldl (specStep w) l) := by
  induction ops with
  | nil => intro s l h; exact h
  | cons op ops ih => intro s l h; exact ih _ _ (abs_step w s l op hw h)


/-! ### blocks stay 32-bit words (the `u32` of the Rust code never overflows into a 33rd bit in the model) -/

def Wf (st : List Nat) : Prop := ∀ x ∈ st, x < U32

theorem getD_lt (st : List Nat) (b : Nat) (h : Wf st) : st.getD b 0 < U32 := by
  rw [List.getD_eq_getElem?_getD]
  cases hb : st[b]? with
  | none => simp [U32]
  | some x => exact h x (List.mem_of_getElem? hb)

theorem wf_setByAddr (w : Nat) (st : List Nat) (block bit v : Nat) (h : Wf st) :
    Wf (setByAddr w st block bit v) := by
  intro x hx
  unfold setByAddr at hx
  rcases List.mem_or_eq_of_mem_set hx with hx | rfl
  · exact h x hx
  · exact rmw_lt w _ bit v (getD_lt st block h)

theorem wf_push (w : Nat) (s : St) (v : Nat) (h : Wf s.storage) : Wf (push w s v).storage := by
  unfold push
  simp only
  apply wf_setByAddr
  split
  · intro x hx
    rcases List.mem_append.mp hx with hx | hx
    · exact h x hx
    · simp at hx; subst hx; simp [U32]
  · exact h

theorem wf_fillLoop (w block v : Nat) : ∀ (n bit : Nat) (s : St), Wf s.storage →
    Wf (fillLoop w block v bit n s).1.storage := by
  intro n
  induction n with
  | zero => intro bit s h; simpa [fillLoop] using h
  | succ n ih =>
    intro bit s h
    unfold fillLoop
    split
    · exact ih _ _ (wf_setByAddr w _ _ _ _ h)
    · exact h

theorem wf_pushValues (w : Nat) (s : St) (n v : Nat) (hw : 1 ≤ w ∧ w ≤ 8) (h : Wf s.storage) :
    Wf (pushValues w s n v).storage := by
  rw [pushValues_eq]
  have h1 : Wf (phase1 w s n v).1.storage := by
    unfold phase1
    split
    · exact wf_fillLoop w _ v n _ s h
    · exact h
  generalize (phase1 w s n v).1 = s1 at h1
  generalize (phase1 w s n v).2 = n1
  unfold phase2
  split
  · simp only
    have hvb := valueBlock_lt w v hw
    have hres : Wf (resize s1.storage (addr w (s1.len + n1)).1 (valueBlock w v)) := by
      intro x hx
      unfold resize at hx
      rcases List.mem_append.mp hx with hx | hx
      · exact h1 x (List.mem_of_mem_take hx)
      · rw [List.mem_replicate] at hx; rw [hx.2]; exact hvb
    split
    · intro x hx
      rcases List.mem_append.mp hx with hx | hx
      · exact hres x hx
      · simp only [List.mem_singleton] at hx
        subst hx
        exact Nat.lt_of_le_of_lt (Nat.shiftRight_le _ _) hvb
    · exact hres
  · exact h1

theorem wf_step (w : Nat) (s : St) (op : Op) (hw : 1 ≤ w ∧ w ≤ 8) (h : Wf s.storage) :
    Wf (step w s op).storage := by
  cases op with
  | push v => exact wf_push w s v h
  | pushValues n v => exact wf_pushValues w s n v hw h
  | set i v => exact wf_setByAddr w _ _ _ _ h
  | get i => exact h
  | iter => exact h
  | clear => intro x hx; simp [step, clear] at hx

theorem wf_run (w : Nat) (hw : 1 ≤ w ∧ w ≤ 8) (ops : List Op) : ∀ (s : St), Wf s.storage →
    Wf (ops.foldl (step w) s).storage := by
  induction ops with
  | nil => intro s h; exact h
  | cons op ops ih => intro s h; exact ih _ (wf_step w s op hw h)

end RbV.Lemmas.BitEnc
