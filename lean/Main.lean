import RbV.Basic.Codec
import RbV.Drv.C01
import RbV.Drv.C02
import RbV.Drv.C03
import RbV.Drv.C04
import RbV.Drv.C05
import RbV.Drv.C06
import RbV.Drv.C07
import RbV.Drv.C08
import RbV.Drv.C09
import RbV.Drv.C10
import RbV.Drv.C11
import RbV.Drv.C12
import RbV.Drv.C13
import RbV.Drv.C14
import RbV.Drv.C15
import RbV.Drv.C16
import RbV.Drv.C17
import RbV.Drv.C18
import RbV.Drv.C19
import RbV.Drv.C20
/-! `rbdriver`: reads protocol lines `cNN <input tokens> => <observed output>` on stdin and answers
one verdict per line: `ok [tags]` | `reject <reason>` | `diff <expected>` | `bad-op <why>`.
Imports nothing outside core Lean (so that it links as an executable). -/
open RbV

def dispatch (line : String) : String :=
  match Codec.splitLine line with
  | none => "bad-op no-arrow"
  | some ([], _) => "bad-op empty"
  | some (p :: toks, out) =>
    match p with
    | "c01" => Drv.C01.verdict toks out
    | "c02" => Drv.C02.verdict toks out
    | "c03" => Drv.C03.verdict toks out
    | "c04" => Drv.C04.verdict toks out
    | "c05" => Drv.C05.verdict toks out
    | "c06" => Drv.C06.verdict toks out
    | "c07" => Drv.C07.verdict toks out
    | "c08" => Drv.C08.verdict toks out
    | "c09" => Drv.C09.verdict toks out
    | "c10" => Drv.C10.verdict toks out
    | "c11" => Drv.C11.verdict toks out
    | "c12" => Drv.C12.verdict toks out
    | "c13" => Drv.C13.verdict toks out
    | "c14" => Drv.C14.verdict toks out
    | "c15" => Drv.C15.verdict toks out
    | "c16" => Drv.C16.verdict toks out
    | "c17" => Drv.C17.verdict toks out
    | "c18" => Drv.C18.verdict toks out
    | "c19" => Drv.C19.verdict toks out
    | "c20" => Drv.C20.verdict toks out
    | _ => "bad-op unknown-property"

partial def loop (h : IO.FS.Stream) (out : IO.FS.Stream) : IO Unit := do
  let line ← h.getLine
  if line.isEmpty then return ()
  let l := (line.dropEndWhile (fun c => c = '\n' || c = '\r')).toString
  out.putStrLn (dispatch l)
  loop h out

def main : IO Unit := do
  let out ← IO.getStdout
  loop (← IO.getStdin) out
  out.flush
