import RbV.Basic.Codec
import RbV.Spec.Occ
