#!/usr/bin/env python3
"""Dialect "fx" of the Rust→Lean translator (builder genfx): the line-oriented FASTA / FASTQ readers and writers
(`src/io/fasta.rs`, `src/io/fastq.rs`; property C11).

Built on the sub-dialect "io" of `tools/rs2lean_cf.py` (class `IoFn`: continuation style, `io::Result` as `Except IoErr`,
`?` / `return` anywhere, `&mut` outputs returned on every path, abstract operations on an opaque reader), imported and
subclassed — not copied, not edited.  Semantics added: `lean/RbV/Basic/RsSemGenfx.lean`.  What this dialect adds:

* **strings as byte lists**: `String`, `&str` (type tag "str"), `TextSlice`, `&[u8]` are `List Nat`.  `char` literals `'>'`
  and byte strings `b"\\n+\\n"` are tokens of their own (the base tokenizer has neither).  Methods: `is_empty`, `len`, `clear`,
  `push_str`, `starts_with(<ASCII char>)` (`Rs.startsWithByte`), `s[a..]` / `s[..b]` / `s[a..b]` (`Rs.strFrom` / `Rs.strSlice`:
  panic off a char boundary), `as_bytes` / `as_ref` / `as_str` / `to_owned` / `to_string` (identity), `is_ascii`,
  `trim_end_matches(c)` / `trim_start_matches(c)` for an ASCII literal, `chunks(n)` (`Rs.chunks`: `n = 0` panics).
  `trim_end()` and `splitn(2, char::is_whitespace)` depend on Unicode code points: they are **abstract operations**
  (`trimEnd`, `splitWs`) the spec of the function must list.
* **patterns as definitions**: `s.splitn(2, ' ')` or `s.splitn(2, |c: char| c == ' ' || c == '\\t')` — a `char` literal or a
  closure that only compares its parameter with ASCII literals — becomes `Rs.splitn2 <fn>_pat<k> s` with the predicate emitted
  as the separate definition `<fn>_pat<k> : Nat → Bool`; the equality proofs use of it only what the property's domain fixes.
  The iterator is the list of its items (`Rs.splitnItems`), `it.next()` pops its head.
* **records as split variables**: a local / parameter of a struct type of the spec (`split_structs`) is represented by one
  variable per field (`record.id`, `record.seq`, …), so that field assignment is plain assignment; `record` as a value is the
  structure literal; a sibling method `record.clear()` / `self.reader.read(&mut record)` gets and returns the fields.
* **error enums**: `io_enums` of the unit are emitted as Lean `inductive`s; `Result<T>` of the file (`result_err`) is
  `Except <Enum> T`, `Result<(), &str>` is `Except String Unit`; `e?` on an `io::Result` inside a function that returns the
  file's `Result` converts through the `#[from]` variant the spec names (`from_io`, its declaration is pinned);
  `.map_err(Error::Variant)`.
* **loops**: `loop { … break … }`, `while c { … }` (helpers `<fn>_loop<k>` on the ghost fuel), `for x in <list>` / `for _ in a..b`
  (helpers `<fn>_for<k>` by structural recursion on the list of items), all with `?` / `return` / `break` inside;
  `xs.try_for_each(|x| -> io::Result<()> { …; Ok(()) })` (helper `<fn>_each<k>`: the closure's `?` ends the iteration).
* `match` arms with **guards** (`Ok(()) if record.is_empty() => …` followed by the same pattern or `_`), the patterns `Ok(())`,
  `Err(e)`, `Some(x)`, `None`; `opt.map(|s| s.to_owned())`, `unwrap`, `unwrap_or_default`, `x == None`.
* abstract operations with **`&mut` arguments** (`self.reader.read_line(&mut self.line)`).
* static sibling functions (`Record::new()`), sibling methods returning values (`self.id()`).
* **private helper methods found in the source** (`auto_spec`): `self.<name>(…)` that is neither a sibling of the spec nor an
  abstract operation is looked up as `fn <name>(&mut self, …)` in the file (exactly one match), its spec is derived from the
  caller's (fields, operations, ghosts, `self` outputs; parameters / return type from the header; `&mut` parameters are
  outputs) and it is translated on the fly into `<camelCase name>` in front of the caller.

`python3 tools/rs2lean_genfx.py --selftest [--lean]` translates a synthetic reader/writer pair and checks refusals.
"""
import sys, os, re

sys.path.insert(0, os.path.dirname(os.path.abspath(__file__)))
import rs2lean_cfbase as rs
import rs2lean_cf as cf
from rs2lean_cf import IoFn, IoParser, IoVar, N, Unsupported, io_paren, io_tuple, io_ty_eq, io_emit, io_has_jump, walk, strip, atom

U8 = ("int", "u8")
STR = ("list", U8, "str")
BYTES = ("list", U8)
UNIT = ("unit",)


def is_str(t):
    return t is not None and len(t) == 3 and t[0] == "list" and t[2] == "str"


_orig_lean_ty = cf.io_lean_ty


def fx_lean_ty(t):
    """`io_lean_ty` of rs2lean_cf extended by the types of this dialect (installed only while a unit of this module is
    being translated, see `translate_unit`)"""
    k = t[0]
    if k == "res" and len(t) >= 3:
        return "Except %s %s" % (t[2], io_paren(fx_lean_ty(t[1]))) if t[1] is not None else "Except %s Unit" % t[2]
    if k == "enum":
        return t[2] if len(t) > 2 else t[1]
    if k == "strlit":
        return "String"
    if k == "list" and len(t) == 3:
        return "List " + io_paren(fx_lean_ty(t[1]))
    if k == "int" and t[1] == "char":
        return "Nat"
    return _orig_lean_ty(t)


PURE_METHODS = ("len", "is_empty", "clone", "is_some", "is_none", "starts_with", "is_ascii", "as_bytes", "as_ref", "as_str",
                "to_owned", "trim_end", "trim_end_matches", "trim_start_matches")


def fx_effectful(n):
    """can evaluating the expression panic, return, or change a variable?  (conservative)"""
    found = []

    def f(x):
        if x.kind in ("index", "call", "try", "macro", "blockx", "if", "iflet", "match", "assign", "cast"):
            found.append(x.kind)
        elif x.kind == "mcall" and x.name not in PURE_METHODS:
            found.append(x.kind)
        elif x.kind == "bin" and x.op in ("+", "-", "*", "/", "%", "<<", ">>"):
            found.append(x.kind)
    walk(n, f)
    return bool(found)


def err_of(t):
    """error type (Lean name) of a result type"""
    return t[2] if len(t) >= 3 else "IoErr"


def mk_res(inner, err):
    return ("res", inner) if err == "IoErr" else ("res", inner, err)


# ================================================================================================== tokens, parser

TOKEN_RX = re.compile(r"""
    (?P<ws>\s+)
  | (?P<byte>b'(?:\\.|[^\\'])')
  | (?P<bstr>b"(?:\\.|[^"\\])*")
  | (?P<str>"(?:\\.|[^"\\])*")
  | (?P<char>'(?:\\(?:x[0-9a-fA-F]{2}|u\{[0-9a-fA-F]+\}|.)|[^\\'])')
  | (?P<num>(?:0x[0-9a-fA-F_]+|0b[01_]+|0o[0-7_]+|[0-9][0-9_]*)(?:(?:u8|u16|u32|u64|usize|i8|i16|i32|i64|isize))?)
  | (?P<id>[A-Za-z_][A-Za-z0-9_]*)
  | (?P<life>'[A-Za-z_][A-Za-z0-9_]*)
  | (?P<op><<=|>>=|\.\.=|\.\.|::|->|=>|==|!=|<=|>=|&&|\|\||\+=|-=|\*=|/=|%=|&=|\|=|\^=|<<|>>|[-+*/%&|^!<>=.,;:(){}\[\]\#?@])
""", re.X)

ESC = {"n": 10, "r": 13, "t": 9, "\\": 92, "0": 0, "'": 39, '"': 34}


def tokenize(text, base):
    toks, i, n = [], 0, len(text)
    while i < n:
        m = TOKEN_RX.match(text, i)
        if not m:
            raise Unsupported("cannot tokenise `%s`" % text[i:i + 12].split("\n")[0], base + i)
        i = m.end()
        if m.lastgroup == "ws":
            continue
        toks.append(rs.Tok(m.lastgroup, m.group(0), base + m.start()))
    toks.append(rs.Tok("eof", "<end of function>", base + n))
    return toks


def unescape(body, pos):
    """bytes of the inside of a char / byte-string literal"""
    out, i = [], 0
    while i < len(body):
        c = body[i]
        if c != "\\":
            out.extend(c.encode("utf8"))
            i += 1
            continue
        d = body[i + 1]
        if d in ESC:
            out.append(ESC[d])
            i += 2
        elif d == "x":
            out.append(int(body[i + 2:i + 4], 16))
            i += 4
        elif d == "u":
            j = body.index("}", i)
            out.extend(chr(int(body[i + 3:j], 16)).encode("utf8"))
            i = j + 1
        else:
            raise Unsupported("escape `\\%s` in a literal" % d, pos)
    return out


class FxParser(IoParser):
    def expect(self, text):
        # `self.x = e` as the last statement of a function body without its `;`
        if text == ";" and self.peek().kind == "eof":
            return self.peek()
        return IoParser.expect(self, text)

    def primary(self, no_struct):
        x = self.peek()
        if x.kind == "char":
            self.next()
            bs = unescape(x.text[1:-1], x.pos)
            return N("charlit", x.pos, bytes=bs, text=x.text)
        if x.kind == "bstr":
            self.next()
            return N("bstr", x.pos, bytes=unescape(x.text[2:-1], x.pos))
        if x.kind == "op" and x.text == "[":
            # array literal `[a, b]` (the base parser only knows `[v; n]`)
            save = self.i
            self.next()
            items = []
            while not self.at("]"):
                items.append(self.expr())
                if self.at(","):
                    self.next()
                elif not self.at("]"):
                    self.i = save
                    return IoParser.primary(self, no_struct)
            self.next()
            return N("array", x.pos, items=items)
        return IoParser.primary(self, no_struct)

    def match_pat(self):
        x = self.peek()
        if x.kind == "char":
            return self.primary(False)
        return IoParser.match_pat(self)

    def pattern(self):
        # `Enum::Variant`, `Enum::Variant(p, …)`
        x = self.peek()
        if x.kind == "id" and self.at("::", 1) and self.peek(2).kind == "id":
            path = [self.next().text]
            while self.at("::") and self.peek(1).kind == "id":
                self.next()
                path.append(self.next().text)
            if self.at("("):
                self.next()
                items = []
                while not self.at(")"):
                    items.append(self.pattern())
                    if self.at(","):
                        self.next()
                self.expect(")")
                return N("pctor", x.pos, name="::".join(path), items=items)
            return N("ppath", x.pos, path=path)
        return IoParser.pattern(self)

    def stmt0(self):
        x = self.peek()
        if x.kind == "id" and x.text == "loop" and self.at("{", 1):
            self.next()
            return N("loop", x.pos, body=self.block())
        return IoParser.stmt0(self)

    def closure(self):
        x = self.next()
        params = []
        if x.text == "|":
            while not self.at("|"):
                params.append(self.pattern())
                if self.at(":"):
                    self.next()
                    self.type_()
                if self.at(","):
                    self.next()
            self.expect("|")
        if self.at("->"):
            self.next()
            self.type_()
        if self.at("{"):
            body = self.block()
        else:
            e = self.expr()
            body = N("block", e.pos, stmts=[], tail=e)
        return N("closure", x.pos, params=params, body=body)

    def type_(self):
        # paths (`io::Result<()>`) and lifetimes in closure annotations
        if self.peek().kind == "id" and self.at("::", 1):
            while self.peek().kind == "id" and self.at("::", 1):
                self.next()
                self.next()
        return IoParser.type_(self)

    def match_(self):
        x = self.expect("match")
        scrut = self.expr(no_struct=True)
        self.expect("{")
        raw = []
        while not self.at("}"):
            i0 = self.i
            pats = [self.match_pat()]
            while self.at("|"):
                self.next()
                pats.append(self.match_pat())
            ptxt = " ".join(t.text for t in self.t[i0:self.i])
            guard = None
            if self.at("if"):
                self.next()
                guard = self.expr(no_struct=True)
            self.expect("=>")
            if self.at("{"):
                body = self.block()
            elif self.at("return"):
                r = self.next()
                rv = None if (self.at(",") or self.at("}")) else self.expr()
                body = N("block", r.pos, stmts=[N("return", r.pos, e=rv)], tail=None)
            else:
                e = self.expr()
                body = N("block", e.pos, stmts=[], tail=e)
            if self.at(","):
                self.next()
            raw.append((pats, ptxt, guard, body))
        self.expect("}")
        # `P if g => A, …, P => B` (or `_ => B`): the guarded arm is `P => if g { A } else { B }`
        arms, dropped = [], set()
        for i, (pats, ptxt, guard, body) in enumerate(raw):
            if i in dropped:
                continue
            if guard is None:
                arms.append((pats, body))
                continue
            els = None
            if i + 1 < len(raw) and raw[i + 1][2] is None:
                # only the arm that directly follows is considered: an arm in between could match as well
                if raw[i + 1][1] == ptxt:
                    els = raw[i + 1][3]
                    dropped.add(i + 1)
                elif raw[i + 1][1] == "_":
                    els = raw[i + 1][3]
            if els is None:
                raise Unsupported("`match` arm with a guard that is not directly followed by an unguarded arm with the same pattern or `_`", guard.pos)
            arms.append((pats, N("block", body.pos, stmts=[], tail=N("if", guard.pos, cond=guard, then=body, els=els))))
        return N("match", x.pos, scrut=scrut, arms=arms)


# ================================================================================================== translator

class FxFn(IoFn):
    def __init__(self, unit, fspec, src, body_text, body_pos):
        IoFn.__init__(self, unit, fspec, src, body_text, body_pos)
        self.n_loop = self.n_for = self.n_each = self.n_pat = 0
        self.split_structs = unit.get("split_structs", [])
        self.enums = unit.get("io_enums", {})
        self.split_vars = {}          # rust variable -> struct name

    # ---------------------------------------------------------------- types
    def _pty(self, toks, i):
        t = toks[i]
        if t.text == "[":
            el, j = self._pty(toks, i + 1)
            if toks[j].text == ";":
                j += 1
                while toks[j].text != "]":
                    j += 1
            if toks[j].text != "]":
                raise Unsupported("array type in the translation spec")
            return ("list", el), j + 1
        if t.kind == "id":
            path = [t.text]
            j = i + 1
            while toks[j].text == "::" and toks[j + 1].kind == "id":
                path.append(toks[j + 1].text)
                j += 2
            name = path[-1]
            if name in ("String", "str") and toks[j].text != "<":
                return STR, j
            if name == "char":
                return ("int", "char"), j
            if name == "TextSlice":
                if toks[j].text == "<":
                    while toks[j].text != ">":
                        j += 1
                    j += 1
                return BYTES, j
            if name in self.structs and self.structs[name].get("tuple"):
                if toks[j].text == "<":
                    _, j = self._targs(toks, j)
                return ("tuple", [self.parse_ty(ft) for _, ft in self.structs[name]["fields"]]), j
            if name == "Error" and len(path) >= 2 and path[-2] == "io":
                return ("ioerr",), j
            gens_full = dict(self.unit.get("generics", {}))
            if "::".join(path) in gens_full and len(path) > 1:
                if toks[j].text == "<":
                    _, j = self._targs(toks, j)
                return ("abs", gens_full["::".join(path)]), j
            if name in self.enums:
                if toks[j].text == "<":
                    j0 = j
                    depth = 0
                    while True:
                        if toks[j].text == "<":
                            depth += 1
                        elif toks[j].text == ">":
                            depth -= 1
                        j += 1
                        if depth == 0:
                            break
                return self.enum_ty(name), j
            if name == "Result" and toks[j].text == "<":
                args, j = self._targs(toks, j)
                if len(args) == 2:
                    e = args[1]
                    if is_str(e):
                        return ("res", args[0], "String"), j
                    if e[0] == "enum":
                        return ("res", args[0], e[1]), j
                    if e[0] == "ioerr":
                        return ("res", args[0]), j
                    return ("res", args[0], "(" + fx_lean_ty(e) + ")", e), j
                if len(args) != 1:
                    raise Unsupported("`Result` with %d type arguments" % len(args))
                if len(path) >= 2 and path[-2] == "io":
                    return ("res", args[0]), j
                re_ = self.unit.get("result_err", "IoErr")
                if re_ in self.enums and self.enums[re_].get("lean"):
                    return ("res", args[0], self.enums[re_]["lean"], self.enum_ty(re_)), j
                return mk_res(args[0], re_), j
        return IoFn._pty(self, toks, i)

    def enum_ty(self, name):
        ed = self.enums[name]
        return ("enum", name, ed["lean"]) if ed.get("lean") else ("enum", name)

    def enum_ctor(self, name, vn):
        return self.enums[name].get("ctors", {}).get(vn, "%s.%s" % (name, vn))

    def _targs(self, toks, j):
        args = []
        j += 1
        while toks[j].text != ">":
            if toks[j].kind == "life":
                j += 1
            else:
                x, j = self._pty(toks, j)
                args.append(x)
            if toks[j].text == ",":
                j += 1
        return args, j + 1

    # ---------------------------------------------------------------- environment
    def fresh(self, env, base):
        nm = rs.lean_name(base)
        if nm in ("id", "next", "rest_", "gas"):
            base = nm + "_"
        return IoFn.fresh(self, env, base)

    def struct_fields(self, sname):
        return [(f, self.parse_ty(ft)) for f, ft in self.structs[sname]["fields"]]

    def declare_split(self, env, name, sname, node):
        """declare one variable per field of the struct; returns (env, lean names)"""
        leans = []
        for f, ft in self.struct_fields(sname):
            env, l = self.declare(env, name + "." + f, ft, node)
            leans.append(l)
        self.split_vars[name] = sname
        return env, leans

    def split_of(self, path, env):
        """struct name when `path` names a split variable that is in scope"""
        for sname in self.split_structs:
            fs = [f for f, _ in self.structs[sname]["fields"]]
            if all((path + "." + f) in env for f in fs) and self.split_vars.get(path, sname) == sname:
                return sname
        return None

    def sibling(self, name, static=None, rp=None, env=None):
        """the translated sibling function a call `recv.name(…)` / `Type::name(…)` refers to.  A method sibling needs a
        receiver path `rp` that is not itself a variable and under which all the fields the callee reads are variables
        (`self.line.clear()` is the `String` method, `record.clear()` the sibling)."""
        if getattr(self, "_no_sib", False) or name not in self.spec.get("siblings", []):
            return None
        if static is None:
            if rp is None or env is None or rp in env:
                return None
        for f in self.unit["functions"]:
            parts = f["name"].split("::")
            if parts[-1] == name and (static is None or parts[0] == static):
                if f.get("static", False) != (static is not None):
                    continue
                if static is None and not all((rp + "." + nm) in env for nm, _ in f.get("self_fields", [])):
                    continue
                return f
        return None

    def sibling_or_auto(self, name, rp, env):
        sib = self.sibling(name, rp=rp, env=env)
        if sib is None and rp == "self" and not getattr(self, "_no_sib", False) and self.op_for_method(name) is None:
            sib = self.auto_spec(name)
        return sib

    def op_for_method(self, name, recv_ty=None):
        cands = [(o, self.ops[o]) for o in self.fn_ops if self.ops.get(o) and self.ops[o].get("method") == name]
        if len(cands) > 1 and recv_ty is not None:
            typed = [(o, d) for o, d in cands if d.get("recv") and self.parse_ty(d["recv"]) == recv_ty]
            if typed:
                return typed[0]
        if cands and cands[0][1].get("recv") and recv_ty is not None and self.parse_ty(cands[0][1]["recv"]) != recv_ty:
            return None
        return cands[0] if cands else None

    # ---------------------------------------------------------------- private helper methods found in the source
    def auto_spec(self, name):
        """`self.<name>(…)` where `<name>` is no sibling of the spec: a private helper method `fn <name>(&mut self, …)` that
        occurs exactly once in the file is translated on the fly.  Its spec is derived: the `self` fields, abstract
        operations, ghosts and `self` outputs of the caller; parameters and return type from its header; `&mut`
        parameters are outputs.  (A refactoring that moves statements into a helper then still translates.)"""
        if not self.unit.get("auto_helpers", True) or self.spec.get("auto"):
            return None
        reg = self.unit.setdefault("_auto", {})
        if name in reg:
            return reg[name]
        rx = r"(?<![\w])fn\s+%s\s*\(\s*&\s*(?:mut\s+)?self\s*(?:,(?P<ps>[^)]*))?\)\s*(?:->\s*(?P<ret>[^{;]+?))?\s*\{" % re.escape(name)
        code = getattr(self.unit.get("_src_all"), "code", None) or self.src.code
        ms = list(re.finditer(rx, code))
        if len(ms) != 1:
            reg[name] = None
            return None
        m = ms[0]
        params = []
        depth, cur = 0, ""
        for ch in (m.group("ps") or ""):
            if ch in "<([":
                depth += 1
            elif ch in ">)]":
                depth -= 1
            if ch == "," and depth == 0:
                params.append(cur)
                cur = ""
            else:
                cur += ch
        params.append(cur)
        plist = []
        for ptxt in params:
            ptxt = ptxt.strip()
            if not ptxt:
                continue
            pn, _, pt = ptxt.partition(":")
            pn = pn.replace("mut ", "").strip()
            plist.append((pn, " ".join(pt.split())))
        lean = "".join(w.capitalize() if i else w for i, w in enumerate(name.split("_")))
        spec = dict(name="<helper>::" + name, lean=lean, header=" ".join(m.group(0)[:-1].split()),
                    self_fields=list(self.spec.get("self_fields", [])), params=plist,
                    ret=(" ".join(m.group("ret").split()) if m.group("ret") else None),
                    outs=[o for o in self.spec.get("outs", []) if o.startswith("self.")]
                         + [pn for pn, pt in plist if pt.replace(" ", "").startswith("&mut")],
                    ops=list(self.fn_ops), ghosts=list(self.ghosts), fuel=self.spec.get("fuel") or [],
                    siblings=list(self.spec.get("siblings", [])), locals=dict(self.spec.get("locals", {})),
                    auto=True, _match=m, _emitted=False)
        reg[name] = spec
        return spec

    def auto_emit(self, spec, node):
        if spec["_emitted"]:
            return
        spec["_emitted"] = True
        m = spec["_match"]
        src = self.unit.get("_src_all") or self.src
        start = m.end()
        depth, i = 1, start
        code = src.code
        while i < len(code) and depth:
            if code[i] == "{":
                depth += 1
            elif code[i] == "}":
                depth -= 1
            i += 1
        body = code[start:i - 1]
        tr = FxFn(self.unit, spec, src, body, start)
        helpers, main, _, _ = tr.translate(tokenize(body, start))
        for h in helpers:
            self.helpers.append(h)
        self.helpers.append("/-- private helper `%s` (found in the source, line %d) -/\n%s"
                            % (spec["header"].replace("-/", "- /"), src.line_of(m.start()), main))
        self.unit.setdefault("_auto_snippets", {})[spec["name"]] = m.group(0) + body + "}"

    def assigned(self, node, env):
        self._no_sib = True
        try:
            out = set(IoFn.assigned(self, node, env))
        finally:
            self._no_sib = False

        def key_of(e):
            p = self.path_of(e)
            r = self.resolve(p, env) if p else None
            return r[0] if r and not r[1] else None

        def f(x):
            if x.kind == "mcall":
                if x.name in ("push_str", "next"):
                    k = key_of(x.recv)
                    if k:
                        out.add(k)
                opm = self.op_for_method(x.name)
                if opm is not None:
                    for a, spec in zip(x.args, opm[1].get("args", [])):
                        if isinstance(spec, dict) and spec.get("mut"):
                            k = key_of(a)
                            if k:
                                out.add(k)
                rp = self.path_of(x.recv)
                sib = self.sibling_or_auto(x.name, rp, env)
                if sib is not None and rp is not None:
                    for kk in self.sib_out_keys(sib, rp, x.args, env, None):
                        out.add(kk)
            elif x.kind == "closure":
                # a closure of `try_for_each` assigns what its body assigns
                for kk in self.assigned(x.body, env):
                    out.add(kk)
                return False
        walk(node, f)
        return [k for k in env if k in out]

    def reads(self, node, env):
        self._no_sib = True
        try:
            out = set(IoFn.reads(self, node, env))
        finally:
            self._no_sib = False

        def f(x):
            if x.kind == "var":
                sn = self.split_of(x.name, env)
                if sn:
                    for fld, _ in self.structs[sn]["fields"]:
                        out.add(x.name + "." + fld)
            elif x.kind == "mcall":
                rp = self.path_of(x.recv)
                sib = self.sibling_or_auto(x.name, rp, env)
                if sib is not None and rp is not None:
                    for nm, _ in sib.get("self_fields", []):
                        if rp + "." + nm in env:
                            out.add(rp + "." + nm)
        walk(node, f)
        return [k for k in env if k in out]

    # ---------------------------------------------------------------- returning
    def ret_tree(self, val, env, node=None):
        if self.loop_ctx and self.loop_ctx[-1].get("kind") == "closure":
            st = [env[x].lean for x in self.loop_ctx[-1]["state"]]
            return ("pure", io_tuple([val] + st))
        return IoFn.ret_tree(self, val, env, node)

    # ---------------------------------------------------------------- expressions
    def ev(self, e, env, k, want=None):
        kd = e.kind
        if kd == "charlit":
            if len(e.bytes) != 1 or e.bytes[0] >= 128:
                self.err("non-ASCII `char` literal %s" % e.text, e)
            return k(str(e.bytes[0]), ("int", "char"), env)
        if kd == "bstr":
            return k("[" + ", ".join(str(b) for b in e.bytes) + "]", BYTES, env)
        if kd == "array":
            el = want[1] if want is not None and want[0] == "list" else None
            return self.ev_list(e.items, env, lambda vs, e2: k("[" + ", ".join(v for v, _ in vs) + "]",
                                                                  ("list", el if el is not None else (vs[0][1] if vs else None)), e2),
                                [el] * len(e.items))
        if kd == "un" and e.op == "-" and strip(e.e).kind == "lit" and want is not None and want[0] == "int" \
                and want[1] and want[1][0] == "i":
            return k("(-%d : Int)" % strip(e.e).v, want, env)
        if kd == "str" and want is not None and want[0] == "list":
            bs = unescape(e.text[1:-1], e.pos)
            return k("([%s] : List Nat)" % ", ".join(str(b) for b in bs), STR, env)
        if kd == "str":
            if "\\" in e.text:
                self.err("string literal with escapes as a value", e)
            return k(e.text, ("strlit",), env)
        if kd == "var" and e.name == "self" and "self" not in env and self.spec.get("self_fields"):
            fs = [env["self." + f[0]] for f in self.spec["self_fields"]]
            return k(io_tuple([v.lean for v in fs]), ("tuple", [v.ty for v in fs]), env)
        if kd == "var" and e.name not in env:
            sn = self.split_of(e.name, env)
            if sn is not None:
                parts = ["%s := %s" % (rs.lean_name(f), env[e.name + "." + f].lean) for f, _ in self.structs[sn]["fields"]]
                return k("({ " + ", ".join(parts) + " } : %s)" % sn, ("struct", sn), env)
        if kd == "path":
            if len(e.path) == 2 and e.path[0] in self.enums:
                for vn, vargs in self.enums[e.path[0]]["variants"]:
                    if vn == e.path[1] and not vargs:
                        return k(self.enum_ctor(e.path[0], vn), self.enum_ty(e.path[0]), env)
            if len(e.path) >= 2 and e.path[-2] == "ErrorKind":
                return k("\"%s\"" % e.path[-1], ("strlit",), env)
            self.err("path `%s` as a value" % "::".join(e.path), e)
        if kd == "try":
            if self.ret_ty[0] != "res":
                self.err("`?` in a function that does not return a `Result`", e)

            def ktry(v, t, e2):
                if t[0] != "res":
                    self.err("`?` on a value of type %r" % (t,), e)
                x, er = self.tmp(), "e"
                src_err, dst_err = err_of(t), err_of(self.ret_ty)
                if src_err == dst_err:
                    conv = er
                elif src_err == "IoErr" and self.enums.get(dst_err, {}).get("from_io"):
                    conv = "(%s.%s %s)" % (dst_err, self.enums[dst_err]["from_io"], er)
                else:
                    self.err("`?` converts an error of type %s into %s: no `From` conversion in the spec" % (src_err, dst_err), e)
                err_val = "(Except.error %s : %s)" % (conv, cf.io_lean_ty(self.ret_ty))
                return ("match", v, [(".error " + er, self.ret_tree(err_val, e2, e)), (".ok " + x, k(x, t[1], e2))])
            return self.ev(e.e, env, ktry)
        return IoFn.ev(self, e, env, k, want)

    def index(self, e, env, k):
        def kb(b, bt, e2):
            if not is_str(bt) or e.idx.kind != "range":
                return IoFn.index(self, e, e2, k)
            lo, hi = e.idx.lo, e.idx.hi
            if e.idx.incl:
                self.err("`..=` slice of a `str`", e)
            bounds = [x for x in (lo, hi) if x is not None]

            def ks(vs, e3):
                it = iter(vs)
                l = next(it)[0] if lo is not None else "0"
                t = self.tmp()
                if hi is None:
                    return ("bind", t, "Rs.strFrom %s %s" % (io_paren(b), io_paren(l)), k(t, STR, e3))
                h = next(it)[0]
                return ("bind", t, "Rs.strSlice %s %s %s" % (io_paren(b), io_paren(l), io_paren(h)), k(t, STR, e3))
            return self.ev_list(bounds, e2, ks, [("int", "usize")] * len(bounds))
        return self.ev(e.base, env, kb)

    def res_ty_for(self, want):
        if want is not None and want[0] == "res":
            return want
        return None

    def call(self, e, env, k, want):
        path = e.path
        if path == ["Ok"] and len(e.args) == 1:
            w = self.res_ty_for(want) or (self.ret_ty if self.ret_ty[0] == "res" else None)
            inner_w = w[1] if w is not None else None

            def kok(v, t, e2):
                inner = self.concrete(t, inner_w) if (t is not None and t[0] == "int") else (inner_w if inner_w is not None else t)
                ty = mk_res(inner, err_of(w) if w is not None else "IoErr")
                return k("(Except.ok %s : %s)" % (io_paren(v), cf.io_lean_ty(ty)), ty, e2)
            return self.ev(e.args[0], env, kok, inner_w)
        if path == ["Err"] and len(e.args) == 1:
            w = self.res_ty_for(want) or (self.ret_ty if self.ret_ty[0] == "res" else None)

            def kerr(v, t, e2):
                if w is None or w[1] is None:
                    self.err("`Err(…)` whose result type cannot be read off the context", e)
                return k("(Except.error %s : %s)" % (io_paren(v), cf.io_lean_ty(w)), w, e2)
            return self.ev(e.args[0], env, kerr)
        if "::".join(path) in self.unit.get("abs_ctors", {}) and len(e.args) == 1:
            opn = self.unit["abs_ctors"]["::".join(path)]
            self.need_op(opn, e)
            ret = self.parse_ty(self.ops[opn]["ret"])
            return self.ev(e.args[0], env, lambda v, t, e2: k("%s %s" % (opn, io_paren(v)), ret, e2))
        if path == ["String", "new"] and not e.args:
            return k("([] : List Nat)", STR, env)
        if path[-2:] == ["mem", "replace"] and len(e.args) == 2:
            key = self.lvalue_key(e.args[0], env, e)
            var = env[key]

            def kmr(v, t, e2):
                old = self.tmp()
                cur = e2[key]
                e3 = dict(e2)
                e3[key] = IoVar(cur.lean, cur.ty, cur.depth, cur.mutable)
                return ("let", old, cur.lean, ("let", cur.lean, v, k(old, cur.ty, e3)))
            return self.ev(e.args[1], env, kmr, var.ty)
        if path == ["char", "from"] and len(e.args) == 1:
            def kcf(v, t, e2):
                if t != U8 and not (t[0] == "int" and t[1] in ("u8", None)):
                    self.err("`char::from` of %r" % (t,), e)
                return k(v, ("int", "char"), e2)
            return self.ev(e.args[0], env, kcf, U8)
        if len(path) >= 2 and path[-2:] == ["Error", "new"] and len(e.args) == 2 and e.args[1].kind == "macro" \
                and e.args[1].name == "format" and e.args[1].args and e.args[1].args[0].kind == "str":
            kind, msg = e.args
            if kind.kind != "path" or kind.path[-2:-1] != ["ErrorKind"]:
                self.err("`io::Error::new` with a kind that is not `io::ErrorKind::<Name>`", e)
            fargs = msg.args[1:]
            return self.ev_list(fargs, env, lambda vs, e2: k(
                "IoErr.mk \"%s\" (Rs.format %s [%s])" % (kind.path[-1], msg.args[0].text, ", ".join(v for v, _ in vs)),
                ("ioerr",), e2), [None] * len(fargs))
        if len(path) == 1 and path[0] in self.spec.get("siblings", []):
            for f in self.unit["functions"]:
                if f.get("free") and f["name"] == path[0]:
                    return self.sibling_call(e, f, None, env, k)
        if len(path) == 2 and path[0] in self.enums and len(e.args) == 1:
            for vn, vargs in self.enums[path[0]]["variants"]:
                if vn == path[1] and len(vargs) == 1:
                    want_a = self.parse_ty(vargs[0])
                    return self.ev(e.args[0], env, lambda v, t, e2: k("(%s %s)" % (self.enum_ctor(path[0], vn), io_paren(v)),
                                                                     self.enum_ty(path[0]), e2), want_a)
        if len(path) == 2:
            sib = self.sibling(path[1], static=path[0])
            if sib is not None:
                return self.sibling_call(e, sib, None, env, k)
        return IoFn.call(self, e, env, k, want)

    def struct_lit(self, e, env, k):
        if e.name == "Self":
            e = N("struct", e.pos, name=self.spec["name"].split("::")[0], fields=e.fields)
        name = e.name.split("::")[-1]
        sd = self.structs.get(name)
        if sd is not None and sd.get("tuple"):
            # a struct of the spec that is represented by the tuple of its fields (in the pinned field order)
            given = dict(e.fields)
            want_names = [f for f, _ in sd["fields"]]
            if sorted(given) != sorted(want_names):
                self.err("struct literal `%s` has fields %s, the spec expects %s" % (name, ",".join(given), ",".join(want_names)), e)
            wants = [self.parse_ty(ft) for _, ft in sd["fields"]]
            return self.ev_list([given[f] for f in want_names], env,
                                lambda vs, e2: k(io_tuple([v for v, _ in vs]), ("tuple", wants), e2), wants)
        return IoFn.struct_lit(self, e, env, k)

    def need_op(self, name, node):
        if name not in self.fn_ops:
            self.err("this method is read as the abstract operation `%s`, which the spec of the function does not list" % name, node)

    def pat_def(self, arg, node):
        """a `char` literal or a closure over ASCII comparisons used as a pattern → name of the emitted predicate"""
        if arg.kind == "charlit":
            if len(arg.bytes) != 1 or arg.bytes[0] >= 128:
                self.err("non-ASCII `char` pattern", arg)
            body = "c == %d" % arg.bytes[0]
        elif arg.kind == "closure" and len(arg.params) == 1 and arg.params[0].kind == "pid" and not arg.body.stmts \
                and arg.body.tail is not None:
            pname = arg.params[0].name

            def go(x):
                x = strip(x)
                if x.kind == "bin" and x.op in ("||", "&&"):
                    return "(%s %s %s)" % (go(x.l), x.op, go(x.r))
                if x.kind == "bin" and x.op in ("==", "!="):
                    l, r = strip(x.l), strip(x.r)
                    if r.kind == "var":
                        l, r = r, l
                    if l.kind == "var" and l.name == pname and r.kind == "charlit" and len(r.bytes) == 1 and r.bytes[0] < 128:
                        return "(c %s %d)" % (x.op, r.bytes[0])
                if x.kind == "un" and x.op == "!":
                    return "(!%s)" % go(x.e)
                self.err("pattern closure: only comparisons of the parameter with ASCII `char` literals are translated", arg)
            body = go(arg.body.tail)
        else:
            self.err("this kind of pattern argument", node)
        self.n_pat += 1
        name = "%s_pat%d" % (self.lean_fn, self.n_pat)
        key = ("pat", id(arg))
        if key in self.memo:
            self.n_pat -= 1
            return self.memo[key]
        self.memo[key] = name
        self.helpers.append("/-- pattern argument (a predicate on ASCII bytes) -/\ndef %s : Nat → Bool := fun c => %s" % (name, body))
        return name

    def mcall(self, e, env, k, want):
        nm = e.name
        rp = self.path_of(e.recv)
        sib = self.sibling_or_auto(nm, rp, env)
        if sib is not None and rp is not None:
            if sib.get("auto"):
                self.auto_emit(sib, e)
            return self.sibling_call(e, sib, rp, env, k)
        opm = self.op_for_method(nm, env[rp].ty if rp in env else None)
        if opm is not None:
            return self.op_call(e, opm[0], opm[1], env, k)

        def on_recv(f, w=None):
            return self.ev(e.recv, env, f, w)

        if nm in ("as_bytes", "as_ref", "as_str", "to_owned", "to_string", "as_deref", "clone", "to_vec") and not e.args:
            def kid(v, t, e2):
                if nm in ("as_bytes", "to_vec") and is_str(t):
                    t = BYTES
                return k(v, t, e2)
            return on_recv(kid, want)
        if nm == "starts_with" and len(e.args) == 1:
            a = e.args[0]
            if a.kind != "charlit" or len(a.bytes) != 1 or a.bytes[0] >= 128:
                self.err("`starts_with` of something that is not an ASCII `char` literal", e)
            return on_recv(lambda v, t, e2: k("Rs.startsWithByte %s %d" % (io_paren(v), a.bytes[0]), ("bool",), e2))
        if nm == "trim_end" and not e.args:
            self.need_op("trimEnd", e)
            return on_recv(lambda v, t, e2: k("trimEnd %s" % io_paren(v), STR, e2))
        if nm in ("trim_end_matches", "trim_start_matches") and len(e.args) == 1 and e.args[0].kind == "charlit":
            a = e.args[0]
            if len(a.bytes) != 1 or a.bytes[0] >= 128:
                self.err("non-ASCII `char` pattern", a)
            fn = "Rs.trimEndMatches" if nm == "trim_end_matches" else "Rs.trimStartMatches"
            return on_recv(lambda v, t, e2: k("%s %d %s" % (fn, a.bytes[0], io_paren(v)), STR, e2))
        if nm == "is_ascii" and not e.args:
            return on_recv(lambda v, t, e2: k("Rs.isAscii %s" % io_paren(v), ("bool",), e2))
        if nm == "splitn" and len(e.args) == 2:
            n_, pat = e.args
            if strip(n_).kind != "lit" or strip(n_).v != 2:
                self.err("`splitn(n, …)` with n other than the literal 2", e)
            if pat.kind == "path" and pat.path == ["char", "is_whitespace"]:
                self.need_op("splitWs", e)
                return on_recv(lambda v, t, e2: k("Rs.splitnItems (splitWs %s)" % io_paren(v), ("list", STR, "iter"), e2))
            pn = self.pat_def(pat, e)
            return on_recv(lambda v, t, e2: k("Rs.splitnItems (Rs.splitn2 %s %s)" % (pn, io_paren(v)), ("list", STR, "iter"), e2))
        if nm == "next" and not e.args:
            key = self.lvalue_key(e.recv, env, e)
            var = env[key]
            if var.ty[0] != "list" or len(var.ty) != 3 or var.ty[2] != "iter":
                self.err("`.next()` on something that is not an iterator variable of this dialect", e)
            t = self.tmp()
            e3 = dict(env)
            e3[key] = IoVar(var.lean, var.ty, var.depth, var.mutable)
            return ("let", t, "%s.head?" % io_paren(var.lean), ("let", var.lean, "%s.drop 1" % io_paren(var.lean), k(t, ("opt", var.ty[1]), e3)))
        if nm == "map" and len(e.args) == 1 and e.args[0].kind == "path" and len(e.args[0].path) == 2 \
                and e.args[0].path[0] in self.enums:
            en, vn = e.args[0].path
            if not any(v2 == vn and len(va) == 1 for v2, va in self.enums[en]["variants"]):
                self.err("`.map(%s::%s)`" % (en, vn), e)

            def kmp(v, t, e2):
                if t[0] == "res":
                    return k("Except.map %s %s" % (self.enum_ctor(en, vn), io_paren(v)), ("res", self.enum_ty(en)) + tuple(t[2:]), e2)
                if t[0] == "opt":
                    return k("Option.map %s %s" % (self.enum_ctor(en, vn), io_paren(v)), ("opt", self.enum_ty(en)), e2)
                self.err("`.map(path)` on %r" % (t,), e)
            return on_recv(kmp)
        if nm == "map" and len(e.args) == 1 and e.args[0].kind == "closure":
            cl = e.args[0]
            if len(cl.params) != 1 or cl.params[0].kind != "pid":
                self.err("closure of `.map`", e)

            def kmap(v, t, e2):
                if t[0] != "opt":
                    self.err("`.map(closure)` on %r" % (t,), e)
                self.depth += 1
                e3, lean = self.declare(e2, cl.params[0].name, t[1], cl)
                res = []

                def kbody(bv, bt, e4):
                    res.append((bv, bt))
                    return ("pure", bv)
                tree = self.block(cl.body, e3, kbody)
                self.depth -= 1
                if tree[0] != "pure" or not res:
                    self.err("closure of `.map` that is not a plain expression", cl)
                bv, bt = res[0]
                if bv == lean:
                    return k(v, ("opt", bt), e2)
                return k("Option.map (fun %s => %s) %s" % (lean, bv, io_paren(v)), ("opt", bt), e2)
            return on_recv(kmap)
        if nm in ("unwrap", "expect") and len(e.args) <= 1:
            def kun(v, t, e2):
                if t[0] != "opt":
                    self.err("`.%s()` on %r" % (nm, t), e)
                x = self.tmp()
                return ("bind", x, "Rs.expect %s" % io_paren(v), k(x, t[1], e2))
            return on_recv(kun)
        if nm == "unwrap_or_default" and not e.args:
            def kud(v, t, e2):
                if t[0] != "opt" or t[1] is None or t[1][0] != "list":
                    self.err("`.unwrap_or_default()` on %r" % (t,), e)
                return k("%s.getD []" % io_paren(v), t[1], e2)
            return on_recv(kud)
        if nm == "map_err" and len(e.args) == 1 and e.args[0].kind == "path":
            p = e.args[0].path
            if len(p) != 2 or p[0] not in self.enums or not any(vn == p[1] and len(va) == 1 for vn, va in self.enums[p[0]]["variants"]):
                self.err("`.map_err(…)` with something that is not a unary variant of an enum of the spec", e)

            def kme(v, t, e2):
                if t[0] != "res":
                    self.err("`.map_err` on %r" % (t,), e)
                ety = self.enum_ty(p[0])
                return k("Except.mapError %s %s" % (self.enum_ctor(p[0], p[1]), io_paren(v)),
                         ("res", t[1], fx_lean_ty(ety) if len(ety) > 2 else p[0], ety), e2)
            return on_recv(kme)
        if nm == "chunks" and len(e.args) == 1:
            def kch(vs, e2):
                (v, t), (n_, nt) = vs
                if t[0] != "list":
                    self.err("`.chunks(n)` on %r" % (t,), e)
                x = self.tmp()
                return ("bind", x, "Rs.chunks %s %s" % (io_paren(v), io_paren(n_)), k(x, ("list", (t[0], t[1])), e2))
            return self.ev_list([e.recv, e.args[0]], env, kch, [None, ("int", "usize")])
        if nm == "kind" and not e.args:
            def kk(v, t, e2):
                if t[0] != "ioerr":
                    self.err("`.kind()` on %r" % (t,), e)
                return k("%s.kind" % io_paren(v), ("strlit",), e2)
            return on_recv(kk)
        if nm == "records" and not e.args and e.recv.kind == "call" and e.recv.path[-2:] == ["Reader", "new"] \
                and len(e.recv.path) >= 3 and len(e.recv.args) == 1:
            opn = self.unit.get("records_ops", {}).get(e.recv.path[-3])
            if opn is None:
                self.err("`%s(…).records()`" % "::".join(e.recv.path), e)
            self.need_op(opn, e)
            ret = self.parse_ty(self.ops[opn]["ret"])
            return self.ev(e.recv.args[0], env, lambda v, t, e2: k("%s %s" % (opn, io_paren(v)), ret, e2))
        if nm == "chain" and len(e.args) == 1 and e.recv.kind == "call" and e.recv.path[-2:] == ["Cursor", "new"] \
                and len(e.recv.args) == 1:
            self.need_op("chain", e)
            ret = self.parse_ty(self.ops["chain"]["ret"])
            return self.ev_list([e.recv.args[0], e.args[0]], env,
                                lambda vs, e2: k("chain %s %s" % (io_paren(vs[0][0]), io_paren(vs[1][0])), ret, e2), [None, None])
        if nm == "try_for_each" and len(e.args) == 1 and e.args[0].kind == "closure":
            return self.each_(e, env, k)
        if nm == "push_str" and len(e.args) == 1:
            key = self.lvalue_key(e.recv, env, e)
            var = env[key]
            if not is_str(var.ty):
                self.err("`.push_str` on %r" % (var.ty,), e)

            def kps(v, t, e2):
                e3 = dict(e2)
                cur = e2[key]
                e3[key] = IoVar(cur.lean, cur.ty, cur.depth, cur.mutable)
                return ("let", cur.lean, "%s ++ %s" % (cur.lean, io_paren(v)), k("()", UNIT, e3))
            return self.ev(e.args[0], env, kps, STR)
        return IoFn.mcall(self, e, env, k, want)

    # ---------------------------------------------------------------- abstract operations with `&mut` arguments
    def op_call(self, e, oname, od, env, k):
        specs = od.get("args", [])
        if not any(isinstance(a, dict) for a in specs):
            return IoFn.op_call(self, e, oname, od, env, k)
        if len(e.args) != len(specs):
            self.err("`.%s` called with %d arguments, the spec says %d" % (e.name, len(e.args), len(specs)), e)
        key = self.lvalue_key(e.recv, env, e) if od.get("mut") else None
        ret = self.parse_ty(od["ret"]) if od.get("ret") else None
        mkeys = []
        for a, sp in zip(e.args, specs):
            if not (isinstance(sp, dict) and sp.get("mut")):
                self.err("abstract operation mixing `&mut` and value arguments", e)
            mkeys.append(self.lvalue_key(a, env, e))
        call = "%s %s" % (oname, " ".join([io_paren(env[key].lean)] + [io_paren(env[m].lean) for m in mkeys]))
        e3 = dict(env)
        pats = []
        t = None
        if ret is not None:
            t = self.tmp()
            pats.append(t)
        for kk in ([key] if key else []) + mkeys:
            var = env[kk]
            e3[kk] = IoVar(var.lean, var.ty, var.depth, var.mutable)
            pats.append(var.lean)
        return ("let", io_tuple(pats), call, k(t if t else "()", ret or UNIT, e3))

    # ---------------------------------------------------------------- siblings
    def sib_params(self, sib):
        sub = FxFn(self.unit, sib, self.src, "", 0)
        return [(p, sub.parse_ty(pt)) for p, pt in sib["params"]], sub

    def sib_out_keys(self, sib, rp, args, env, node):
        keys = []
        pnames = [p for p, _ in sib["params"]]
        for o in sib.get("outs", []):
            if o.startswith("self."):
                if rp is None:
                    continue
                keys.append(rp + o[4:])
            else:
                root = o.split(".")[0]
                if root not in pnames:
                    continue
                idx = pnames.index(root)
                if idx >= len(args):
                    continue
                ap = self.path_of(args[idx])
                if ap is None:
                    if node is not None:
                        self.err("`&mut` argument that is not a variable", node)
                    continue
                keys.append(ap + o[len(root):])
        return [kk for kk in keys if kk in env or node is not None]

    def sibling_call(self, e, sib, rp, env, k):
        params, sub = self.sib_params(sib)
        if len(e.args) != len(params):
            self.err("`%s` called with %d arguments, its spec says %d" % (sib["name"], len(e.args), len(params)), e)
        for o in sib.get("ops", []):
            if o not in self.fn_ops:
                self.err("`%s` needs the abstract operation `%s`, which the spec of this function does not list" % (sib["name"], o), e)
        for g, _ in sib.get("ghosts", []):
            if g not in [x for x, _ in self.ghosts]:
                self.err("`%s` needs the ghost parameter `%s`" % (sib["name"], g), e)
        plain = [(a, pt) for a, (_, pt) in zip(e.args, params) if not (pt[0] == "struct" and pt[1] in self.split_structs)]

        def ka(vs, e2):
            selfs = []
            for nm, _ in sib.get("self_fields", []):
                kk = rp + "." + nm
                if kk not in e2:
                    self.err("`%s` reads `self.%s`: `%s` is not a variable here" % (sib["name"], nm, kk), e)
                selfs.append(e2[kk].lean)
            it = iter(vs)
            argtxt = []
            for a, (pn, pt) in zip(e.args, params):
                if pt[0] == "struct" and pt[1] in self.split_structs:
                    ap = self.path_of(a)
                    if ap is None or self.split_of(ap, e2) != pt[1]:
                        self.err("argument `%s` of `%s` is not a record variable" % (pn, sib["name"]), e)
                    argtxt += [e2[ap + "." + f].lean for f, _ in self.structs[pt[1]]["fields"]]
                else:
                    argtxt.append(io_paren(next(it)[0]))
            call = " ".join([sib["lean"]] + list(sib.get("ops", [])) + [io_paren(s) for s in selfs] + argtxt
                            + [g for g, _ in sib.get("ghosts", [])])
            ret = sub.parse_ty(sib["ret"]) if sib.get("ret") else UNIT
            t = self.tmp()
            pats, e3 = [t], dict(e2)
            for key in self.sib_out_keys(sib, rp, e.args, e2, e):
                if key not in e2:
                    self.err("`%s` writes `%s`: not a variable here" % (sib["name"], key), e)
                var = e2[key]
                pats.append(var.lean)
                e3[key] = IoVar(var.lean, var.ty, var.depth, var.mutable)
            return ("bind", io_tuple(pats), call, k(t, ret, e3))
        return self.ev_list([a for a, _ in plain], env, ka, [pt for _, pt in plain])

    # ---------------------------------------------------------------- branching
    def branching(self, e, env, k, want, value):
        """as in the base class, but the scrutinee / condition is evaluated *before* the branching: what it assigns (a
        sibling call with `&mut` outputs as scrutinee) stays visible after a branching without jumps (the base class keeps
        only what the arms assign)"""
        if getattr(e, "_hoisted", False):
            return IoFn.branching(self, e, env, k, want, value)
        if e.kind == "match" and e.scrut.kind == "un" and e.scrut.op == "&" and not getattr(e, "_wb", False):
            # `match &mut self.f { Some(Enum::V(r)) => r.op() … }`: what the arm does to the borrowed parts is written back —
            # the arm's value is kept, then `self.f = Some(Enum::V(r))` with the current `r`
            pth = self.path_of(e.scrut.e)
            if pth in env:
                def to_expr(pt):
                    if pt.kind == "pid":
                        if pt.name == "_":
                            return None
                        if pt.name == "None":
                            return N("var", pt.pos, name="None")
                        return N("var", pt.pos, name=pt.name)
                    if pt.kind == "pctor":
                        args = [to_expr(x) for x in pt.items]
                        return None if any(a is None for a in args) else N("call", pt.pos, path=pt.name.split("::"), args=args)
                    if pt.kind == "ptuple":
                        items = [to_expr(x) for x in pt.items]
                        return None if any(a is None for a in items) else N("tuple", pt.pos, items=items)
                    return None
                arms2 = []
                for pats, body in e.arms:
                    pe = to_expr(pats[0]) if len(pats) == 1 else None
                    has_binder = pe is not None and self.pat_names_x(pats[0]) if hasattr(self, "pat_names_x") else pe is not None
                    names = []
                    walk(pats[0], lambda x: names.append(x.name) if x.kind == "pid" and x.name not in ("_", "None") else None)
                    if pe is not None and names and body.tail is not None:
                        body = N("block", body.pos,
                                 stmts=list(body.stmts) + [N("let", body.pos, pat=N("pid", body.pos, name="arm_value", mut=False), ty=None, init=body.tail),
                                                           N("assign", body.pos, lhs=e.scrut.e, op=None, rhs=pe)],
                                 tail=N("var", body.pos, name="arm_value"))
                    arms2.append((pats, body))
                e = N("match", e.pos, scrut=e.scrut, arms=arms2)
                e._wb = True
        if e.kind == "match" and any(len(pats) > 1 for pats, _ in e.arms):
            # `'@' | '#' => …`: alternatives without binders become one Lean alternative pattern
            arms3 = []
            for pats, body in e.arms:
                if len(pats) > 1:
                    if any(x.kind not in ("charlit", "lit", "ppath") for x in pats):
                        self.err("`|` alternatives that are not literals", e)
                    pats = [N("palt", pats[0].pos, pats=pats)]
                arms3.append((pats, body))
            e2_ = N("match", e.pos, scrut=e.scrut, arms=arms3)
            if getattr(e, "_wb", False):
                e2_._wb = True
            e = e2_
        head = {"if": "cond", "iflet": "e", "match": "scrut"}[e.kind]
        self.n_scrut = getattr(self, "n_scrut", 0) + 1
        name = "scrut#%d" % self.n_scrut

        def ks(v, t, e2):
            e3 = dict(e2)
            e3[name] = IoVar(v, t, self.depth, False)
            fields = {kk: vv for kk, vv in e.__dict__.items() if kk not in ("kind", "pos")}
            fields[head] = N("var", e.pos, name=name)
            eh = N(e.kind, e.pos, **fields)
            eh._hoisted = True
            return IoFn.branching(self, eh, e3, lambda v2, t2, e4: k(v2, t2, {kk: e4[kk] for kk in e4 if kk != name}), want, value)
        return self.ev(getattr(e, head), env, ks, ("bool",) if e.kind == "if" else None)

    def binary(self, e, env, k, want):
        if e.op == "+":
            # `n + 1` / `1 + n` on a non-negative counter of a signed type: overflow at 2^(w-1)
            l, r = strip(e.l), strip(e.r)
            for a, b in ((l, r), (r, l)):
                pa = self.path_of(a) if a.kind in ("var", "field") else None
                if pa in env and env[pa].ty[0] == "int" and env[pa].ty[1] and env[pa].ty[1][0] == "i" and b.kind == "lit":
                    t = self.tmp()
                    w = rs.WIDTH[env[pa].ty[1]] - 1
                    args = (env[pa].lean, str(b.v)) if a is l else (str(b.v), env[pa].lean)
                    return ("bind", t, "Rs.add %d %s %s" % ((w,) + args), k(t, env[pa].ty, env))
        if e.op in ("&&", "||") and not fx_effectful(e.r):
            return self.ev_list([e.l, e.r], env,
                                lambda vs, e2: k("(%s %s %s)" % (vs[0][0], e.op, vs[1][0]), ("bool",), e2),
                                [("bool",), ("bool",)])
        return IoFn.binary(self, e, env, k, want)

    # ---------------------------------------------------------------- patterns
    def pat_lean(self, p, ty, env):
        if p.kind == "ptuple" and not p.items:
            return "()", env
        if p.kind == "charlit":
            if len(p.bytes) != 1 or p.bytes[0] >= 128:
                self.err("non-ASCII `char` pattern", p)
            return str(p.bytes[0]), env
        if p.kind == "lit":
            return str(p.v), env
        if p.kind == "palt":
            return " | ".join(self.pat_lean(x, ty, env)[0] for x in p.pats), env
        if p.kind == "ppath":
            if len(p.path) == 2 and p.path[0] in self.enums and any(vn == p.path[1] and not va for vn, va in self.enums[p.path[0]]["variants"]):
                return self.enum_ctor(p.path[0], p.path[1]), env
            self.err("pattern `%s`" % "::".join(p.path), p)
        if p.kind == "pctor" and "::" in p.name:
            en, vn = p.name.split("::")[-2:]
            if en in self.enums and len(p.items) == 1:
                for v2, va in self.enums[en]["variants"]:
                    if v2 == vn and len(va) == 1:
                        sub, env = self.pat_lean(p.items[0], self.parse_ty(va[0]), env)
                        return "(%s %s)" % (self.enum_ctor(en, vn), sub), env
            self.err("pattern `%s(…)`" % p.name, p)
        if p.kind == "pctor" and len(p.items) == 1 and p.name == "Err" and ty is not None and ty[0] == "res":
            er = err_of(ty)
            inner_ty = ("ioerr",) if er == "IoErr" else (("strlit",) if er == "String" else (ty[3] if len(ty) == 4 else ("enum", er)))
            s, env = self.pat_lean(p.items[0], inner_ty, env)
            return ".error %s" % s, env
        return IoFn.pat_lean(self, p, ty, env)

    # ---------------------------------------------------------------- statements
    def stmt(self, s, env, rest):
        kd = s.kind
        if kd == "let" and s.pat.kind == "pid":
            ann = self.ast_ty(s.ty) if s.ty is not None else None

            def kl(v, t, e2):
                ty = ann if ann is not None else t
                if ty is not None and ty[0] == "struct" and ty[1] in self.split_structs:
                    e3, leans = self.declare_split(e2, s.pat.name, ty[1], s)
                    tree = rest(e3)
                    for (f, _), l in reversed(list(zip(self.structs[ty[1]]["fields"], leans))):
                        tree = ("let", l, "%s.%s" % (io_paren(v), rs.lean_name(f)), tree)
                    return tree
                return None
            # evaluate once; fall back to the base class when the value is not a record
            box = []

            def kprobe(v, t, e2):
                r = kl(v, t, e2)
                if r is None:
                    box.append(True)
                    return ("pure", "()")
                return r
            if s.pat.name in self.spec.get("locals", {}) and ann is None:
                ann_l = self.parse_ty(self.spec["locals"][s.pat.name])
                if ann_l[0] == "int" and ann_l[1][0] == "i":
                    # a non-negative counter of a signed type: only `0`, `+= 1` and its use as a range bound are translated
                    if strip(s.init).kind != "lit":
                        self.err("signed local `%s` with a non-literal initialiser" % s.pat.name, s)
                    e3, lean = self.declare(env, s.pat.name, ann_l, s)
                    return ("let", lean, str(strip(s.init).v), rest(e3))
            if s.init.kind in ("call", "struct", "mcall", "var"):
                n_tmp, n_pat, helpers = self.n_tmp, self.n_pat, list(self.helpers)
                memo = dict(self.memo)
                tree = self.ev(s.init, env, kprobe, ann)
                if not box:
                    return tree
                self.n_tmp, self.n_pat, self.helpers, self.memo = n_tmp, n_pat, helpers, memo
            return IoFn.stmt(self, s, env, rest)
        if kd == "assign" and s.op == "+" and self.path_of(s.lhs) in env:
            var = env[self.path_of(s.lhs)]
            if var.ty[0] == "int" and var.ty[1] and var.ty[1][0] == "i":
                # counter of a signed type (values ≥ 0 by construction): overflow at 2^(w-1)
                w = rs.WIDTH[var.ty[1]] - 1
                key = self.path_of(s.lhs)

                def kr(v, t, e2):
                    cur = e2[key]
                    e3 = dict(e2)
                    e3[key] = IoVar(cur.lean, cur.ty, cur.depth, cur.mutable)
                    return ("bind", cur.lean, "Rs.add %d %s %s" % (w, cur.lean, io_paren(v)), rest(e3))
                return self.ev(s.rhs, env, kr, ("int", "u" + var.ty[1][1:]))
        if kd == "loop":
            return self.loop_(s, env, rest, None)
        if kd == "while":
            return self.loop_(s, env, rest, s.cond)
        if kd == "for":
            return self.for_(s, env, rest)
        if kd == "break":
            if not self.loop_ctx or self.loop_ctx[-1].get("kind") not in ("loop", "for"):
                self.err("`break` outside a translated loop", s)
            ctx = self.loop_ctx[-1]
            done = io_tuple([env[x].lean for x in ctx["state"]])
            return ("pure", (".next " + done) if ctx["jumpy"] else done)
        if kd == "continue":
            self.err("`continue`", s)
        return IoFn.stmt(self, s, env, rest)

    def returns(self, node):
        found = []

        def f(x):
            if x.kind in ("return", "try"):
                found.append(1)
            if x.kind == "closure":
                return False
        walk(node, f)
        return bool(found)

    def st_ty_text(self, henv, state):
        return " × ".join(io_paren(cf.io_lean_ty(henv[x].ty)) if henv[x].ty[0] == "tuple" else cf.io_lean_ty(henv[x].ty)
                          for x in state) or "Unit"

    def loop_(self, s, env, rest, cond):
        if self.loop_ctx:
            self.err("nested loops (dialect fx)", s)
        jumpy = self.returns(s.body) or (cond is not None and self.returns(cond))
        state = self.assigned(s.body, env)
        rd = self.reads(s.body, env) + (self.reads(cond, env) if cond is not None else [])
        if jumpy:
            rd = rd + list(self.spec.get("outs", []))
        caps = [kk for kk in env if kk in rd and kk not in state]
        fuel = self.spec.get("fuel")
        if isinstance(fuel, list):
            fuel = fuel[0] if fuel else None
        if not fuel:
            self.err("`loop` / `while` needs a fuel expression in the translation spec", s)
        if id(s) in self.memo:
            name = self.memo[id(s)]
        else:
            self.n_loop += 1
            name = "%s_loop%d" % (self.lean_fn, self.n_loop)
            self.memo[id(s)] = name
            henv = {kk: env[kk] for kk in env if kk in caps or kk in state}
            ops = "".join(" " + o for o in self.fn_ops)
            cap_args = "".join(" " + henv[c].lean for c in caps)
            st_pats = [henv[x].lean for x in state]
            self.loop_ctx.append(dict(jumpy=jumpy, kind="loop", state=state))
            depth0 = self.depth
            try:
                def kbody(v, t, e3):
                    return ("call", "%s%s%s gas %s" % (name, ops, cap_args, " ".join(io_paren(e3[x].lean) for x in state)))
                if cond is None:
                    tree = self.block(s.body, henv, kbody)
                else:
                    def kc(c, ct, e2):
                        if ct[0] != "bool":
                            self.err("loop condition of type %r" % (ct,), cond)
                        done = io_tuple([e2[x].lean for x in state])
                        return ("if", c, self.block(s.body, e2, kbody), ("pure", (".next " + done) if jumpy else done))
                    tree = self.ev(cond, henv, kc, ("bool",))
            finally:
                self.loop_ctx.pop()
                self.depth = depth0
            st_ty = self.st_ty_text(henv, state)
            rty = "Flow (%s) (%s)" % (self.full_ret_ty(), st_ty) if jumpy else st_ty
            lines = ["def %s%s%s : Nat → %sRes (%s)" % (
                name, self.ops_sig(), "".join(" (%s : %s)" % (henv[c].lean, cf.io_lean_ty(henv[c].ty)) for c in caps),
                "".join(io_paren(cf.io_lean_ty(henv[x].ty)) + " → " for x in state), rty)]
            lines.append("  | 0%s => Res.fuel" % "".join(", _" for _ in state))
            lines.append("  | gas + 1%s => do" % "".join(", " + p for p in st_pats))
            io_emit(tree, 4, lines)
            self.helpers.append("\n".join(lines))
        ops = "".join(" " + o for o in self.fn_ops)
        call = "%s%s%s %s %s" % (name, ops, "".join(" " + env[c].lean for c in caps), io_paren(fuel),
                                 " ".join(io_paren(env[x].lean) for x in state))
        return self.after_loop(call, state, jumpy, env, rest)

    def after_loop(self, call, state, jumpy, env, rest):
        e2 = dict(env)
        for x in state:
            var = env[x]
            e2[x] = IoVar(var.lean, var.ty, var.depth, var.mutable)
        pat = io_tuple([env[x].lean for x in state]) if state else "_"
        if not jumpy:
            return ("bind", pat, call.rstrip(), rest(e2))
        r = self.tmp()
        return ("bind", r, call.rstrip(), ("match", r, [(".ret v", ("pure", "v")), (".next " + (pat if state else "_"), rest(e2))]))

    def for_(self, s, env, rest):
        if self.loop_ctx:
            self.err("nested loops (dialect fx)", s)
        if s.pat.kind != "pid":
            self.err("loop pattern other than a name or `_`", s)
        it = strip(s.iter)

        def with_source(src_text, elem_ty, env1):
            jumpy = self.returns(s.body)
            state = self.assigned(s.body, env1)
            rd = self.reads(s.body, env1)
            if jumpy:
                rd = rd + list(self.spec.get("outs", []))
            caps = [kk for kk in env1 if kk in rd and kk not in state]
            if id(s) in self.memo:
                name = self.memo[id(s)]
            else:
                self.n_for += 1
                name = "%s_for%d" % (self.lean_fn, self.n_for)
                self.memo[id(s)] = name
                henv = {kk: env1[kk] for kk in env1 if kk in caps or kk in state}
                ops = "".join(" " + o for o in self.fn_ops)
                cap_args = "".join(" " + henv[c].lean for c in caps)
                st_pats = [henv[x].lean for x in state]
                self.loop_ctx.append(dict(jumpy=jumpy, kind="for", state=state))
                depth0 = self.depth
                try:
                    self.depth += 1
                    benv, xl = self.declare(henv, s.pat.name, elem_ty, s, False)
                    self.depth -= 1

                    def kbody(v, t, e3):
                        return ("call", "%s%s%s rest_ %s" % (name, ops, cap_args, " ".join(io_paren(e3[x].lean) for x in state)))
                    tree = self.block(s.body, benv, lambda v, t, e3: kbody(v, t, e3))
                finally:
                    self.loop_ctx.pop()
                    self.depth = depth0
                st_ty = self.st_ty_text(henv, state)
                rty = "Flow (%s) (%s)" % (self.full_ret_ty(), st_ty) if jumpy else st_ty
                done = io_tuple(st_pats)
                lines = ["def %s%s%s : List %s → %sRes (%s)" % (
                    name, self.ops_sig(), "".join(" (%s : %s)" % (henv[c].lean, cf.io_lean_ty(henv[c].ty)) for c in caps),
                    io_paren(cf.io_lean_ty(elem_ty)), "".join(io_paren(cf.io_lean_ty(henv[x].ty)) + " → " for x in state), rty)]
                lines.append("  | []%s => pure %s" % ("".join(", " + p for p in st_pats), atom((".next " + done) if jumpy else done)))
                lines.append("  | %s :: rest_%s => do" % (xl, "".join(", " + p for p in st_pats)))
                io_emit(tree, 4, lines)
                self.helpers.append("\n".join(lines))
            ops = "".join(" " + o for o in self.fn_ops)
            call = "%s%s%s %s %s" % (name, ops, "".join(" " + env1[c].lean for c in caps), io_paren(src_text),
                                     " ".join(io_paren(env1[x].lean) for x in state))
            return self.after_loop(call, state, jumpy, env1, rest)

        if it.kind == "range":
            if it.incl or it.lo is None or it.hi is None:
                self.err("range of a `for` loop other than `a..b`", s)

            def kr(vs, e2):
                (lo, lt), (hi, ht) = vs
                ety = ht if ht[1] is not None else lt
                if ety[1] is None:
                    ety = ("int", "usize")
                return with_source("List.range' %s (%s - %s)" % (io_paren(lo), io_paren(hi), io_paren(lo)), ety, e2)
            return self.ev_list([it.lo, it.hi], env, kr, [None, None])

        def ks(v, t, e2):
            if t[0] != "list":
                self.err("`for` over a value of type %r" % (t,), s)
            return with_source(v, t[1], e2)
        return self.ev(s.iter, env, ks)

    def each_(self, e, env, k):
        """`xs.try_for_each(|x| -> io::Result<()> { …; Ok(()) })`"""
        if self.loop_ctx:
            self.err("`try_for_each` inside a loop (dialect fx)", e)
        cl = e.args[0]
        if len(cl.params) != 1 or cl.params[0].kind != "pid":
            self.err("closure of `try_for_each`", e)
        rty = self.ret_ty if self.ret_ty[0] == "res" else ("res", UNIT)
        rty = mk_res(UNIT, err_of(rty))

        def ks(v, t, env1):
            if t[0] != "list":
                self.err("`try_for_each` on %r" % (t,), e)
            state = self.assigned(cl.body, env1)
            rd = self.reads(cl.body, env1)
            caps = [kk for kk in env1 if kk in rd and kk not in state]
            if id(e) in self.memo:
                name = self.memo[id(e)]
            else:
                self.n_each += 1
                name = "%s_each%d" % (self.lean_fn, self.n_each)
                self.memo[id(e)] = name
                henv = {kk: env1[kk] for kk in env1 if kk in caps or kk in state}
                ops = "".join(" " + o for o in self.fn_ops)
                cap_args = "".join(" " + henv[c].lean for c in caps)
                st_pats = [henv[x].lean for x in state]
                self.loop_ctx.append(dict(jumpy=False, kind="closure", state=state))
                depth0 = self.depth
                saved_ret = self.ret_ty
                self.ret_ty = rty
                try:
                    self.depth += 1
                    benv, xl = self.declare(henv, cl.params[0].name, t[1], cl, False)
                    self.depth -= 1

                    def kend(bv, bt, e3):
                        if bt[0] != "res":
                            self.err("closure of `try_for_each` ends with a value of type %r" % (bt,), cl)
                        rec = ("call", "%s%s%s rest_ %s" % (name, ops, cap_args, " ".join(io_paren(e3[x].lean) for x in state)))
                        if bv.startswith("(Except.ok "):
                            return rec
                        stv = [e3[x].lean for x in state]
                        return ("match", bv, [(".error e", ("pure", io_tuple(["(Except.error e : %s)" % cf.io_lean_ty(rty)] + stv))),
                                              (".ok _", rec)])
                    tree = self.block(cl.body, benv, kend, rty)
                finally:
                    self.loop_ctx.pop()
                    self.depth = depth0
                    self.ret_ty = saved_ret
                st_ty = self.st_ty_text(henv, state)
                full = cf.io_lean_ty(rty) + ("" if not state else " × " + st_ty)
                lines = ["def %s%s%s : List %s → %sRes (%s)" % (
                    name, self.ops_sig(), "".join(" (%s : %s)" % (henv[c].lean, cf.io_lean_ty(henv[c].ty)) for c in caps),
                    io_paren(cf.io_lean_ty(t[1])), "".join(io_paren(cf.io_lean_ty(henv[x].ty)) + " → " for x in state), full)]
                lines.append("  | []%s => pure %s" % ("".join(", " + p for p in st_pats),
                                                     io_tuple(["(Except.ok () : %s)" % cf.io_lean_ty(rty)] + st_pats)))
                lines.append("  | %s :: rest_%s => do" % (xl, "".join(", " + p for p in st_pats)))
                io_emit(tree, 4, lines)
                self.helpers.append("\n".join(lines))
            ops = "".join(" " + o for o in self.fn_ops)
            call = "%s%s%s %s %s" % (name, ops, "".join(" " + env1[c].lean for c in caps), io_paren(v),
                                     " ".join(io_paren(env1[x].lean) for x in state))
            e2 = dict(env1)
            for x in state:
                var = env1[x]
                e2[x] = IoVar(var.lean, var.ty, var.depth, var.mutable)
            r = self.tmp()
            return ("bind", io_tuple([r] + [env1[x].lean for x in state]), call.rstrip(), k(r, rty, e2))
        return self.ev(e.recv, env, ks)

    # ---------------------------------------------------------------- the function
    def translate(self, toks):
        body = FxParser(toks).body()
        sp = self.spec
        env = {}
        params = []
        for ent in sp.get("self_fields", []):
            nm, ty = ent[0], ent[1]
            t = self.parse_ty(ty)
            lean = ent[2] if len(ent) > 2 else self.fresh(env, nm)
            env["self." + nm] = IoVar(lean, t, 0)
            params.append((lean, t))
        for nm, ty in sp["params"]:
            t = self.parse_ty(ty)
            if t[0] == "struct" and t[1] in self.split_structs:
                for f, ft in self.struct_fields(t[1]):
                    lean = self.fresh(env, f)
                    env[nm + "." + f] = IoVar(lean, ft, 0)
                    params.append((lean, ft))
                self.split_vars[nm] = t[1]
                continue
            lean = self.fresh(env, nm)
            env[nm] = IoVar(lean, t, 0)
            params.append((lean, t))
        self.env0 = env
        self.ret_ty = self.parse_ty(sp["ret"]) if sp.get("ret") else UNIT
        for o in sp.get("outs", []):
            if o not in env:
                raise Unsupported("output `%s` of the spec is neither a self field nor a parameter" % o)
        self.depth = 0
        tree = self.stmts(list(body.stmts), body.tail, env, lambda v, t, e2: self.final(v, t, e2, body), self.ret_ty)
        sig = "def %s%s%s%s : Res (%s) := do" % (
            self.lean_fn, self.ops_sig(), "".join(" (%s : %s)" % (l, cf.io_lean_ty(t)) for l, t in params),
            "".join(" (%s : %s)" % g for g in self.ghosts), self.full_ret_ty())
        lines = [sig]
        io_emit(tree, 2, lines)
        return self.helpers, "\n".join(lines), [], None

    def full_ret_ty(self):
        parts = [cf.io_lean_ty(self.ret_ty)]
        for o in self.spec.get("outs", []):
            parts.append(cf.io_lean_ty(self.env0[o].ty))
        return " × ".join(io_paren(p) if " × " in p else p for p in parts)

    def final(self, v, t, env, node):
        if t is not None and t[0] == "res" and self.ret_ty[0] == "res" and err_of(t) != err_of(self.ret_ty) and t[1] is not None:
            self.err("the function ends with a value of type %r, the spec declares %r" % (t, self.ret_ty), node)
        return IoFn.final(self, v, t, env, node)


# ================================================================================================== units

def pin_regex(text):
    toks = [t.text for t in tokenize(text, 0)[:-1]]
    parts = []
    for i, t in enumerate(toks):
        parts.append(re.escape(t))
        if i + 1 < len(toks):
            a, b = t[-1], toks[i + 1][0]
            parts.append(r"\s+" if (a.isalnum() or a == "_") and (b.isalnum() or b == "_") else r"\s*")
    return "".join(parts)


def header_regex(header):
    return r"(?<![\w])" + pin_regex(header) + r"\s*\{"


def translate_unit(src, unit, fail):
    """src: gen_tables.Src of unit['file']; returns (lean text, snippets).  Calls `fail(msg)` (which exits) on anything
    outside the subset."""
    cf.io_lean_ty = fx_lean_ty
    try:
        return _translate_unit(src, unit, fail)
    finally:
        cf.io_lean_ty = _orig_lean_ty


def _translate_unit(src, unit, fail):
    rel = unit["file"]
    out_fns, snippets = [], {}
    src_all = src
    unit["_auto"], unit["_auto_snippets"], unit["_src_all"] = {}, {}, src
    for pin in unit.get("pinned", []):
        n = len(re.findall(pin_regex(pin), src_all.code))
        if n != 1:
            fail("%s: the declaration `%s` the translation spec relies on occurs %d times" % (rel, " ".join(pin.split())[:90], n))
    for f in unit["functions"]:
        what = "fn %s" % f["name"]
        rx = header_regex(f["header"])
        try:
            src = cf.restrict(src_all, f)
        except Unsupported as u:
            fail("%s: %s: %s" % (rel, what, u.msg))
        ms = list(re.finditer(rx, src.code))
        if len(ms) != 1:
            fail("%s: %s: expected exactly one function with the header `%s`, found %d (signature changed, renamed or "
                 "restructured: the translation spec in tools/rs2lean_genfx.py pins the header)" % (rel, what, f["header"], len(ms)))
        body, line = src.fn_body(rx, what)
        start = src.code.find("{", ms[0].end() - 1) + 1
        snippets[f["name"]] = ms[0].group(0)[:-1].strip() + " {" + body + "}"
        try:
            toks = tokenize(body, start)
            tr = FxFn(unit, f, src, body, start)
            helpers, main, _, _ = tr.translate(toks)
        except Unsupported as u:
            where = "%s:%d" % (rel, src.line_of(u.pos)) if u.pos is not None else "%s:%d" % (rel, line)
            fail("%s: %s: cannot translate: %s (outside the subset of tools/rs2lean_genfx.py; the equality theorem %s can no "
                 "longer be regenerated)" % (where, what, u.msg, f.get("theorem", "")))
        out_fns.append((f, line, body, helpers, main))
    name = unit["name"]
    txt = ["import RbV.Basic.RsSem", "import RbV.Basic.RsSemIo", "import RbV.Basic.RsSemGenfx"] + \
          ["import " + m for m in unit.get("lean_imports", [])] + [
        "/-! GENERATED by tools/rs2lean_genfx.py (dialect fx; tools/gen_tables.py, %s) — do not edit." % unit["props"],
        "Translation of the *text* of the following functions of `%s` (comments blanked) into Lean, regenerated from" % rel,
        "the source tree on every `./check`.  Semantics: `RbV/Basic/RsSem.lean`, `RsSemIo.lean`, `RsSemGenfx.lean` (`Res.panic` = the",
        "Rust code panics; `Res.fuel` = the ghost fuel of a translated `loop` / `while` ran out; strings are byte lists).",
        "Equality with the hand-written mirror models: `RbV/Thm/GenSrc%s.lean`." % name[3:],
        ""]
    for f, line, body, helpers, main in out_fns:
        txt.append("`%s` (line %d):" % (" ".join(f["header"].split()), line))
        txt.append("```")
        for l in rs.dedent(body).splitlines():
            if l.strip():
                txt.append(l.rstrip().replace("-/", "- /").replace("/-", "/ -"))
        txt.append("```")
    txt.append("-/")
    txt.append("set_option linter.unusedVariables false")
    txt.append("namespace RbV.Gen.%s" % name)
    txt.append("open RbV RbV.Rs")
    gens = sorted(set(list(unit.get("generics", {}).values())
                      + [g for f in unit["functions"] for g in f.get("generics", {}).values()]))
    if gens:
        txt.append("variable " + " ".join("{%s : Type}" % g for g in gens))
    txt.append("")
    for ename, ed in unit.get("io_enums", {}).items():
        if ed.get("lean"):
            continue
        txt.append("/-- `enum %s` (variants the translated functions use) -/" % ename)
        txt.append("inductive %s where" % ename)
        for vn, vargs in ed["variants"]:
            tr = FxFn(unit, dict(lean="_", params=[], name="_"), src_all, "", 0)
            txt.append("  | %s%s" % (vn, "".join(" (a%d : %s)" % (i, cf.io_lean_ty(tr.parse_ty(a))) for i, a in enumerate(vargs))))
        txt.append("deriving DecidableEq, Repr")
        txt.append("")
    for sname, sd in unit.get("io_structs", {}).items():
        if sd.get("pinned"):
            n = len(re.findall(pin_regex(sd["pinned"]), src_all.code))
            if n != 1:
                fail("%s: the declaration `%s` the translation spec relies on occurs %d times (fields added, removed or retyped)"
                     % (rel, " ".join(sd["pinned"].split())[:80], n))
        if sd.get("tuple"):
            continue
        tr = FxFn(unit, dict(lean="_", params=[], name="_"), src_all, "", 0)
        txt.append("structure %s where" % sname)
        for fn_, ft in sd["fields"]:
            txt.append("  %s : %s" % (rs.lean_name(fn_), cf.io_lean_ty(tr.parse_ty(ft))))
        txt.append("deriving DecidableEq, Repr")
        txt.append("")
    for f, line, body, helpers, main in out_fns:
        for h in helpers:
            txt.append(h)
            txt.append("")
        txt.append("/-- `%s` (%s, line %d) -/" % (" ".join(f["header"].split()).replace("-/", "- /"), rel, line))
        txt.append(main)
        txt.append("")
    txt.append("end RbV.Gen.%s" % name)
    snippets.update(unit.get("_auto_snippets", {}))
    for kk in ("_auto", "_auto_snippets", "_src_all"):
        unit.pop(kk, None)
    return "\n".join(txt) + "\n", snippets


# ================================================================================================== translation specs

UNITS = {}


def unit(**kw):
    UNITS[kw["name"]] = kw
    return kw


RD_OPS = {
    # `BufRead::read_line(&mut String) -> io::Result<usize>`: appends the next line (up to and including the LF, or whatever is
    # left) to the string after validating it as UTF-8; contract = `Model/FastxStream.lean` `readLineStr` (theorems)
    "readLine": dict(method="read_line", mut=True, args=[dict(ty="String", mut=True)], ret="io::Result<usize>",
                     lean_ty="ρ → List Nat → Except IoErr Nat × ρ × List Nat"),
    # `str::trim_end` (Unicode `White_Space`) — mirror `trimEndU`
    "trimEnd": dict(lean_ty="List Nat → List Nat"),
    # `s.splitn(2, char::is_whitespace)` — mirror `splitWsU`
    "splitWs": dict(lean_ty="List Nat → List Nat × Option (List Nat)"),
    # `io::Write::write_all(&[u8]) -> io::Result<()>` on the `BufWriter`
    "writeAll": dict(method="write_all", mut=True, args=["&[u8]"], ret="io::Result<()>",
                     lean_ty="ω → List Nat → Except IoErr Unit × ω"),
}

FA_REC = [("id", "String"), ("desc", "Option<String>"), ("seq", "String")]
FA_REC_OUTS = ["self.id", "self.desc", "self.seq"]
FA_RD = ["readLine", "trimEnd", "splitWs"]

unit(name="SrcFasta", props="property C11", file="src/io/fasta.rs", dialect="fx",
     generics={"Rd": "ρ", "Wr": "ω"}, io_ops=RD_OPS, split_structs=["Record"],
     io_structs={"Record": dict(fields=FA_REC,
                                pinned="pub struct Record { id: String, desc: Option<String>, seq: String, }"),
                 "Reader": dict(tuple=True, fields=[("reader", "Rd"), ("line", "String")],
                                pinned="pub struct Reader<B> { reader: B, line: String, }"),
                 "Records": dict(tuple=True, fields=[("reader", "Reader"), ("error_has_occured", "bool")],
                                 pinned="pub struct Records<B> where B: io::BufRead, { reader: Reader<B>, error_has_occured: bool, }"),
                 "Writer": dict(tuple=True, fields=[("writer", "Wr"), ("linewrap", "Option<usize>")],
                                pinned="pub struct Writer<W: io::Write> { writer: io::BufWriter<W>, linewrap: Option<usize>, }")},
     functions=[
         dict(name="Reader::from_bufread", lean="readerFromBufread", static=True,
              header="pub fn from_bufread(bufreader: B) -> Self", self_fields=[], params=[("bufreader", "Rd")],
              ret="Reader", outs=[], ops=[], theorem="RbV.Thm.GenSrcFasta.ctors_eq"),
         dict(name="Reader::records", lean="readerRecords", header="pub fn records(self) -> Records<B>",
              self_fields=[("reader", "Rd"), ("line", "String")], params=[], ret="Records", outs=[], ops=[]),
         dict(name="Writer::from_bufwriter", lean="writerFromBufwriter", static=True,
              header="pub fn from_bufwriter(bufwriter: io::BufWriter<W>) -> Self", self_fields=[],
              params=[("bufwriter", "Wr")], ret="Writer", outs=[], ops=[]),
         dict(name="Writer::set_linewrap", lean="writerSetLinewrap",
              header="pub fn set_linewrap(&mut self, linewrap: Option<usize>)",
              self_fields=[("linewrap", "Option<usize>")], params=[("linewrap", "Option<usize>")],
              outs=["self.linewrap"], ops=[]),
         dict(name="Record::id", lean="recordId", header="pub fn id(&self) -> &str", after="impl Record",
              self_fields=FA_REC, params=[], ret="&str", outs=[], ops=[]),
         dict(name="Record::desc", lean="recordDesc", header="pub fn desc(&self) -> Option<&str>", after="impl Record",
              self_fields=FA_REC, params=[], ret="Option<&str>", outs=[], ops=[]),
         dict(name="Record::seq", lean="recordSeq", header="pub fn seq(&self) -> TextSlice<'_>", after="impl Record",
              self_fields=FA_REC, params=[], ret="TextSlice<'_>", outs=[], ops=[]),
         dict(name="Writer::write_record_header", lean="writeRecordHeader",
              header="pub fn write_record_header(&mut self, id: &str, desc: Option<&str>) -> io::Result<()>",
              self_fields=[("writer", "Wr")], params=[("id", "&str"), ("desc", "Option<&str>")],
              ret="io::Result<()>", outs=["self.writer"], ops=["writeAll"],
              theorem="RbV.Thm.GenSrcFasta.writeRecordHeader_eq_model"),
         dict(name="Writer::write", lean="write",
              header="pub fn write(&mut self, id: &str, desc: Option<&str>, seq: TextSlice<'_>) -> io::Result<()>",
              self_fields=[("writer", "Wr"), ("linewrap", "Option<usize>")],
              params=[("id", "&str"), ("desc", "Option<&str>"), ("seq", "TextSlice<'_>")],
              ret="io::Result<()>", outs=["self.writer"], ops=["writeAll"], siblings=["write_record_header"],
              theorem="RbV.Thm.GenSrcFasta.write_eq_model"),
         dict(name="Writer::write_record", lean="writeRecord",
              header="pub fn write_record(&mut self, record: &Record) -> io::Result<()>",
              self_fields=[("writer", "Wr"), ("linewrap", "Option<usize>")], params=[("record", "&Record")],
              ret="io::Result<()>", outs=["self.writer"], ops=["writeAll"], siblings=["write", "id", "desc", "seq"],
              theorem="RbV.Thm.GenSrcFasta.writeRecord_eq_model"),
         dict(name="Record::new", lean="recordNew", static=True, header="pub fn new() -> Self",
              after="impl Record", self_fields=[], params=[], ret="Record", outs=[], ops=[]),
         dict(name="Record::clear", lean="recordClear", header="fn clear(&mut self)", after="impl Record",
              self_fields=FA_REC, params=[], outs=FA_REC_OUTS, ops=[]),
         dict(name="Record::is_empty", lean="recordIsEmpty", header="pub fn is_empty(&self) -> bool", after="impl Record",
              self_fields=FA_REC, params=[], ret="bool", outs=[], ops=[]),
         dict(name="Reader::read", lean="read", header="fn read(&mut self, record: &mut Record) -> io::Result<()>",
              self_fields=[("reader", "Rd"), ("line", "String")], params=[("record", "&mut Record")],
              ret="io::Result<()>", outs=["self.reader", "self.line", "record.id", "record.desc", "record.seq"],
              ops=FA_RD, ghosts=[("fuel", "Nat")], fuel="fuel", siblings=["clear"],
              theorem="RbV.Thm.GenSrcFasta.read_eq_model"),
         dict(name="Records::next", lean="next", header="fn next(&mut self) -> Option<io::Result<Record>>",
              self_fields=[("reader.reader", "Rd"), ("reader.line", "String"), ("error_has_occured", "bool")],
              params=[], ret="Option<io::Result<Record>>",
              outs=["self.reader.reader", "self.reader.line", "self.error_has_occured"],
              ops=FA_RD, ghosts=[("fuel", "Nat")], siblings=["new", "read", "is_empty"],
              theorem="RbV.Thm.GenSrcFasta.next_eq_model"),
     ])

FQ_REC = [("id", "String"), ("desc", "Option<String>"), ("seq", "String"), ("qual", "String")]
FQ_REC_OUTS = ["self.id", "self.desc", "self.seq", "self.qual"]
FQ_RD = ["readLine", "trimEnd"]

unit(name="SrcFastq", props="property C11", file="src/io/fastq.rs", dialect="fx",
     generics={"Rd": "ρ", "Wr": "ω"}, io_ops=RD_OPS, split_structs=["Record"], result_err="Error",
     pinned=["pub type Result<T, E = Error> = std::result::Result<T, E>;", "ReadError(#[from] io::Error),"],
     io_enums={"Error": dict(variants=[("MissingAt", []), ("ReadError", ["io::Error"]), ("IncompleteRecord", [])],
                             from_io="ReadError")},
     io_structs={"Record": dict(fields=FQ_REC,
                                pinned="pub struct Record { id: String, desc: Option<String>, seq: String, qual: String, }"),
                 "Reader": dict(tuple=True, fields=[("reader", "Rd"), ("line_buffer", "String")],
                                pinned="pub struct Reader<B> { reader: B, line_buffer: String, }"),
                 "Records": dict(tuple=True, fields=[("reader", "Reader")],
                                 pinned="pub struct Records<R: io::Read> { reader: Reader<R>, }"),
                 "Writer": dict(tuple=True, fields=[("writer", "Wr")],
                                pinned="pub struct Writer<W: io::Write> { writer: io::BufWriter<W>, }")},
     functions=[
         dict(name="Reader::from_bufread", lean="readerFromBufread", static=True,
              header="pub fn from_bufread(bufreader: B) -> Self", self_fields=[], params=[("bufreader", "Rd")],
              ret="Reader", outs=[], ops=[], theorem="RbV.Thm.GenSrcFastq.ctors_eq"),
         dict(name="Reader::records", lean="readerRecords", header="pub fn records(self) -> Records<B>",
              self_fields=[("reader", "Rd"), ("line_buffer", "String")], params=[], ret="Records", outs=[], ops=[]),
         dict(name="Writer::from_bufwriter", lean="writerFromBufwriter", static=True,
              header="pub fn from_bufwriter(bufwriter: io::BufWriter<W>) -> Self", self_fields=[],
              params=[("bufwriter", "Wr")], ret="Writer", outs=[], ops=[]),
         dict(name="Writer::write", lean="write",
              header="pub fn write( &mut self, id: &str, desc: Option<&str>, seq: TextSlice<'_>, qual: &[u8], ) -> io::Result<()>",
              self_fields=[("writer", "Wr")],
              params=[("id", "&str"), ("desc", "Option<&str>"), ("seq", "TextSlice<'_>"), ("qual", "&[u8]")],
              ret="io::Result<()>", outs=["self.writer"], ops=["writeAll"],
              theorem="RbV.Thm.GenSrcFastq.write_eq_model"),
         dict(name="Record::new", lean="recordNew", static=True, header="pub fn new() -> Self",
              after="impl Record", self_fields=[], params=[], ret="Record", outs=[], ops=[]),
         dict(name="Record::clear", lean="recordClear", header="fn clear(&mut self)", after="impl Record",
              self_fields=FQ_REC, params=[], outs=FQ_REC_OUTS, ops=[]),
         dict(name="Record::is_empty", lean="recordIsEmpty", header="pub fn is_empty(&self) -> bool", after="impl Record",
              self_fields=FQ_REC, params=[], ret="bool", outs=[], ops=[]),
         dict(name="Record::id", lean="recordId", header="pub fn id(&self) -> &str", after="impl Record",
              self_fields=FQ_REC, params=[], ret="&str", outs=[], ops=[]),
         dict(name="Record::seq", lean="recordSeq", header="pub fn seq(&self) -> TextSlice<'_>", after="impl Record",
              self_fields=FQ_REC, params=[], ret="TextSlice<'_>", outs=[], ops=["trimEnd"]),
         dict(name="Record::qual", lean="recordQual", header="pub fn qual(&self) -> &[u8]", after="impl Record",
              self_fields=FQ_REC, params=[], ret="&[u8]", outs=[], ops=["trimEnd"]),
         dict(name="Record::desc", lean="recordDesc", header="pub fn desc(&self) -> Option<&str>", after="impl Record",
              self_fields=FQ_REC, params=[], ret="Option<&str>", outs=[], ops=[]),
         dict(name="Writer::write_record", lean="writeRecord",
              header="pub fn write_record(&mut self, record: &Record) -> io::Result<()>",
              self_fields=[("writer", "Wr")], params=[("record", "&Record")],
              ret="io::Result<()>", outs=["self.writer"], ops=["writeAll", "trimEnd"],
              siblings=["write", "id", "desc", "seq", "qual"],
              theorem="RbV.Thm.GenSrcFastq.writeRecord_eq_model"),
         dict(name="Record::check", lean="recordCheck", header="pub fn check(&self) -> Result<(), &str>", after="impl Record",
              self_fields=FQ_REC, params=[], ret="Result<(), &str>", outs=[], ops=["trimEnd"], siblings=["id", "seq", "qual"],
              theorem="RbV.Thm.GenSrcFastq.check_eq_model"),
         dict(name="Reader::read", lean="read", header="fn read(&mut self, record: &mut Record) -> Result<()>",
              self_fields=[("reader", "Rd"), ("line_buffer", "String")], params=[("record", "&mut Record")],
              ret="Result<()>",
              outs=["self.reader", "self.line_buffer", "record.id", "record.desc", "record.seq", "record.qual"],
              ops=FQ_RD, ghosts=[("fuel", "Nat")], fuel="fuel", siblings=["clear"], locals={"lines_read": "i32"},
              theorem="RbV.Thm.GenSrcFastq.read_eq_model"),
         dict(name="Records::next", lean="next", header="fn next(&mut self) -> Option<Result<Record>>",
              self_fields=[("reader.reader", "Rd"), ("reader.line_buffer", "String")],
              params=[], ret="Option<Result<Record>>",
              outs=["self.reader.reader", "self.reader.line_buffer"],
              ops=FQ_RD, ghosts=[("fuel", "Nat")], siblings=["new", "read", "is_empty"],
              theorem="RbV.Thm.GenSrcFastq.next_eq_model"),
     ])


# ---- the sniffer (src/io/fastx.rs): the first byte decides, and is chained back in front of the reader
FX_OPS = {
    # `Read::read_exact(&mut [u8; 1])`: fills the buffer with the next byte or fails (`UnexpectedEof` at end of input)
    "readExact": dict(method="read_exact", mut=True, args=[dict(ty="[u8; 1]", mut=True)], ret="io::Result<()>",
                      lean_ty="σ → List Nat → Except IoErr Unit × σ × List Nat"),
    # `Seek::seek(SeekFrom::Current(d))`
    "seekCur": dict(method="seek", wrap=["SeekFrom", "Current"], args=["i64"], ret="io::Result<u64>", mut=True,
                    lean_ty="σ → Int → Except IoErr Nat × σ"),
    # `io::Cursor::new(buf).chain(reader)`: a reader that hands out the bytes of `buf`, then those of `reader`
    "chain": dict(ret="Chain", lean_ty="List Nat → σ → χ"),
}
FX_CHAIN = "io::Chain<io::Cursor<[u8; 1]>, R>"
FX_OPS.update({
    # `fasta::Reader::new(chain).records()` / `fastq::Reader::new(chain).records()`: the record iterators of the other two
    # files over a fresh `BufReader` on the chained reader
    "faRecordsNew": dict(ret="fasta::Records<R>", lean_ty="χ → α"),
    "fqRecordsNew": dict(ret="fastq::Records<R>", lean_ty="χ → β"),
})
FX_EITHER = [("records", "Option<EitherRecordsInner<R>>"), ("reader", "Option<R>")]
FX_OPS.update({
    # `Iterator::next` of the two record iterators (translated in `Gen/SrcFasta.lean` / `SrcFastq.lean`; abstract here)
    "faNext": dict(method="next", recv="fasta::Records<R>", mut=True, args=[], ret="Option<io::Result<fasta::Record>>",
                   lean_ty="α → Option (Except IoErr γ) × α"),
    "fqNext": dict(method="next", recv="fastq::Records<R>", mut=True, args=[], ret="Option<Result<fastq::Record, fastq::Error>>",
                   lean_ty="β → Option (Except ε δ) × β"),
})

unit(name="SrcFastx", props="property C11", file="src/io/fastx.rs", dialect="fx",
     generics={"R": "σ", "Chain": "χ", "Cursor": "χ", "fasta::Records": "α", "fastq::Records": "β",
               "fasta::Record": "γ", "fastq::Record": "δ", "fastq::Error": "ε"}, io_ops=FX_OPS, result_err="Error",
     records_ops={"fasta": "faRecordsNew", "fastq": "fqRecordsNew"},
     pinned=["pub enum Kind { FASTQ, FASTA, }",
             "enum EitherRecordsInner<R: BufRead> { FASTA(fasta::Records<R>), FASTQ(fastq::Records<R>), }",
             "pub struct EitherRecords<R: BufRead> { records: Option<EitherRecordsInner<BufReader<io::Chain<io::Cursor<[u8; 1]>, R>>>>, "
             "reader: Option<R>, }",
             "pub enum EitherRecord { FASTA(fasta::Record), FASTQ(fastq::Record), }",
             "pub enum Error { IO(io::Error), FASTQ(fastq::Error), }"],
     io_enums={"Kind": dict(variants=[("FASTQ", []), ("FASTA", [])]),
               # the enum over the two record iterators is the sum type of their (abstract) states
               "EitherRecordsInner": dict(variants=[("FASTA", ["fasta::Records<R>"]), ("FASTQ", ["fastq::Records<R>"])],
                                          lean="(α ⊕ β)", ctors={"FASTA": "Sum.inl", "FASTQ": "Sum.inr"}),
               "EitherRecord": dict(variants=[("FASTA", ["fasta::Record"]), ("FASTQ", ["fastq::Record"])],
                                    lean="(γ ⊕ δ)", ctors={"FASTA": "Sum.inl", "FASTQ": "Sum.inr"}),
               "Error": dict(variants=[("IO", ["io::Error"]), ("FASTQ", ["fastq::Error"])],
                             lean="(IoErr ⊕ ε)", ctors={"IO": "Sum.inl", "FASTQ": "Sum.inr"})},
     functions=[
         dict(name="get_kind_detailed", lean="getKindDetailed", free=True,
              header="pub fn get_kind_detailed<R: Read>( mut reader: R, ) -> std::result::Result<(" + FX_CHAIN
                     + ", io::Result<Kind>), (R, io::Error)>",
              self_fields=[], params=[("reader", "R")],
              ret="Result<(" + FX_CHAIN + ", io::Result<Kind>), (R, io::Error)>", outs=[],
              ops=["readExact", "chain"], locals={"buf": "[u8; 1]"},
              theorem="RbV.Thm.GenSrcFastx.getKindDetailed_eq_model"),
         dict(name="get_kind", lean="getKind", free=True,
              header="pub fn get_kind<R: Read>(reader: R) -> io::Result<(" + FX_CHAIN + ", Kind)>",
              self_fields=[], params=[("reader", "R")], ret="io::Result<(" + FX_CHAIN + ", Kind)>", outs=[],
              ops=["readExact", "chain"], siblings=["get_kind_detailed"],
              theorem="RbV.Thm.GenSrcFastx.getKind_eq_model"),
         dict(name="get_kind_seek", lean="getKindSeek", free=True,
              header="pub fn get_kind_seek<R: Read + io::Seek>(reader: &mut R) -> io::Result<Kind>",
              self_fields=[], params=[("reader", "&mut R")], ret="io::Result<Kind>", outs=["reader"],
              ops=["readExact", "seekCur"], locals={"buf": "[u8; 1]"},
              theorem="RbV.Thm.GenSrcFastx.getKindSeek_eq_model"),
         dict(name="EitherRecords::initialize", lean="eitherInitialize", header="fn initialize(&mut self) -> io::Result<()>",
              self_fields=FX_EITHER, params=[], ret="io::Result<()>", outs=["self.records", "self.reader"],
              ops=["readExact", "chain", "faRecordsNew", "fqRecordsNew"], siblings=["get_kind"],
              theorem="RbV.Thm.GenSrcFastx.eitherInitialize_eq_model"),
         dict(name="EitherRecords::kind", lean="eitherKind", header="pub fn kind(&mut self) -> io::Result<Kind>",
              self_fields=FX_EITHER, params=[], ret="io::Result<Kind>", outs=["self.records", "self.reader"],
              ops=["readExact", "chain", "faRecordsNew", "fqRecordsNew"], siblings=["initialize"],
              theorem="RbV.Thm.GenSrcFastx.eitherKind_eq_model"),
         dict(name="EitherRecords::next", lean="eitherNext", header="fn next(&mut self) -> Option<Self::Item>",
              after="impl<R: BufRead> Iterator for EitherRecords<R>",
              self_fields=FX_EITHER, params=[], ret="Option<Result<EitherRecord>>", outs=["self.records", "self.reader"],
              ops=["readExact", "chain", "faRecordsNew", "fqRecordsNew", "faNext", "fqNext"], siblings=["initialize"],
              theorem="RbV.Thm.GenSrcFastx.eitherNext_eq_model"),
     ])


# ================================================================================================== self-test

SELFTEST_RS = r"""
pub struct Rec {
    name: String,
    body: String,
}

impl Rec {
    pub fn new() -> Self {
        Rec {
            name: String::new(),
            body: String::new(),
        }
    }

    fn clear(&mut self) {
        self.name.clear();
        self.body.clear();
    }
}

impl Rd {
    fn read(&mut self, rec: &mut Rec) -> io::Result<()> {
        rec.clear();
        self.line.clear();
        self.reader.read_line(&mut self.line)?;
        if !self.line.starts_with('#') {
            return Err(io::Error::new(io::ErrorKind::Other, "no hash"));
        }
        let mut parts = self.line[1..].trim_end().splitn(2, |c: char| c == ':' || c == ' ');
        rec.name = parts.next().unwrap_or_default().to_owned();
        let mut n = 0;
        loop {
            self.line.clear();
            self.reader.read_line(&mut self.line)?;
            if self.line.is_empty() {
                break;
            }
            rec.body.push_str(self.line.trim_end());
            n += 1;
        }
        for _ in 0..n {
            rec.body.push_str("");
        }
        Ok(())
    }
}

impl Wr {
    pub fn put(&mut self, name: &str, body: &[u8], width: Option<usize>) -> io::Result<()> {
        self.writer.write_all(b"#")?;
        self.writer.write_all(name.as_bytes())?;
        self.writer.write_all(b"\n")?;
        match width {
            Some(w) if w > 0 => {
                for line in body.chunks(w) {
                    self.put_line(line)?;
                }
                Ok(())
            }
            _ => body.chunks(1).try_for_each(|c| -> io::Result<()> {
                self.writer.write_all(c)?;
                Ok(())
            }),
        }
    }

    // a private helper that is not in the translation spec: found in the source and translated on the fly
    fn put_line(&mut self, line: &[u8]) -> io::Result<()> {
        self.writer.write_all(line)?;
        self.writer.write_all(b"\n")
    }
}
"""

SELFTEST_UNIT = dict(
    name="SrcFxSelfTest", props="self-test", file="src/selftest.rs", dialect="fx", generics={"Rd": "ρ", "Wr": "ω"},
    io_ops=RD_OPS, split_structs=["Rec"],
    io_structs={"Rec": dict(fields=[("name", "String"), ("body", "String")], pinned="pub struct Rec { name: String, body: String, }")},
    functions=[
        dict(name="Rec::new", lean="recNew", static=True, header="pub fn new() -> Self", self_fields=[], params=[], ret="Rec",
             outs=[], ops=[]),
        dict(name="Rec::clear", lean="recClear", header="fn clear(&mut self)", self_fields=[("name", "String"), ("body", "String")],
             params=[], outs=["self.name", "self.body"], ops=[]),
        dict(name="Rd::read", lean="read", header="fn read(&mut self, rec: &mut Rec) -> io::Result<()>",
             self_fields=[("reader", "Rd"), ("line", "String")], params=[("rec", "&mut Rec")], ret="io::Result<()>",
             outs=["self.reader", "self.line", "rec.name", "rec.body"], ops=["readLine", "trimEnd"], ghosts=[("fuel", "Nat")],
             fuel="fuel", siblings=["clear"], locals={"n": "i32"}),
        dict(name="Wr::put", lean="put", header="pub fn put(&mut self, name: &str, body: &[u8], width: Option<usize>) -> io::Result<()>",
             self_fields=[("writer", "Wr")], params=[("name", "&str"), ("body", "&[u8]"), ("width", "Option<usize>")],
             ret="io::Result<()>", outs=["self.writer"], ops=["writeAll"]),
    ])

SELFTEST2_RS = r"""
pub enum Tag { A, B, }

enum Inner<R> { X(xs::It<R>), Y(ys::It<R>), }

pub fn peek<R: Read>(mut reader: R) -> std::result::Result<(io::Chain<io::Cursor<[u8; 1]>, R>, Tag), (R, io::Error)> {
    let mut buf = [0];
    if let Err(err) = reader.read_exact(&mut buf) {
        return Err((reader, err));
    }
    let first = char::from(buf[0]);
    let chained = io::Cursor::new(buf).chain(reader);
    match first {
        'a' | 'A' => Ok((chained, Tag::A)),
        _ => Ok((chained, Tag::B)),
    }
}

impl Holder {
    fn open(&mut self) -> io::Result<Tag> {
        if let Some(reader) = mem::replace(&mut self.reader, None) {
            match peek(reader) {
                Err((_, err)) if err.kind() == io::ErrorKind::UnexpectedEof => return Ok(Tag::B),
                Err((_, err)) => return Err(err),
                Ok((r, Tag::A)) => { self.inner = Some(Inner::X(xs::It::new(r))) }
                Ok((r, Tag::B)) => { self.inner = Some(Inner::Y(ys::It::new(r))) }
            }
        }
        Ok(Tag::A)
    }

    fn step(&mut self) -> Option<u8> {
        match &mut self.inner {
            Some(Inner::X(it)) => it.next(),
            Some(Inner::Y(it)) => it.next().map(|b| b),
            None => None,
        }
    }
}
"""

SELFTEST2_OPS = {
    "readExact": dict(method="read_exact", mut=True, args=[dict(ty="[u8; 1]", mut=True)], ret="io::Result<()>",
                      lean_ty="σ → List Nat → Except IoErr Unit × σ × List Nat"),
    "chain": dict(ret="Chain", lean_ty="List Nat → σ → χ"),
    "xNext": dict(method="next", recv="xs::It<R>", mut=True, args=[], ret="Option<u8>", lean_ty="α → Option Nat × α"),
    "yNext": dict(method="next", recv="ys::It<R>", mut=True, args=[], ret="Option<u8>", lean_ty="β → Option Nat × β"),
    "xNew": dict(ret="xs::It<R>", lean_ty="χ → α"),
    "yNew": dict(ret="ys::It<R>", lean_ty="χ → β"),
}
SELFTEST2_FIELDS = [("inner", "Option<Inner<R>>"), ("reader", "Option<R>")]
SELFTEST2_UNIT = dict(
    name="SrcFxSelfTest2", props="self-test", file="src/selftest.rs", dialect="fx",
    generics={"R": "σ", "Chain": "χ", "Cursor": "χ", "xs::It": "α", "ys::It": "β"}, io_ops=SELFTEST2_OPS,
    pinned=["pub enum Tag { A, B, }"], abs_ctors={"xs::It::new": "xNew", "ys::It::new": "yNew"},
    io_enums={"Tag": dict(variants=[("A", []), ("B", [])]),
              "Inner": dict(variants=[("X", ["xs::It<R>"]), ("Y", ["ys::It<R>"])], lean="(α ⊕ β)",
                            ctors={"X": "Sum.inl", "Y": "Sum.inr"})},
    functions=[
        dict(name="peek", lean="peek", free=True,
             header="pub fn peek<R: Read>(mut reader: R) -> std::result::Result<(io::Chain<io::Cursor<[u8; 1]>, R>, Tag), (R, io::Error)>",
             self_fields=[], params=[("reader", "R")], ret="Result<(io::Chain<io::Cursor<[u8; 1]>, R>, Tag), (R, io::Error)>",
             outs=[], ops=["readExact", "chain"], locals={"buf": "[u8; 1]"}),
        dict(name="Holder::open", lean="holderOpen", header="fn open(&mut self) -> io::Result<Tag>", self_fields=SELFTEST2_FIELDS,
             params=[], ret="io::Result<Tag>", outs=["self.inner", "self.reader"], ops=["readExact", "chain", "xNew", "yNew"],
             siblings=["peek"]),
        dict(name="Holder::step", lean="holderStep", header="fn step(&mut self) -> Option<u8>", self_fields=SELFTEST2_FIELDS,
             params=[], ret="Option<u8>", outs=["self.inner", "self.reader"], ops=["xNext", "yNext"]),
    ])

SELFTEST2_EVAL = r"""
open RbV RbV.Rs RbV.Gen.SrcFxSelfTest2
def rdx : List Nat → List Nat → Except IoErr Unit × List Nat × List Nat := fun s buf =>
  match s with | [] => (.error ⟨"UnexpectedEof", "eof"⟩, [], buf) | b :: r => (.ok (), r, [b])
def ch : List Nat → List Nat → List Nat := fun b s => b ++ s
def nx : List Nat → Option Nat × List Nat := fun l => (l.head?, l.drop 1)
#eval (holderOpen rdx ch id id (none : Option (List Nat ⊕ List Nat)) (some [65, 7]))
#eval (holderOpen rdx ch id id (none : Option (List Nat ⊕ List Nat)) (some [9, 7]))
#eval (holderOpen rdx ch id id (none : Option (List Nat ⊕ List Nat)) (some []))
#eval (holderStep nx nx (some (Sum.inr [9, 7]) : Option (List Nat ⊕ List Nat)) (none : Option (List Nat)))
"""
SELFTEST2_EXPECT = [
    "Res.ok (Except.ok (RbV.Gen.SrcFxSelfTest2.Tag.A), some (Sum.inl [65, 7]), none)",
    "Res.ok (Except.ok (RbV.Gen.SrcFxSelfTest2.Tag.A), some (Sum.inr [9, 7]), none)",
    "Res.ok (Except.ok (RbV.Gen.SrcFxSelfTest2.Tag.B), none, none)",
    "Res.ok (some 9, some (Sum.inr [7]), none)",
]

# (statement text placed in `fn f(&mut self, s: &str) -> io::Result<()> { … }`, substring expected in the refusal)
SELFTEST_REFUSED = [
    ("let x = s.find(char::is_whitespace); Ok(())", "method `.find"),
    ("let y = s.trim_end(); Ok(())", "abstract operation `trimEnd`"),
    ("let z = s.splitn(3, ' '); Ok(())", "literal 2"),
    ("let z = s.splitn(2, 'é'); Ok(())", "non-ASCII"),
    ("let z = s.splitn(2, |c: char| c.is_numeric()); Ok(())", "pattern closure"),
    ("loop { loop { break; } } Ok(())", "nested loops|fuel"),
    ("match s.len() { n if n > 0 => Ok(()), 1 => Ok(()), _ => Ok(()) }", "guard"),
    ("if s.starts_with(\"ab\") { return Ok(()); } Ok(())", "ASCII `char` literal"),
    ("while s.is_empty() { continue; } Ok(())", "continue|fuel"),
]

SELFTEST_EVAL = r"""
open RbV RbV.Rs RbV.Gen.SrcFxSelfTest
def rdl : List Nat → List Nat → Except IoErr Nat × List Nat × List Nat := fun rd s =>
  let l := rd.takeWhile (· != 10) ++ (rd.dropWhile (· != 10)).take 1
  (.ok l.length, rd.drop l.length, s ++ l)
def trimE : List Nat → List Nat := fun s => (s.reverse.dropWhile (fun b => b == 10 || b == 32)).reverse
def wr : List Nat → List Nat → Except IoErr Unit × List Nat := fun w b => (.ok (), w ++ b)
-- "#ab:c\nxy\nz\n"
#eval (read rdl trimE [35, 97, 98, 58, 99, 10, 120, 121, 10, 122, 10] [] [] [] 10)
#eval (read rdl trimE [97, 10] [] [] [] 10)
#eval (put wr [] [110] [65, 67, 71, 84, 65] (some 2))
#eval (put wr [] [110] [65, 67] none)
#eval (put wr [] [110] [65, 67] (some 0))
"""

SELFTEST_EXPECT = [
    "Res.ok (Except.ok (), [], [], [97, 98], [120, 121, 122])",
    'Res.ok (Except.error { kind := "Other", msg := "no hash" }, [], [97, 10], [], [])',
    "Res.ok (Except.ok (), [35, 110, 10, 65, 67, 10, 71, 84, 10, 65, 10])",
    "Res.ok (Except.ok (), [35, 110, 10, 65, 67])",
    "Res.ok (Except.ok (), [35, 110, 10, 65, 67])",
]


class _Src(object):
    """minimal stand-in for gen_tables.Src over a text"""

    def __init__(self, text, rel):
        self.rel, self.raw, self.code, self.snippets = rel, text, text, {}

    def line_of(self, pos):
        return self.code.count("\n", 0, pos) + 1

    def fn_body(self, header_rx, what):
        ms = list(re.finditer(header_rx, self.code))
        if len(ms) != 1:
            raise SystemExit("%s: %d matches" % (what, len(ms)))
        start = self.code.find("{", ms[0].end() - 1)
        depth = 0
        for i in range(start, len(self.code)):
            if self.code[i] == "{":
                depth += 1
            elif self.code[i] == "}":
                depth -= 1
                if depth == 0:
                    return self.code[start + 1:i], self.line_of(start)
        raise SystemExit("unbalanced")


def selftest(with_lean):
    def fail(msg):
        raise SystemExit("selftest: " + msg)
    text1, _ = translate_unit(_Src(SELFTEST_RS, "src/selftest.rs"), SELFTEST_UNIT, fail)
    text2, _ = translate_unit(_Src(SELFTEST_RS, "src/selftest.rs"), SELFTEST_UNIT, fail)
    if text1 != text2:
        raise SystemExit("selftest: translation is not deterministic")
    for need in ("read_loop1", "read_for1", "read_pat1", "put_for1", "put_each1", "Rs.strFrom", "Rs.chunks", "Rs.add 31", "def putLine"):
        if need not in text1:
            raise SystemExit("selftest: expected `%s` in the translation" % need)
    n_ref = 0
    for stmt, expect in SELFTEST_REFUSED:
        rs_text = "impl X {\n    fn f(&mut self, s: &str) -> io::Result<()> {\n        %s\n    }\n}\n" % stmt
        u = dict(name="SrcFxRefuse", props="self-test", file="src/selftest.rs", dialect="fx", generics={"Rd": "ρ"}, io_ops=RD_OPS,
                 functions=[dict(name="X::f", lean="f", header="fn f(&mut self, s: &str) -> io::Result<()>", self_fields=[],
                                 params=[("s", "&str")], ret="io::Result<()>", outs=[], ops=[])])
        msgs = []

        def fail2(msg):
            msgs.append(msg)
            raise SystemExit(1)
        try:
            translate_unit(_Src(rs_text, "src/selftest.rs"), u, fail2)
            raise SystemExit("selftest: `%s` was translated, expected a refusal (%s)" % (stmt, expect))
        except SystemExit as ex:
            if not msgs:
                raise
            if not re.search(expect, msgs[0]):
                raise SystemExit("selftest: `%s` refused for another reason: %s" % (stmt, msgs[0]))
            n_ref += 1
    text3, _ = translate_unit(_Src(SELFTEST2_RS, "src/selftest.rs"), SELFTEST2_UNIT, fail)
    text4, _ = translate_unit(_Src(SELFTEST2_RS, "src/selftest.rs"), SELFTEST2_UNIT, fail)
    if text3 != text4:
        raise SystemExit("selftest: translation of the second unit is not deterministic")
    for need in ("| 97 | 65 =>", "Sum.inl (xNew", "let inner := some ((Sum.inr it))", "(err.kind == \"UnexpectedEof\")"):
        if need not in text3:
            raise SystemExit("selftest: expected `%s` in the translation of the second unit" % need)
    print("rs2lean_genfx selftest: 4 + 3 functions translated deterministically, %d refusals as expected" % n_ref)
    if with_lean:
        import subprocess, tempfile
        root = os.path.join(os.path.dirname(os.path.abspath(__file__)), "..", "lean")
        d = tempfile.mkdtemp(prefix="genfx-selftest-", dir=os.environ.get("GENFX_TMP", "/var/tmp"))
        p = os.path.join(d, "SelfTest.lean")
        with open(p, "w", encoding="utf8") as fh:
            fh.write(text1 + SELFTEST_EVAL)
        r = subprocess.run(["lake", "env", "lean", p], cwd=root, stdout=subprocess.PIPE, stderr=subprocess.STDOUT, text=True, timeout=600)
        out = " ".join(r.stdout.split())
        import shutil
        shutil.rmtree(d, ignore_errors=True)
        if r.returncode != 0:
            raise SystemExit("selftest: lean failed:\n" + r.stdout[-3000:])
        for exp in SELFTEST_EXPECT:
            if " ".join(exp.split()) not in out:
                raise SystemExit("selftest: expected `%s` in the evaluation output:\n%s" % (exp, r.stdout[-3000:]))
        d = tempfile.mkdtemp(prefix="genfx-selftest-", dir=os.environ.get("GENFX_TMP", "/var/tmp"))
        p = os.path.join(d, "SelfTest2.lean")
        with open(p, "w", encoding="utf8") as fh:
            fh.write(text3 + SELFTEST2_EVAL)
        r = subprocess.run(["lake", "env", "lean", p], cwd=root, stdout=subprocess.PIPE, stderr=subprocess.STDOUT, text=True, timeout=600)
        out = " ".join(r.stdout.split())
        shutil.rmtree(d, ignore_errors=True)
        if r.returncode != 0:
            raise SystemExit("selftest: lean failed on the second unit:\n" + r.stdout[-3000:])
        for exp in SELFTEST2_EXPECT:
            if " ".join(exp.split()) not in out:
                raise SystemExit("selftest: expected `%s` in the evaluation output of the second unit:\n%s" % (exp, r.stdout[-3000:]))
        print("rs2lean_genfx selftest: compiled and evaluated with lean (%d + %d values as expected)"
              % (len(SELFTEST_EXPECT), len(SELFTEST2_EXPECT)))


def main():
    import argparse
    ap = argparse.ArgumentParser()
    ap.add_argument("--selftest", action="store_true")
    ap.add_argument("--lean", action="store_true")
    ap.add_argument("--unit")
    ap.add_argument("--repo", default="/repo")
    a = ap.parse_args()
    if a.selftest:
        selftest(a.lean)
        return
    if a.unit:
        u = UNITS[a.unit]
        raw = open(os.path.join(a.repo, u["file"]), encoding="utf8").read()
        sys.path.insert(0, os.path.dirname(os.path.abspath(__file__)))
        import gen_tables

        def fail(msg):
            raise SystemExit("error: " + msg)
        s = gen_tables.Src(a.repo, u["file"])
        text, _ = translate_unit(s, u, fail)
        sys.stdout.write(text)


if __name__ == "__main__":
    main()
