#!/usr/bin/env python3
"""Rust -> Lean translator, dialect "align" (builder genalign): `alignment/pairwise/mod.rs` (property C01; the cell / matrix
part also for C02).

Own code generator over the tokenizer / header pinning of tools/rs2lean_cfbase.py and the statement / expression parser
`P` of tools/rs2lean_gensparse.py (imported and subclassed, not edited).  Semantics: `lean/RbV/Basic/RsSem.lean`,
`RsSemInt.lean`, `RsSemBits.lean`, `RsSemGensparse.lean` (`castSigned`), `RsSemGenalign.lean` (`imul`, `extendRepeat`, the
types of bio-types).  docs/notes/GEN.md, section "Dialect align", is the reference.  What it reads:

  structs      the structs of the spec are Lean `structure`s with the Rust field names, generated from the spec and **pinned**
               against the declaration in the source (`pinned_items`); skipped fields (`struct_skip`: the generic
               `match_fn: F`) are abstract function parameters of the functions that use them
  values       every variable is a value; mutation = shadowing under the same Lean name; `&mut self` methods return the new
               `self` (`Res Self`, or `Res (Ret × Self)` when they return a value); a call `place.m(..)` of such a method
               writes the result back to the place (`x`, `x.f.g`, `x.f[i][j]`); `x.get_mut(i, j).m(..)` goes through a
               *place accessor*: the translated `get_mut` (read) and `get_mut_put` (the same index expression, written)
  types        u8 / u16 / usize (checked `Nat`: `Rs.add w`, `Rs.sub`, `Rs.mul w`, `Rs.shl w`, `Rs.shr w`, `&&& |||`,
               `Rs.not w`), i32 (checked `Int`: `Rs.iadd 32`, `Rs.isub 32`, `Rs.imul 32`), `x as i32` from usize
               (`Rs.castSigned 32`), bool, `Vec<T>` / slices / `[Vec<T>; 2]` / `TextSlice` (lists), `Option<(i32, i32)>`
               (carried only), the bio-types `Alignment`, `AlignmentOperation`, `AlignmentMode`
  statements   `let [mut] pat [: T] [= e];` (also without initialiser), assignments to places (compound ones normalised),
               `if` / `else if` / `else` (value = the outer variables assigned in a branch, in declaration order),
               `for i in a..b | a..=b` = `List.foldlM` of a named body function `<fn>_for<k>` (nested loops = nested
               helpers; state = the outer variables assigned in the body, captures = the other outer variables mentioned,
               both in declaration order), `loop { .. }` with `break` = recursive helper `<fn>_loop<k>` on the ghost fuel
               (an `if` / `match` containing `break` or `panic!` takes the rest of the loop body into its arms), `match` on
               an integer with constant patterns and a final `_` arm, block statements, `assert!`, `debug_assert!` (read
               as `assert!`: the stronger reading), `v.clear()`, `v.push(e)`, `v.reverse()`, `v.resize(n, x)`,
               `v.extend(repeat(x).take(n))`
  expressions  literals, constants of the spec (`TB_*`, `*_POS`, `MIN_SCORE` = the definitions of `RbV/Gen/TbCodes.lean`,
               `RbV/Gen/Limits.lean`, regenerated from the same text), `max`, comparisons, `&& || !` (short circuit kept when
               the right operand can panic), `v[i]`, `.len()`, field access, struct literals, `Default::default()`,
               `Vec::with_capacity(n)` (argument evaluated), `[a, b, c, d]`, `if` as expression, calls of translated
               functions of this module's units and of the abstract functions of the spec

Everything else raises `Unsupported` -> `gen_tables: ... cannot translate ...` -> the unit is `translation_unavailable`.
"""
import sys, os, re

sys.path.insert(0, os.path.dirname(os.path.abspath(__file__)))
import rs2lean_cfbase as cb
import rs2lean_gensparse as sp

Unsupported, tokenize, Tok, header_regex, dedent = cb.Unsupported, cb.tokenize, cb.Tok, cb.header_regex, cb.dedent
N, walk, tokens_regex = sp.N, sp.walk, sp.tokens_regex

LEAN_KEYWORDS = set(cb.LEAN_KEYWORDS) | {"matches", "id", "max", "min", "st", "it", "fuel"}
INT_W = {"u8": 8, "u16": 16, "u32": 32, "u64": 64, "usize": 64, "i32": 32}
SIGNED = {"i32"}


# ================================================================================================== types

class Ty:
    def __ne__(self, o):
        return not self.__eq__(o)

    def __hash__(self):
        return hash(repr(self))

    def __eq__(self, o):
        return repr(self) == repr(o)


class TInt(Ty):
    def __init__(self, name):
        self.name = name
        self.w = INT_W[name]
        self.signed = name in SIGNED

    def lean(self):
        return "Int" if self.signed else "Nat"

    def __repr__(self):
        return self.name


class TBool(Ty):
    def lean(self):
        return "Bool"

    def __repr__(self):
        return "bool"


class TUnit(Ty):
    def lean(self):
        return "Unit"

    def __repr__(self):
        return "()"


class TVec(Ty):
    def __init__(self, elem):
        self.elem = elem

    def lean(self):
        return "List " + paren(self.elem.lean())

    def __repr__(self):
        return "Vec<%r>" % self.elem


class TTup(Ty):
    def __init__(self, items):
        self.items = items

    def lean(self):
        return " × ".join(paren(t.lean()) for t in self.items)

    def __repr__(self):
        return "(%s)" % ", ".join(map(repr, self.items))


class TOpt(Ty):
    def __init__(self, elem):
        self.elem = elem

    def lean(self):
        return "Option " + paren(self.elem.lean())

    def __repr__(self):
        return "Option<%r>" % self.elem


class TStruct(Ty):
    def __init__(self, name, lean_name=None):
        self.name, self.lean_name = name, lean_name or name

    def lean(self):
        return self.lean_name

    def __repr__(self):
        return self.name


def paren(s):
    s = s.strip()
    if re.fullmatch(r"[\w.']+", s) or (s[:1] in "([{" and sp.matching(s)):
        return s
    return "(" + s + ")"


EXT_TYPES = {"Alignment": "Rs.Alignment", "AlignmentOperation": "Rs.AlignmentOperation", "AlignmentMode": "Rs.AlignmentMode"}
EXT_FIELDS = {"Alignment": [("score", "i32"), ("ystart", "usize"), ("xstart", "usize"), ("yend", "usize"), ("xend", "usize"),
                            ("ylen", "usize"), ("xlen", "usize"), ("operations", "Vec<AlignmentOperation>"),
                            ("mode", "AlignmentMode")]}
ENUM_CTORS = {"AlignmentOperation": {"Match": [], "Subst": [], "Del": [], "Ins": [], "Xclip": ["usize"], "Yclip": ["usize"]},
              "AlignmentMode": {"Local": [], "Semiglobal": [], "Global": [], "Custom": []}}


# ================================================================================================== parser

class PA(sp.P):
    """`P` of rs2lean_gensparse.py + `loop`, `break`, `panic!`, array types, lifetimes in generic arguments, array literals"""

    def type_(self):
        x = self.peek()
        if self.at("["):
            self.next()
            e = self.type_()
            if self.at(";"):
                self.next()
                self.next()
            self.expect("]")
            return N("ty", x.pos, name="[]", args=[e])
        if self.at("&") or self.at("("):
            return sp.P.type_(self)
        segs = [self.ident().text]
        while self.at("::"):
            self.next()
            segs.append(self.ident().text)
        args = []
        if self.at("<"):
            self.next()
            while not self.at(">") and not self.at(">>"):
                if self.peek().kind == "life":
                    self.next()
                else:
                    args.append(self.type_())
                if self.at(","):
                    self.next()
            self.close_angle()
        return N("ty", x.pos, name=segs[-1], args=args)

    def expect(self, text):
        if text == ";" and (self.peek().kind == "eof" or self.at("}")):
            return self.peek()                               # `x = e` as the last statement of a block, without `;`
        return sp.P.expect(self, text)

    def stmt(self):
        x = self.peek()
        if self.at("loop"):
            self.next()
            return N("loop", x.pos, body=self.block())
        if self.at("break"):
            self.next()
            if self.at(";"):
                self.next()
            return N("break", x.pos)
        return sp.P.stmt(self)

    def primary(self, no_struct):
        x = self.peek()
        if x.kind == "id" and x.text == "break":
            self.next()
            return N("break", x.pos)
        if x.kind == "op" and x.text == "[":
            self.next()
            items = []
            while not self.at("]"):
                items.append(self.expr())
                if self.at(";"):
                    raise Unsupported("array repeat expression", x.pos)
                if self.at(","):
                    self.next()
            self.expect("]")
            return N("array", x.pos, items=items)
        return sp.P.primary(self, no_struct)

    def macro(self, x, name):
        if name in ("panic", "unreachable"):
            open_ = self.next()
            close = {"(": ")", "[": "]", "{": "}"}[open_.text]
            d = 1
            while d:
                t = self.next()
                if t.kind == "eof":
                    raise Unsupported("unterminated macro", x.pos)
                if t.kind == "op" and t.text == open_.text:
                    d += 1
                elif t.kind == "op" and t.text == close:
                    d -= 1
            return N("panic", x.pos)
        return sp.P.macro(self, x, name)


# ================================================================================================== code generator

def unparse(e):
    """canonical source text of an operand (for matching the condition holes of the spec)"""
    k = e.kind
    if k == "var":
        return e.name
    if k == "lit":
        return str(e.v)
    if k == "field":
        return "%s.%s" % (unparse(e.recv), e.name)
    if k == "index":
        return "%s[%s]" % (unparse(e.recv), unparse(e.idx))
    if k == "bin":
        return "%s %s %s" % (unparse(e.l), e.op, unparse(e.r))
    if k == "cast":
        return "(%s as %s)" % (unparse(e.e), e.ty.name)
    if k == "mcall":
        return "%s.%s(%s)" % (unparse(e.recv), e.name, ", ".join(unparse(a) for a in e.args))
    if k == "call":
        return "%s(%s)" % ("::".join(e.path), ", ".join(unparse(a) for a in e.args))
    if k == "un":
        return "%s%s" % (e.op, unparse(e.e))
    return "<%s>" % k


class Var:
    def __init__(self, rust, lean, ty, seq):
        self.rust, self.lean, self.ty, self.seq = rust, lean, ty, seq
        self.bound = True


class Blk:
    def __init__(self, ind=0):
        self.lines = []

    def add(self, s):
        self.lines.append(s)

    def let(self, pat, rhs):
        self.lines.append("let %s := %s" % (pat, rhs))

    def bind(self, pat, rhs):
        self.lines.append("let %s ← %s" % (pat, rhs))

    def nest(self, other, ind=2):
        for l in other.lines:
            self.lines.append(" " * ind + l)


SIGS = {}          # (self type or None, rust name) -> signature of a translated function (all units of this module)


def sig_of(unit, f):
    return dict(unit=unit["name"], lean=f["lean"], self_kind=f.get("self_kind"), self_ty=f.get("self_ty"),
                params=[t for _, t in f["params"]], ret=f.get("ret"),
                abs=[n for n, _ in unit.get("abstract", [])] + [h[0] for h in unit.get("cond_holes", [])],
                ghosts=[n for n, _ in f.get("ghosts", [])], place=f.get("place", False))


class Fn:
    def __init__(self, unit, fspec):
        self.unit, self.f = unit, fspec
        self.lean = fspec["lean"]
        self.scopes = [{}]
        self.seq_no = 0
        self.ntmp = 0
        self.nloop = {"for": 0, "loop": 0}
        self.helpers = []
        self.abs = list(unit.get("abstract", [])) + [(h[0], "Int → Int → Bool") for h in unit.get("cond_holes", [])]
        self.consts = unit.get("consts", {})
        self.loop_ctx = []                                  # stack of (break_text, continue_text)
        self.used_names = set()

    # ---------------------------------------------------------------- helpers
    def err(self, msg, node=None):
        raise Unsupported(msg, node.pos if node is not None else None)

    def tmp(self):
        while True:
            self.ntmp += 1
            n = "t%d" % self.ntmp
            if n not in self.used_names:
                return n

    def abs_decl(self):
        return "".join(" (%s : %s)" % (n, t) for n, t in self.abs)

    def abs_use(self):
        return "".join(" " + n for n, _ in self.abs)

    def ty_of_text(self, s):
        toks = tokenize(s, 0)
        return self.ty(PA(toks).type_())

    def ty(self, n):
        nm = n.name
        if nm in INT_W:
            return TInt(nm)
        if nm == "bool":
            return TBool()
        if nm == "()":
            if not n.args:
                return TUnit()
            return TTup([self.ty(a) for a in n.args])
        if nm in ("Vec", "[]"):
            return TVec(self.ty(n.args[0]))
        if nm == "TextSlice":
            return TVec(TInt("u8"))
        if nm == "Option":
            return TOpt(self.ty(n.args[0]))
        if nm == "Self":
            return TStruct(self.f["self_ty"])
        if nm in self.unit.get("structs", {}) or nm in ALL_STRUCTS:
            return TStruct(nm)
        if nm in EXT_TYPES:
            return TStruct(nm, EXT_TYPES[nm])
        self.err("type `%s`" % nm, n)

    def fields_of(self, sty, node=None):
        if sty.name in EXT_FIELDS:
            return [(n, self.ty_of_text(t)) for n, t in EXT_FIELDS[sty.name]]
        if sty.name in ALL_STRUCTS:
            return [(n, self.ty_of_text(t)) for n, t in ALL_STRUCTS[sty.name]]
        self.err("fields of `%s`" % sty.name, node)

    def zero(self, t, node=None):
        if isinstance(t, TInt):
            return "0"
        if isinstance(t, TBool):
            return "false"
        if isinstance(t, TVec):
            return "[]"
        if isinstance(t, TOpt):
            return "none"
        if isinstance(t, TStruct) and t.name in ALL_STRUCTS:
            return "({ %s } : %s)" % (", ".join("%s := %s" % (n, self.zero(ft, node)) for n, ft in self.fields_of(t, node)), t.lean())
        self.err("default value of %r" % t, node)

    def lean_name(self, rust):
        return rust + "_" if rust in LEAN_KEYWORDS else rust

    def lookup(self, name, node=None):
        for sc in reversed(self.scopes):
            if name in sc:
                return sc[name]
        self.err("unknown variable `%s`" % name, node)

    def visible(self, name):
        return any(name in sc for sc in self.scopes)

    def declare(self, name, ty, node=None):
        if self.visible(name) and len(self.scopes) > 1 and name not in self.scopes[-1]:
            # shadowing of a variable of an enclosing block: allowed only when the outer one is not mutated inside (checked
            # by the state analysis, which refuses such bodies)
            pass
        self.seq_no += 1
        v = Var(name, self.lean_name(name), ty, self.seq_no)
        self.scopes[-1][name] = v
        self.used_names.add(v.lean)
        return v

    # ---------------------------------------------------------------- analysis: assigned / mentioned outer variables
    def root_var(self, e):
        while True:
            if e.kind == "var":
                return e.name
            if e.kind in ("field", "index"):
                e = e.recv
            elif e.kind == "mcall" and self.is_place_accessor(e):
                e = e.recv
            else:
                return None

    def is_place_accessor(self, e):
        return e.kind == "mcall" and any(k[1] == e.name and s["place"] for k, s in SIGS.items())

    MUTATORS = ("push", "clear", "extend", "reverse", "resize", "filter_clip_operations")

    def mutates(self, e):
        """the root variable a method-call expression statement mutates, or None"""
        if e.kind != "mcall":
            return None
        if e.name in self.MUTATORS:
            return self.root_var(e.recv)
        key = self.abs_key(e)
        if key is not None and self.unit["abstract_calls"][key].get("mut_self"):
            return self.root_var(e.recv)
        for (sty, nm), s in SIGS.items():
            if nm == e.name and s["self_kind"] == "mut" and not s["place"]:
                return self.root_var(e.recv)
        return None

    def assigned_outer(self, node):
        declared, assigned = set(), []

        def f(n):
            if n.kind == "let":
                walk(n.pat, lambda p: declared.add(p.name) if p.kind == "pvar" else None)
            if n.kind == "for":
                walk(n.pat, lambda p: declared.add(p.name) if p.kind == "pvar" else None)
            r = None
            if n.kind == "assign":
                r = self.root_var(n.lhs)
                if r is None:
                    self.err("assignment to an expression that is not a place", n)
            elif n.kind == "mcall":
                r = self.mutates(n)
            elif n.kind == "let" and n.init is not None and n.init.kind == "mcall":
                key = self.abs_key(n.init)
                if key is not None and self.unit["abstract_calls"][key].get("mut_self"):
                    r = self.root_var(n.init.recv)
            if r is not None and r not in assigned:
                assigned.append(r)
        walk(node, f)
        out = []
        for r in assigned:
            if self.visible(r):
                if r in declared:
                    self.err("a `let` inside the block shadows the outer variable `%s` that the block assigns" % r, node)
                out.append(self.lookup(r))
        return sorted(out, key=lambda v: v.seq)

    def mentioned(self, node, exclude):
        names = []
        declared = set()

        def f(n):
            if n.kind == "var" and n.name not in names:
                names.append(n.name)
        walk(node, f)
        out = []
        for nm in names:
            if self.visible(nm):
                v = self.lookup(nm)
                if v not in exclude and v not in out and v.bound:
                    out.append(v)
        return sorted(out, key=lambda v: v.seq)

    def has_jump(self, node):
        found = []

        def f(n):
            if n.kind in ("break", "panic"):
                found.append(n)
            if n.kind in ("loop", "for"):
                return False
        walk(node, f)
        return bool(found)

    # ---------------------------------------------------------------- expressions
    def const(self, name, node):
        c = self.consts.get(name)
        if c is None:
            return None
        return c[0], self.ty_of_text(c[1])

    def lit(self, e, exp):
        if e.suf:
            t = TInt(e.suf)
        elif isinstance(exp, TInt):
            t = exp
        else:
            self.err("the type of the literal %d cannot be read off the text" % e.v, e)
        return str(e.v), t

    def is_lit(self, e):
        return e.kind == "lit" or (e.kind == "un" and e.op == "-" and e.e.kind == "lit")

    def pair(self, l, r, blk, exp=None):
        if self.is_lit(l) and not self.is_lit(r):
            rt, ty = self.ex(r, blk, exp)
            lt, _ = self.ex(l, blk, ty)
            return lt, rt, ty
        lt, ty = self.ex(l, blk, exp)
        rt, _ = self.ex(r, blk, ty)
        return lt, rt, ty

    def ex(self, e, blk, exp=None):
        k = e.kind
        if k == "lit":
            return self.lit(e, exp)
        if k == "bool":
            return ("true" if e.v else "false"), TBool()
        if k == "var":
            c = None if self.visible(e.name) else self.const(e.name, e)
            if c is not None:
                return c
            v = self.lookup(e.name, e)
            if not v.bound:
                self.err("`%s` may be read before it is assigned" % e.name, e)
            return v.lean, v.ty
        if k == "path":
            if len(e.path) == 2 and e.path[0] in ENUM_CTORS and e.path[1] in ENUM_CTORS[e.path[0]]:
                if ENUM_CTORS[e.path[0]][e.path[1]]:
                    self.err("constructor `%s` without its argument" % "::".join(e.path), e)
                return "%s.%s" % (EXT_TYPES[e.path[0]], e.path[1]), TStruct(e.path[0], EXT_TYPES[e.path[0]])
            self.err("path `%s`" % "::".join(e.path), e)
        if k == "field":
            rt, ty = self.ex(e.recv, blk)
            if not isinstance(ty, TStruct):
                self.err("field `.%s` of a value of type %r" % (e.name, ty), e)
            for n, ft in self.fields_of(ty, e):
                if n == e.name:
                    return "%s.%s" % (paren(rt), n), ft
            self.err("struct `%s` has no (translated) field `%s`" % (ty.name, e.name), e)
        if k == "index":
            rt, ty = self.ex(e.recv, blk)
            if not isinstance(ty, TVec):
                self.err("indexing a value of type %r" % ty, e)
            it, ity = self.ex(e.idx, blk, TInt("usize"))
            if ity != TInt("usize"):
                self.err("index of type %r" % ity, e)
            t = self.tmp()
            blk.bind(t, "Rs.idx %s %s" % (paren(rt), paren(it)))
            return t, ty.elem
        if k == "un":
            return self.unary(e, blk, exp)
        if k == "bin":
            return self.binary(e, blk, exp)
        if k == "cast":
            return self.cast(e, blk)
        if k == "call":
            return self.call(e, blk, exp)
        if k == "mcall":
            return self.mcall(e, blk, exp)
        if k == "struct":
            return self.struct_lit(e, blk)
        if k == "tuple":
            parts = [self.ex(x, blk) for x in e.items]
            return "(%s)" % ", ".join(p[0] for p in parts), TTup([p[1] for p in parts])
        if k == "array":
            ety = exp.elem if isinstance(exp, TVec) else None
            parts = []
            for x in e.items:
                t, ty = self.ex(x, blk, ety)
                ety = ty
                parts.append(t)
            return "[%s]" % ", ".join(parts), TVec(ety)
        if k == "if":
            return self.if_value(e, blk, exp)
        if k == "block":
            return self.block_value(e, blk, exp)
        if k == "macro" and e.name in ("assert", "debug_assert"):
            c = self.cond(e.args[0], blk)
            blk.bind("_", "Rs.assert (decide (%s))" % c)
            return "()", TUnit()
        self.err("expression of kind `%s`" % k, e)

    def unary(self, e, blk, exp):
        if e.op == "-":
            if e.e.kind == "lit":
                t, ty = self.lit(e.e, exp)
                if not (isinstance(ty, TInt) and ty.signed):
                    self.err("negative literal of an unsigned type", e)
                return "(-%s)" % t, ty
            self.err("unary minus", e)
        t, ty = self.ex(e.e, blk, exp)
        if isinstance(ty, TBool):
            return "(!%s)" % t, ty
        if isinstance(ty, TInt) and not ty.signed:
            return "(Rs.not %d %s)" % (ty.w, paren(t)), ty
        self.err("`!` on a value of type %r" % ty, e)

    def binary(self, e, blk, exp):
        op = e.op
        if op in ("&&", "||", "==", "!=", "<", ">", "<=", ">="):
            c = self.cond(e, blk)
            return "(decide (%s))" % c, TBool()
        if op in ("<<", ">>"):
            lt, ty = self.ex(e.l, blk, exp)
            rt, rty = self.ex(e.r, blk, TInt("u32"))
            if not (isinstance(ty, TInt) and not ty.signed and isinstance(rty, TInt) and not rty.signed):
                self.err("shift on %r by %r" % (ty, rty), e)
            t = self.tmp()
            blk.bind(t, "Rs.%s %d %s %s" % ("shl" if op == "<<" else "shr", ty.w, paren(lt), paren(rt)))
            return t, ty
        lt, rt, ty = self.pair(e.l, e.r, blk, exp)
        if not isinstance(ty, TInt):
            self.err("operator `%s` on values of type %r" % (op, ty), e)
        if op in ("&", "|", "^"):
            if ty.signed:
                self.err("bit operation on a signed value", e)
            return "(%s %s %s)" % (paren(lt), {"&": "&&&", "|": "|||", "^": "^^^"}[op], paren(rt)), ty
        if op == "%" and e.r.kind == "lit" and e.r.v != 0 and not ty.signed:
            return "(%s %% %s)" % (paren(lt), rt), ty
        if ty.signed:
            fn = {"+": "Rs.iadd %d", "-": "Rs.isub %d", "*": "Rs.imul %d"}.get(op)
            if fn is None:
                self.err("operator `%s` on a signed value" % op, e)
            fn = fn % ty.w
        else:
            fn = {"+": "Rs.add %d" % ty.w, "-": "Rs.sub", "*": "Rs.mul %d" % ty.w, "/": "Rs.div", "%": "Rs.rem"}.get(op)
            if fn is None:
                self.err("operator `%s`" % op, e)
        t = self.tmp()
        blk.bind(t, "%s %s %s" % (fn, paren(lt), paren(rt)))
        return t, ty

    def cast(self, e, blk):
        t, ty = self.ex(e.e, blk)
        to = self.ty(e.ty)
        if not (isinstance(ty, TInt) and isinstance(to, TInt)):
            self.err("cast from %r to %r" % (ty, to), e)
        if ty == to:
            return t, to
        if not ty.signed and not to.signed:
            if to.w >= ty.w:
                return t, to
            return "(Rs.cast %d %s)" % (to.w, paren(t)), to
        if not ty.signed and to.signed:
            return "(Rs.castSigned %d %s)" % (to.w, paren(t)), to
        self.err("cast from %r to %r" % (ty, to), e)

    def struct_lit(self, e, blk):
        if e.name == "Self":
            sty = TStruct(self.f["self_ty"])
        elif e.name in ALL_STRUCTS:
            sty = TStruct(e.name)
        elif e.name in EXT_FIELDS:
            sty = TStruct(e.name, EXT_TYPES[e.name])
        else:
            self.err("struct literal `%s`" % e.name, e)
        fields = self.fields_of(sty, e)
        given = dict(e.fields)
        skip = ALL_SKIP.get(sty.name, [])
        for n in given:
            if n not in [f for f, _ in fields] and n not in skip:
                self.err("struct `%s` has no field `%s`" % (sty.name, n), e)
        parts = []
        for n, ft in fields:                               # evaluation in the order the literal states
            if n not in given:
                self.err("field `%s` missing in the literal of `%s`" % (n, sty.name), e)
        vals = {}
        for n, x in e.fields:
            if n in skip:
                continue
            ft = dict(fields)[n]
            t, ty = self.ex(x, blk, ft)
            if ty != ft:
                self.err("field `%s`: a value of type %r where %r is declared" % (n, ty, ft), e)
            vals[n] = t
        for n, ft in fields:
            parts.append("%s := %s" % (n, vals[n]))
        return "({ %s } : %s)" % (", ".join(parts), sty.lean()), sty

    def abs_key(self, e):
        """key of an abstract call of the spec (`self.scoring.match_fn.score`), or None"""
        if e.kind != "mcall":
            return None
        def path(x):
            if x.kind == "var":
                return x.name
            if x.kind == "field":
                p = path(x.recv)
                return None if p is None else p + "." + x.name
            return None
        p = path(e.recv)
        calls = self.unit.get("abstract_calls", {})
        if p is not None and (p + "." + e.name) in calls:
            return p + "." + e.name
        if ("*." + e.name) in calls:
            return "*." + e.name
        return None

    def args_text(self, args, tys, blk, node):
        if len(args) != len(tys):
            self.err("call with %d arguments where %d are declared" % (len(args), len(tys)), node)
        out = []
        for a, tt in zip(args, tys):
            want = self.ty_of_text(tt)
            t, ty = self.ex(a, blk, want)
            if ty != want:
                self.err("argument of type %r where %r is declared" % (ty, want), a)
            out.append(paren(t))
        return out

    def fn_name(self, s):
        return s["lean"] if s["unit"] == self.unit["name"] else "%s.%s" % (s["unit"], s["lean"])

    def call(self, e, blk, exp):
        p = e.path
        if p == ["max"] or p == ["min"]:
            lt, rt, ty = self.pair(e.args[0], e.args[1], blk, exp)
            if not isinstance(ty, TInt):
                self.err("`%s` on values of type %r" % (p[0], ty), e)
            return "(%s %s %s)" % (p[0], paren(lt), paren(rt)), ty
        if p == ["Vec", "with_capacity"]:
            self.ex(e.args[0], blk, TInt("usize"))
            if not isinstance(exp, TVec):
                self.err("the element type of `Vec::with_capacity(..)` cannot be read off the text", e)
            return "[]", exp
        if p == ["Vec", "new"]:
            if not isinstance(exp, TVec):
                self.err("the element type of `Vec::new()` cannot be read off the text", e)
            return "[]", exp
        if p == ["Default", "default"]:
            if exp is None:
                self.err("the type of `Default::default()` cannot be read off the text", e)
            return self.zero(exp, e), exp
        if len(p) == 2 and p[0] in ENUM_CTORS and p[1] in ENUM_CTORS[p[0]]:
            ats = self.args_text(e.args, ENUM_CTORS[p[0]][p[1]], blk, e)
            return "(%s.%s %s)" % (EXT_TYPES[p[0]], p[1], " ".join(ats)), TStruct(p[0], EXT_TYPES[p[0]])
        if len(p) == 2 and (p[0], p[1]) in SIGS and SIGS[(p[0], p[1])]["self_kind"] is None:
            s = SIGS[(p[0], p[1])]
            ats = self.args_text(e.args, s["params"], blk, e)
            t = self.tmp()
            blk.bind(t, "%s%s" % (self.fn_name(s), "".join(" " + a for a in ats)))
            return t, (self.ty_of_text(s["ret"]) if s["ret"] else TUnit())
        self.err("call of `%s` (not a translated function of this module's units)" % "::".join(p), e)

    def sig_for(self, recv_ty, name, node):
        if isinstance(recv_ty, TStruct) and (recv_ty.name, name) in SIGS:
            return SIGS[(recv_ty.name, name)]
        return None

    def mcall(self, e, blk, exp):
        """method call in expression position (the receiver is not mutated, or the call is an abstract `&mut self` call bound by
        a `let`, handled in `let`)"""
        key = self.abs_key(e)
        if key is not None:
            a = self.unit["abstract_calls"][key]
            if a.get("mut_self"):
                self.err("abstract `&mut self` call outside `let x = ..;`", e)
            ats = self.args_text(e.args, a["params"], blk, e)
            recv = []
            if a.get("recv"):
                rt, _ = self.ex(e.recv, blk)
                recv = [paren(rt)]
            txt = "%s%s" % (a["lean"], "".join(" " + x for x in recv + ats))
            if a.get("monadic"):
                t = self.tmp()
                blk.bind(t, txt)
                return t, self.ty_of_text(a["ret"])
            return "(%s)" % txt, self.ty_of_text(a["ret"])
        if e.name == "len" and not e.args:
            rt, ty = self.ex(e.recv, blk)
            if not isinstance(ty, TVec):
                self.err("`.len()` of a value of type %r" % ty, e)
            return "%s.length" % paren(rt), TInt("usize")
        rt, rty = self.ex(e.recv, blk)
        s = self.sig_for(rty, e.name, e)
        if s is None:
            self.err("method `.%s(…)` on a value of type %r (not in the subset, not a translated function)" % (e.name, rty), e)
        if s["self_kind"] == "mut" and not s["place"]:
            self.err("`&mut self` method `.%s(…)` in expression position" % e.name, e)
        ats = self.args_text(e.args, s["params"], blk, e)
        t = self.tmp()
        blk.bind(t, "%s %s%s" % (self.fn_name(s), paren(rt), "".join(" " + a for a in ats)))
        return t, (self.ty_of_text(s["ret"]) if s["ret"] else TUnit())

    def cond(self, c, blk):
        """a condition as a Lean `Prop` text (decidable); checked operations are bound in `blk` before"""
        if c.kind == "bin" and c.op in ("&&", "||"):
            l = self.cond(c.l, blk)
            sub = Blk()
            r = self.cond(c.r, sub)
            if not sub.lines:
                return "(%s %s %s)" % (l, "∧" if c.op == "&&" else "∨", r)
            t = self.tmp()
            if c.op == "&&":
                blk.add("let %s ← (if %s then do" % (t, l))
                blk.nest(sub, 4)
                blk.add("    pure (decide (%s))" % r)
                blk.add("  else pure false)")
            else:
                blk.add("let %s ← (if %s then pure true else do" % (t, l))
                blk.nest(sub, 4)
                blk.add("    pure (decide (%s)))" % r)
            return "(%s = true)" % t
        if c.kind == "bin" and c.op in ("<", ">", "<=", ">="):
            ul, ur = unparse(c.l), unparse(c.r)
            for hname, pa, pb in self.unit.get("cond_holes", []):
                swapped = None
                if re.fullmatch(pa, ul) and re.fullmatch(pb, ur):
                    swapped = False
                elif re.fullmatch(pa, ur) and re.fullmatch(pb, ul):
                    swapped = True
                if swapped is None:
                    continue
                lt, rt, ty = self.pair(c.l, c.r, blk)
                if ty != TInt("i32"):
                    self.err("condition hole `%s` on values of type %r" % (hname, ty), c)
                op = {"<=": "≤", ">=": "≥"}.get(c.op, c.op)
                body = "decide (%s %s %s)" % (("b", op, "a") if swapped else ("a", op, "b"))
                defs = self.unit.setdefault("_hole_defs", {})
                if defs.get(hname, body) != body:
                    self.err("the sites of the condition hole `%s` no longer carry the same test (`%s` and `%s`)" % (hname, defs[hname], body), c)
                defs[hname] = body
                a, b = (rt, lt) if swapped else (lt, rt)
                return "(%s %s %s = true)" % (hname, paren(a), paren(b))
        if c.kind == "bin" and c.op in ("==", "!=", "<", ">", "<=", ">="):
            lt, rt, ty = self.pair(c.l, c.r, blk)
            if not isinstance(ty, (TInt, TBool)):
                self.err("comparison of values of type %r" % ty, c)
            return "(%s %s %s)" % (paren(lt), {"==": "=", "!=": "≠", "<=": "≤", ">=": "≥"}.get(c.op, c.op), paren(rt))
        if c.kind == "un" and c.op == "!":
            return "(¬ %s)" % self.cond(c.e, blk)
        t, ty = self.ex(c, blk, TBool())
        if not isinstance(ty, TBool):
            self.err("condition of type %r" % ty, c)
        return "(%s = true)" % t

    def block_value(self, b, blk, exp):
        """value of a block `{ stmts; tail }` whose statements are translated in place (locals stay visible in Lean)"""
        stmts = b.stmts
        if not stmts or stmts[-1].kind != "expr" or stmts[-1].semi:
            self.err("block without a tail expression in value position", b)
        self.scopes.append({})
        for s in stmts[:-1]:
            self.stmt(s, blk)
        r = self.ex(stmts[-1].e, blk, exp)
        self.scopes.pop()
        return r

    def if_value(self, e, blk, exp):
        if e.els is None or e.cond.kind == "iflet":
            self.err("`if` without `else` / `if let` in value position", e)
        c = self.cond(e.cond, blk)
        b1, b2 = Blk(), Blk()
        t1, ty1 = self.block_value(e.then, b1, exp)
        t2, ty2 = self.block_value(e.els, b2, ty1)
        if ty1 != ty2:
            self.err("branches of types %r and %r" % (ty1, ty2), e)
        if not b1.lines and not b2.lines:
            return "(if %s then %s else %s)" % (c, t1, t2), ty1
        t = self.tmp()
        blk.add("let %s ← (if %s then do" % (t, c))
        blk.nest(b1, 4)
        blk.add("    pure %s" % paren(t1))
        blk.add("  else do")
        blk.nest(b2, 4)
        blk.add("    pure %s)" % paren(t2))
        return t, ty1

    # ---------------------------------------------------------------- places
    def store(self, lhs, val, blk):
        """`lhs = val` for a place `lhs` (variable, field path, indexed path, place accessor)"""
        if lhs.kind == "var":
            v = self.lookup(lhs.name, lhs)
            blk.let(v.lean, val)
            v.bound = True
            return
        if lhs.kind == "field":
            rt, rty = self.ex(lhs.recv, blk)
            if not isinstance(rty, TStruct):
                self.err("field of a value of type %r" % rty, lhs)
            self.store(lhs.recv, "{ %s with %s := %s }" % (rt, lhs.name, val), blk)
            return
        if lhs.kind == "index":
            it, ity = self.ex(lhs.idx, blk, TInt("usize"))
            rt, rty = self.ex(lhs.recv, blk)
            t = self.tmp()
            blk.bind(t, "Rs.setIdx %s %s %s" % (paren(rt), paren(it), paren(val)))
            self.store(lhs.recv, t, blk)
            return
        if lhs.kind == "mcall" and self.is_place_accessor(lhs):
            rt, rty = self.ex(lhs.recv, blk)
            s = self.sig_for(rty, lhs.name, lhs)
            ats = self.args_text(lhs.args, s["params"], blk, lhs)
            t = self.tmp()
            blk.bind(t, "%s_put %s%s %s" % (self.fn_name(s), paren(rt), "".join(" " + a for a in ats), paren(val)))
            self.store(lhs.recv, t, blk)
            return
        self.err("assignment to an expression that is not a place", lhs)

    def place_ty(self, lhs, blk):
        sub = Blk()
        saved = self.ntmp
        _, ty = self.ex(lhs, sub)
        self.ntmp = saved
        return ty

    # ---------------------------------------------------------------- statements
    def state_text(self, state):
        if len(state) == 1:
            return state[0].lean
        return "(%s)" % ", ".join(v.lean for v in state)

    def state_ty(self, state):
        if len(state) == 1:
            return state[0].ty.lean()
        return " × ".join(paren(v.ty.lean()) for v in state)

    def seq(self, stmts, blk, fin):
        """statements of a block followed by `fin(blk)`; an `if` / `match` that contains a jump takes the rest into its arms"""
        for idx, s in enumerate(stmts):
            if s.kind == "break":
                blk.add(self.loop_ctx[-1][0])
                return
            e = s.e if s.kind == "expr" else None
            if e is not None and e.kind == "panic":
                blk.add("Res.panic")
                return
            if e is not None and e.kind == "break":
                blk.add(self.loop_ctx[-1][0])
                return
            if e is not None and e.kind in ("if", "match") and self.has_jump(e):
                rest = stmts[idx + 1:]
                self.jump_branches(e, rest, blk, fin)
                return
            self.stmt(s, blk)
        fin(blk)

    def jump_branches(self, e, rest, blk, fin):
        if e.kind == "if":
            if e.cond.kind == "iflet":
                self.err("`if let`", e)
            heads = [self.cond(e.cond, blk)]
            bodies = [e.then.stmts, e.els.stmts if e.els is not None else []]
        else:
            st, sty = self.ex(e.scrut, blk)
            if not isinstance(sty, TInt):
                self.err("`match` on a value of type %r" % sty, e)
            heads, bodies = [], []
            for i, (pat, body) in enumerate(e.arms):
                if pat.kind == "pwild":
                    if i != len(e.arms) - 1:
                        self.err("`_` arm that is not the last one", e)
                    bodies.append(body)
                    break
                if pat.kind != "pvar" or self.const(pat.name, e) is None:
                    self.err("`match` arm pattern that is not a constant of the spec", e)
                heads.append("(%s = %s)" % (paren(st), self.const(pat.name, e)[0]))
                bodies.append(body)
            else:
                self.err("`match` without a final `_` arm", e)
            bodies = [(b.stmts if b.kind == "block" else [N("expr", b.pos, e=b, semi=True)]) for b in bodies]
        for i, body in enumerate(bodies):
            sub = Blk()
            self.scopes.append({})
            saved = self.snapshot()
            self.seq(list(body) + list(rest), sub, fin)
            self.restore(saved)
            self.scopes.pop()
            if i < len(heads):
                blk.add(("if %s then do" if i == 0 else "else if %s then do") % heads[i])
            else:
                blk.add("else do")
            blk.nest(sub, 2)

    def snapshot(self):
        return [(v, v.bound, v.ty) for sc in self.scopes for v in sc.values()]

    def restore(self, saved):
        for v, b, t in saved:
            v.bound = b

    def stmt(self, s, blk):
        k = s.kind
        if k == "let":
            return self.let(s, blk)
        if k == "assign":
            return self.assign(s, blk)
        if k == "for":
            return self.for_(s, blk)
        if k == "loop":
            return self.loop_(s, blk)
        if k == "expr":
            return self.expr_stmt(s.e, blk)
        self.err("statement of kind `%s`" % k, s)

    def let(self, s, blk):
        p = s.pat
        ty = self.ty(s.ty) if s.ty is not None else None
        if ty is None and p.kind == "pvar" and p.name in self.f.get("locals", {}):
            ty = self.ty_of_text(self.f["locals"][p.name])
        if p.kind == "ptuple":
            if s.init is None or s.init.kind != "tuple" or len(s.init.items) != len(p.items):
                self.err("tuple pattern whose initialiser is not a tuple literal", s)
            vals = [self.ex(x, blk) for x in s.init.items]
            for q, (t, vty) in zip(p.items, vals):
                if q.kind != "pvar":
                    self.err("nested pattern", s)
                v = self.declare(q.name, vty, s)
                blk.let(v.lean, t)
            return
        if p.kind != "pvar":
            self.err("pattern in `let`", s)
        if s.init is None:
            v = self.declare(p.name, ty, s)
            v.bound = False
            return
        if s.init.kind == "mcall":
            key = self.abs_key(s.init)
            if key is not None and self.unit["abstract_calls"][key].get("mut_self"):
                a = self.unit["abstract_calls"][key]
                rt, rty = self.ex(s.init.recv, blk)
                ats = self.args_text(s.init.args, a["params"], blk, s.init)
                t1, t2 = self.tmp(), self.tmp()
                blk.bind("(%s, %s)" % (t1, t2), "%s %s%s" % (a["lean"], paren(rt), "".join(" " + x for x in ats)))
                self.store(s.init.recv, t2, blk)
                v = self.declare(p.name, self.ty_of_text(a["ret"]), s)
                blk.let(v.lean, t1)
                return
        t, vty = self.ex(s.init, blk, ty)
        if ty is not None and vty != ty:
            self.err("`let %s: %r` initialised with a value of type %r" % (p.name, ty, vty), s)
        v = self.declare(p.name, vty, s)
        blk.let(v.lean, t)

    def assign(self, s, blk):
        lty = self.place_ty_or_unbound(s.lhs, blk)
        rhs = s.rhs
        if s.op is not None:
            rhs = N("bin", s.pos, op=s.op, l=s.lhs, r=s.rhs)
        t, ty = self.ex(rhs, blk, lty)
        if lty is None:
            self.lookup(s.lhs.name, s).ty = ty
        elif ty != lty:
            self.err("assignment of a value of type %r to a place of type %r" % (ty, lty), s)
        self.store(s.lhs, t, blk)

    def place_ty_or_unbound(self, lhs, blk):
        if lhs.kind == "var":
            v = self.lookup(lhs.name, lhs)
            return v.ty
        return self.place_ty(lhs, blk)

    def expr_stmt(self, e, blk):
        if e.kind == "if":
            return self.if_stmt(e, blk)
        if e.kind == "block":
            self.scopes.append({})
            for s in e.stmts:
                self.stmt(s, blk)
            self.scopes.pop()
            return
        if e.kind == "macro":
            self.ex(e, blk)
            return
        if e.kind == "mcall":
            return self.mcall_stmt(e, blk)
        if e.kind == "match":
            self.err("`match` statement without a jump", e)
        self.ex(e, blk)

    def mcall_stmt(self, e, blk):
        nm = e.name
        rt, rty = self.ex(e.recv, blk)
        if nm in self.MUTATORS and self.sig_for(rty, nm, e) is None:
            if nm == "filter_clip_operations":
                if not (isinstance(rty, TStruct) and rty.name == "Alignment") or e.args:
                    self.err("`.filter_clip_operations()` on a value of type %r" % rty, e)
                return self.store(e.recv, "Rs.Alignment.filterClipOperations %s" % paren(rt), blk)
            if not isinstance(rty, TVec):
                self.err("`.%s(…)` on a value of type %r" % (nm, rty), e)
            if nm == "clear" and not e.args:
                return self.store(e.recv, "[]", blk)
            if nm == "reverse" and not e.args:
                return self.store(e.recv, "%s.reverse" % paren(rt), blk)
            if nm == "push" and len(e.args) == 1:
                t, ty = self.ex(e.args[0], blk, rty.elem)
                if ty != rty.elem:
                    self.err("push of a value of type %r onto %r" % (ty, rty), e)
                return self.store(e.recv, "%s ++ [%s]" % (paren(rt), t), blk)
            if nm == "resize" and len(e.args) == 2:
                n, nty = self.ex(e.args[0], blk, TInt("usize"))
                x, xty = self.ex(e.args[1], blk, rty.elem)
                if xty != rty.elem or nty != TInt("usize"):
                    self.err("`.resize` with arguments of types %r, %r" % (nty, xty), e)
                return self.store(e.recv, "Rs.resize %s %s %s" % (paren(rt), paren(n), paren(x)), blk)
            if nm == "extend" and len(e.args) == 1:
                a = e.args[0]
                if (a.kind == "mcall" and a.name == "take" and len(a.args) == 1 and a.recv.kind == "call"
                        and a.recv.path == ["repeat"] and len(a.recv.args) == 1):
                    x, xty = self.ex(a.recv.args[0], blk, rty.elem)
                    n, nty = self.ex(a.args[0], blk, TInt("usize"))
                    if xty != rty.elem or nty != TInt("usize"):
                        self.err("`.extend(repeat(..).take(..))` with arguments of types %r, %r" % (xty, nty), e)
                    return self.store(e.recv, "Rs.extendRepeat %s %s %s" % (paren(rt), paren(x), paren(n)), blk)
            self.err("`.%s(…)` in this form" % nm, e)
        s = self.sig_for(rty, nm, e)
        if s is None:
            self.err("method `.%s(…)` on a value of type %r (not in the subset, not a translated function)" % (nm, rty), e)
        ats = self.args_text(e.args, s["params"], blk, e)
        callt = "%s %s%s" % (self.fn_name(s), paren(rt), "".join(" " + a for a in ats))
        if s["self_kind"] == "mut" and not s["place"]:
            t = self.tmp()
            if s["ret"]:
                blk.bind("(_, %s)" % t, callt)
            else:
                blk.bind(t, callt)
            return self.store(e.recv, t, blk)
        blk.bind("_", callt)

    def if_stmt(self, e, blk):
        if e.cond.kind == "iflet":
            self.err("`if let`", e)
        state = self.assigned_outer(e)
        c = self.cond(e.cond, blk)
        subs = []
        for body in (e.then, e.els):
            sub = Blk()
            if body is not None:
                saved = self.snapshot()
                self.scopes.append({})
                for s in body.stmts:
                    if s.kind == "expr" and not s.semi and s.e.kind not in sp.BLOCK_LIKE:
                        self.err("`if` statement whose branch has a value", e)
                    self.stmt(s, sub)
                self.scopes.pop()
                bound_after = [v.bound for v in state]
                self.restore(saved)
            else:
                bound_after = [v.bound for v in state]
            subs.append((sub, bound_after))
        for (sub, ba) in subs:
            for v, b in zip(state, ba):
                if not b:
                    self.err("`%s` is not assigned in every branch of the `if` that first assigns it" % v.rust, e)
        if not state:
            blk.add("let _ ← (if %s then do" % c)
            blk.nest(subs[0][0], 4)
            blk.add("    pure ()")
            blk.add("  else do")
            blk.nest(subs[1][0], 4)
            blk.add("    pure ())")
            return
        st = self.state_text(state)
        blk.add("let %s ← (if %s then do" % (st, c))
        blk.nest(subs[0][0], 4)
        blk.add("    pure %s" % st)
        if subs[1][0].lines:
            blk.add("  else do")
            blk.nest(subs[1][0], 4)
            blk.add("    pure %s)" % st)
        else:
            blk.add("  else pure %s)" % st)
        for v in state:
            v.bound = True

    def loop_items(self, it, blk):
        if it.kind != "range" or it.hi is None:
            self.err("`for` over something that is not a range `a..b` / `a..=b`", it)
        lo, lty = self.ex(it.lo, blk, TInt("usize"))
        hi, hty = self.ex(it.hi, blk, TInt("usize"))
        if lty != TInt("usize") or hty != TInt("usize"):
            self.err("range over %r" % lty, it)
        if it.incl:
            return "(List.range' %s (%s + 1 - %s))" % (paren(lo), paren(hi), paren(lo))
        return "(List.range' %s (%s - %s))" % (paren(lo), paren(hi), paren(lo))

    def for_(self, s, blk):
        if s.pat.kind != "pvar":
            self.err("pattern of a `for` loop", s)
        if self.has_jump_direct(s.body):
            self.err("`break` / `panic!` inside a `for` loop", s)
        items = self.loop_items(s.iter, blk)
        state = self.assigned_outer(s.body)
        for v in state:
            if not v.bound or v.ty is None:
                self.err("loop state `%s` is not initialised before the loop" % v.rust, s)
        caps = self.mentioned(s.body, state)
        self.nloop["for"] += 1
        name = "%s_for%d" % (self.lean, self.nloop["for"])
        hb = Blk()
        saved_ntmp, self.ntmp = self.ntmp, 0
        self.scopes.append({})
        iv = self.declare(s.pat.name, TInt("usize"), s)
        if len(state) > 1:
            hb.let(self.state_text(state), "st")
        self.scopes.append({})
        self.seq(s.body.stmts, hb, lambda b: b.add("pure %s" % (self.state_text(state) if state else "()")))
        self.scopes.pop()
        self.scopes.pop()
        self.ntmp = saved_ntmp
        stv = "st" if len(state) != 1 else state[0].lean
        sty = self.state_ty(state) if state else "Unit"
        self.helpers.append("def %s%s%s (%s : %s) (%s : Nat) : Res %s := do\n%s" % (
            name, self.abs_decl(), "".join(" (%s : %s)" % (v.lean, v.ty.lean()) for v in caps), stv, sty, iv.lean, paren(sty),
            "\n".join("  " + l for l in hb.lines)))
        blk.bind(self.state_text(state) if state else "_", "List.foldlM (%s%s%s) %s %s" % (
            name, self.abs_use(), "".join(" " + v.lean for v in caps), self.state_text(state) if state else "()", items))

    def has_jump_direct(self, body):
        return self.has_jump(body)

    def loop_(self, s, blk):
        state = self.assigned_outer(s.body)
        for v in state:
            if not v.bound or v.ty is None:
                self.err("loop state `%s` is not initialised before the loop" % v.rust, s)
        if not state:
            self.err("`loop` that assigns no outer variable", s)
        caps = self.mentioned(s.body, state)
        fuelv = [n for n, _ in self.f.get("ghosts", [])]
        if "fuel" not in fuelv:
            self.err("`loop` in a function without the ghost parameter `fuel` in its spec", s)
        self.nloop["loop"] += 1
        name = "%s_loop%d" % (self.lean, self.nloop["loop"])
        call = "%s%s%s" % (name, self.abs_use(), "".join(" " + v.lean for v in caps))
        st = self.state_text(state)
        hb = Blk()
        saved_ntmp, self.ntmp = self.ntmp, 0
        self.scopes.append({})
        self.loop_ctx.append(("pure %s" % st, None))
        self.seq(s.body.stmts, hb, lambda b: b.add("%s fuel %s" % (call, st)))
        self.loop_ctx.pop()
        self.scopes.pop()
        self.ntmp = saved_ntmp
        sty = self.state_ty(state)
        self.helpers.append("def %s%s%s : Nat → %s → Res %s\n  | 0, _ => Res.fuel\n  | fuel + 1, %s => do\n%s" % (
            name, self.abs_decl(), "".join(" (%s : %s)" % (v.lean, v.ty.lean()) for v in caps), paren(sty), paren(sty), st,
            "\n".join("    " + l for l in hb.lines)))
        blk.bind(st, "%s fuel %s" % (call, st))

    # ---------------------------------------------------------------- the function
    def translate(self, body_text, body_pos, put=False):
        toks = tokenize(body_text, body_pos)
        stmts = PA(toks).body()
        f = self.f
        params = []
        sk = f.get("self_kind")
        if sk is not None:
            params.append(self.declare("self", TStruct(f["self_ty"])))
        for n, t in f["params"]:
            params.append(self.declare(n, self.ty_of_text(t)))
        ret = self.ty_of_text(f["ret"]) if f.get("ret") else TUnit()
        if put:
            tail = stmts[-1]
            if tail.kind != "expr" or tail.semi:
                self.err("place accessor without a tail expression", tail)
            pv = self.declare("put_value", ret)
            params.append(pv)
            stmts = stmts[:-1] + [N("assign", tail.pos, lhs=tail.e, op=None, rhs=N("var", tail.pos, name="put_value"))]
            ret = TUnit()
            sk = "mut"
        ghosts = [(n, t) for n, t in f.get("ghosts", [])]
        blk = Blk()
        tailv = None
        if stmts and stmts[-1].kind == "expr" and not stmts[-1].semi and stmts[-1].e.kind not in ("if", "match", "for", "loop"):
            body, tail = stmts[:-1], stmts[-1].e
        else:
            body, tail = stmts, None

        def fin(b):
            if tail is not None:
                t, ty = self.ex(tail, b, ret)
                if ty != ret:
                    self.err("the function returns a value of type %r, declared is %r" % (ty, ret), tail)
                rv = t
            else:
                if not isinstance(ret, TUnit):
                    self.err("function body without a tail expression", None)
                rv = None
            if sk == "mut":
                b.add("pure %s" % ("(%s, self)" % rv if rv is not None else "self"))
            else:
                b.add("pure %s" % (paren(rv) if rv is not None else "()"))
        self.seq(body, blk, fin)
        if sk == "mut":
            rty = "%s × %s" % (paren(ret.lean()), f["self_ty"]) if not isinstance(ret, TUnit) else f["self_ty"]
        else:
            rty = ret.lean()
        head = "def %s%s%s%s%s : Res %s := do" % (
            self.lean, "_put" if put else "", self.abs_decl(), "".join(" (%s : %s)" % (v.lean, v.ty.lean()) for v in params),
            "".join(" (%s : %s)" % (n, t) for n, t in ghosts), paren(rty))
        return self.helpers, head + "\n" + "\n".join("  " + l for l in blk.lines)


ALL_STRUCTS = {}
ALL_SKIP = {}


def translate_unit(src, unit, fail):
    """src: gen_tables.Src of unit['file']; returns (lean text, snippets dict); calls `fail(msg)` on anything outside the subset"""
    rel = unit["file"]
    out_fns, snippets = [], {}
    unit["_hole_defs"] = {}
    for item in unit.get("pinned_items", []):
        n_found = len(re.findall(tokens_regex(item), src.code))
        if n_found != 1:
            fail("%s: expected exactly one item `%s`, found %d (the translation spec in tools/rs2lean_genalign.py pins it; "
                 "cannot translate)" % (rel, " ".join(item.split())[:140], n_found))
    for f in unit["functions"]:
        what = "fn %s" % f["name"]
        rx = header_regex(f["header"])
        ms = list(re.finditer(rx, src.code))
        if len(ms) != 1:
            fail("%s: %s: expected exactly one function with the header `%s`, found %d (signature changed, renamed or "
                 "restructured: the translation spec in tools/rs2lean_genalign.py pins the header; cannot translate)"
                 % (rel, what, " ".join(f["header"].split()), len(ms)))
        body, line = src.fn_body(rx, what)
        start = src.code.find("{", ms[0].end() - 1) + 1
        snippets[f.get("key", f["name"])] = ms[0].group(0)[:-1].strip() + " {" + body + "}"
        try:
            helpers, main = Fn(unit, f).translate(body, start)
            mains = [main]
            if f.get("place"):
                h2, m2 = Fn(unit, f).translate(body, start, put=True)
                helpers = helpers + h2
                mains.append(m2)
        except Unsupported as u:
            where = "%s:%d" % (rel, src.line_of(u.pos)) if u.pos is not None else "%s:%d" % (rel, line)
            fail("%s: %s: cannot translate: %s (outside the subset of tools/rs2lean_genalign.py; the equality theorem %s can "
                 "no longer be regenerated)" % (where, what, u.msg, f.get("theorem", "")))
        out_fns.append((f, line, body, helpers, mains))
    for h in unit.get("cond_holes", []):
        if h[0] not in unit["_hole_defs"]:
            fail("%s: the comparison of `%s` with `%s` (condition hole `%s` of the translation spec in tools/rs2lean_genalign.py) "
                 "was not found; cannot translate" % (rel, h[1], h[2], h[0]))
    name = unit["name"]
    txt = ["import RbV.Basic.RsSemGenalign", "import RbV.Gen.TbCodes", "import RbV.Gen.Limits"] + \
          ["import " + m for m in unit.get("imports", [])] + [
        "/-! GENERATED by tools/rs2lean_genalign.py (tools/gen_tables.py, %s) — do not edit." % unit["props"],
        "Translation of the *text* of the following functions of `%s` (comments blanked) into Lean, regenerated from" % rel,
        "the source tree on every `./check`.  Semantics of the operations: `RbV/Basic/RsSem.lean`, `RsSemInt.lean`, `RsSemBits.lean`,",
        "`RsSemGensparse.lean`, `RsSemGenalign.lean` (`Res.panic` = the Rust code panics: index out of bounds, checked arithmetic,",
        "failed assertion; `Res.fuel` = the ghost fuel of a translated `loop` ran out).  Abstract parameters: %s." %
        (", ".join("`%s`" % n for n, _ in unit.get("abstract", [])) or "none"),
        "Equality with the hand-written mirror models: `RbV/Thm/GenSrc%s.lean`." % name[3:],
        ""]
    for f, line, body, helpers, mains in out_fns:
        txt.append("`%s` (line %d):" % (" ".join(f["header"].split()), line))
        txt.append("```")
        for l in dedent(body).splitlines():
            if l.strip():
                txt.append(l.rstrip().replace("-/", "- /").replace("/-", "/ -"))
        txt.append("```")
    txt.append("-/")
    txt.append("set_option linter.unusedVariables false")
    txt.append("namespace RbV.Gen.%s" % name)
    txt.append("open RbV RbV.Rs RbV.Gen RbV.Gen.TbCodes RbV.Gen.Limits" + "".join(" " + m for m in unit.get("imports", [])))
    txt.append("")
    for sname in unit.get("emit_structs", []):
        txt.append("/-- `struct %s` (declaration pinned; skipped fields: %s) -/" % (sname, ", ".join(ALL_SKIP.get(sname, [])) or "none"))
        txt.append("structure %s where" % sname)
        h = Fn(unit, dict(lean="_", params=[]))
        for n, t in ALL_STRUCTS[sname]:
            txt.append("  %s : %s" % (n, h.ty_of_text(t).lean()))
        txt.append("deriving DecidableEq, Repr, Inhabited")
        txt.append("")
    fn0 = unit["functions"][0]["lean"]
    for h in unit.get("cond_holes", []):
        txt.append("/-- condition hole `%s`: the test found in the source between `a` = `%s` and `b` = `%s` (the translated functions take"
                   % (h[0], h[1].replace("\\", ""), h[2].replace("\\", "")))
        txt.append("the test as the parameter `%s`; the theorems are stated for every admissible tie-break) -/" % h[0])
        txt.append("def %s_%s (a b : Int) : Bool := %s" % (fn0, h[0], unit["_hole_defs"][h[0]]))
        txt.append("")
    for f, line, body, helpers, mains in out_fns:
        for h in helpers:
            txt.append(h)
            txt.append("")
        for main in mains:
            txt.append("/-- `%s` (%s, line %d) -/" % (" ".join(f["header"].split()).replace("-/", "- /"), rel, line))
            txt.append(main)
            txt.append("")
    txt.append("end RbV.Gen.%s" % name)
    return "\n".join(txt) + "\n", snippets


# ================================================================================================== translation specs

UNITS = {}


def unit(**kw):
    UNITS[kw["name"]] = kw
    for sname, fields in kw.get("structs", {}).items():
        ALL_STRUCTS[sname] = fields
    for sname, sk in kw.get("struct_skip", {}).items():
        ALL_SKIP[sname] = sk
    for f in kw["functions"]:
        SIGS[(f.get("self_ty"), f["name"])] = sig_of(kw, f)


PW = "src/alignment/pairwise/mod.rs"
TBC = "RbV.Gen.TbCodes."
PW_CONSTS = {"I_POS": ("iPos", "u8"), "D_POS": ("dPos", "u8"), "S_POS": ("sPos", "u8"),
             "TB_START": ("tbStart", "u16"), "TB_INS": ("tbIns", "u16"), "TB_DEL": ("tbDel", "u16"),
             "TB_SUBST": ("tbSubst", "u16"), "TB_MATCH": ("tbMatch", "u16"), "TB_XCLIP_PREFIX": ("tbXclipPrefix", "u16"),
             "TB_XCLIP_SUFFIX": ("tbXclipSuffix", "u16"), "TB_YCLIP_PREFIX": ("tbYclipPrefix", "u16"),
             "TB_YCLIP_SUFFIX": ("tbYclipSuffix", "u16"), "TB_MAX": ("tbMax", "u16"),
             "MIN_SCORE": ("minScorePairwise", "i32")}

PW_STRUCTS = {
    "TracebackCell": [("v", "u16")],
    "Traceback": [("rows", "usize"), ("cols", "usize"), ("matrix", "Vec<TracebackCell>")],
    "Scoring": [("gap_open", "i32"), ("gap_extend", "i32"), ("match_scores", "Option<(i32, i32)>"), ("xclip_prefix", "i32"),
                ("xclip_suffix", "i32"), ("yclip_prefix", "i32"), ("yclip_suffix", "i32")],
    "Aligner": [("I", "[Vec<i32>; 2]"), ("D", "[Vec<i32>; 2]"), ("S", "[Vec<i32>; 2]"), ("Lx", "Vec<usize>"),
                ("Ly", "Vec<usize>"), ("Sn", "Vec<i32>"), ("traceback", "Traceback"), ("scoring", "Scoring")],
}
PW_PINNED = [
    "#[derive( Default, Copy, Clone, Eq, PartialEq, Ord, PartialOrd, Hash, Debug, Serialize, Deserialize, )] "
    "pub struct TracebackCell { v: u16, }",
    "#[derive(Default, Clone, Eq, PartialEq, Ord, PartialOrd, Hash, Debug, Serialize, Deserialize)] "
    "struct Traceback { rows: usize, cols: usize, matrix: Vec<TracebackCell>, }",
    "pub struct Scoring<F: MatchFunc> { pub gap_open: i32, pub gap_extend: i32, pub match_fn: F, "
    "pub match_scores: Option<(i32, i32)>, pub xclip_prefix: i32, pub xclip_suffix: i32, pub yclip_prefix: i32, "
    "pub yclip_suffix: i32, }",
    "pub struct Aligner<F: MatchFunc> { I: [Vec<i32>; 2], D: [Vec<i32>; 2], S: [Vec<i32>; 2], Lx: Vec<usize>, "
    "Ly: Vec<usize>, Sn: Vec<i32>, traceback: Traceback, scoring: Scoring<F>, }",
]


def cellfn(name, lean, header, kind, params, ret=None, **kw):
    return dict(name=name, lean=lean, header=header, self_kind=kind, self_ty="TracebackCell", params=params, ret=ret,
                theorem="RbV.Thm.GenSrcPwTypes." + lean + "_eq_model", **kw)


def tbfn(name, lean, header, kind, params, ret=None, **kw):
    return dict(name=name, lean=lean, header=header, self_kind=kind, self_ty="Traceback", params=params, ret=ret,
                theorem="RbV.Thm.GenSrcPwTypes." + lean + "_eq_model", **kw)


def scfn(name):
    return dict(name=name, lean=name, header="pub fn %s(mut self, penalty: i32) -> Self" % name, self_kind="val",
                self_ty="Scoring", params=[("penalty", "i32")], ret="Scoring", key="Scoring::" + name,
                theorem="RbV.Thm.GenSrcPwTypes.scoring_builders_eq_model")


unit(name="SrcPwTypes", props="properties C01, C02", file=PW, consts=PW_CONSTS, structs=PW_STRUCTS,
     struct_skip={"Scoring": ["match_fn"]}, pinned_items=PW_PINNED,
     emit_structs=["TracebackCell", "Traceback", "Scoring", "Aligner"],
     functions=[
         cellfn("new", "cellNew", "pub fn new() -> TracebackCell", None, [], "TracebackCell", key="TracebackCell::new"),
         cellfn("set_bits", "setBits", "fn set_bits(&mut self, pos: u8, value: u16)", "mut", [("pos", "u8"), ("value", "u16")]),
         cellfn("set_i_bits", "setIBits", "pub fn set_i_bits(&mut self, value: u16)", "mut", [("value", "u16")]),
         cellfn("set_d_bits", "setDBits", "pub fn set_d_bits(&mut self, value: u16)", "mut", [("value", "u16")]),
         cellfn("set_s_bits", "setSBits", "pub fn set_s_bits(&mut self, value: u16)", "mut", [("value", "u16")]),
         cellfn("get_bits", "getBits", "fn get_bits(self, pos: u8) -> u16", "val", [("pos", "u8")], "u16"),
         cellfn("get_i_bits", "getIBits", "pub fn get_i_bits(self) -> u16", "val", [], "u16"),
         cellfn("get_d_bits", "getDBits", "pub fn get_d_bits(self) -> u16", "val", [], "u16"),
         cellfn("get_s_bits", "getSBits", "pub fn get_s_bits(self) -> u16", "val", [], "u16"),
         cellfn("set_all", "setAll", "pub fn set_all(&mut self, value: u16)", "mut", [("value", "u16")]),
         tbfn("with_capacity", "tbWithCapacity", "fn with_capacity(m: usize, n: usize) -> Self", None,
              [("m", "usize"), ("n", "usize")], "Traceback", key="Traceback::with_capacity"),
         tbfn("resize", "tbResize", "fn resize(&mut self, m: usize, n: usize, v: TracebackCell)", "mut",
              [("m", "usize"), ("n", "usize"), ("v", "TracebackCell")]),
         tbfn("init", "tbInit", "fn init(&mut self, m: usize, n: usize)", "mut", [("m", "usize"), ("n", "usize")]),
         tbfn("set", "tbSet", "fn set(&mut self, i: usize, j: usize, v: TracebackCell)", "mut",
              [("i", "usize"), ("j", "usize"), ("v", "TracebackCell")]),
         tbfn("get", "tbGet", "fn get(&self, i: usize, j: usize) -> &TracebackCell", "ref", [("i", "usize"), ("j", "usize")],
              "TracebackCell"),
         tbfn("get_mut", "tbGetMut", "fn get_mut(&mut self, i: usize, j: usize) -> &mut TracebackCell", "ref",
              [("i", "usize"), ("j", "usize")], "TracebackCell", place=True),
         scfn("xclip"), scfn("xclip_prefix"), scfn("xclip_suffix"), scfn("yclip"), scfn("yclip_prefix"), scfn("yclip_suffix"),
     ])

CUSTOM_T = "Aligner → List Nat → List Nat → Res (Rs.Alignment × Aligner)"


def modefn(name):
    return dict(name=name, lean=name + "_", header="pub fn %s(&mut self, x: TextSlice<'_>, y: TextSlice<'_>) -> Alignment" % name,
                self_kind="mut", self_ty="Aligner", params=[("x", "TextSlice"), ("y", "TextSlice")], ret="Alignment",
                theorem="RbV.Thm.GenSrcPwModes.%s_eq_custom_with_mode_clips" % name)


unit(name="SrcPwModes", props="property C01", file=PW, consts=PW_CONSTS, imports=["RbV.Gen.SrcPwTypes"],
     abstract=[("custom", CUSTOM_T)],
     abstract_calls={"self.custom": dict(lean="custom", params=["TextSlice", "TextSlice"], ret="Alignment", mut_self=True,
                                         monadic=True)},
     functions=[modefn("global"), modefn("semiglobal"), modefn("local")])

unit(name="SrcPwCustom", props="property C01", file=PW, consts=PW_CONSTS, imports=["RbV.Gen.SrcPwTypes"],
     abstract=[("matchFn", "Nat → Nat → Int")],
     cond_holes=[("iTie", r"i_score", r"s_score"), ("dTie", r"d_score", r"s_score"),
                 ("snTie", r"self\.S\[curr\]\[\w+\] \+ self\.scoring\.yclip_suffix", r"self\.Sn\[\w+\]"),
                 ("sn0Tie", r"self\.S\[k\]\[\w+\] \+ self\.scoring\.yclip_suffix", r"self\.Sn\[\w+\]")],
     abstract_calls={"self.scoring.match_fn.score": dict(lean="matchFn", params=["u8", "u8"], ret="i32")},
     functions=[dict(name="custom", lean="custom",
                     header="pub fn custom(&mut self, x: TextSlice<'_>, y: TextSlice<'_>) -> Alignment",
                     self_kind="mut", self_ty="Aligner", params=[("x", "TextSlice"), ("y", "TextSlice")], ret="Alignment",
                     ghosts=[("fuel", "Nat")], locals={"operations": "Vec<AlignmentOperation>"},
                     theorem="RbV.Thm.GenSrcPwCustom.custom_source_correct")])


# ================================================================================================== self-test / CLI

class _FakeSrc:
    def __init__(self, text):
        self.rel, self.raw, self.code = "src/selftest.rs", text, text

    def line_of(self, pos):
        return self.code.count("\n", 0, pos) + 1

    def fn_body(self, rx, what):
        m = re.search(rx, self.code)
        start = self.code.find("{", m.end() - 1)
        d = 0
        for i in range(start, len(self.code)):
            if self.code[i] == "{":
                d += 1
            elif self.code[i] == "}":
                d -= 1
                if d == 0:
                    return self.code[start + 1:i], self.line_of(start)


class _Fail(Exception):
    pass


def _fail(msg):
    raise _Fail(msg)


SELFTEST_RS = r"""
pub struct Grid { rows: usize, cols: usize, cells: Vec<u16>, best: i32, }
impl Grid {
    fn at(&mut self, i: usize, j: usize) -> &mut u16 {
        debug_assert!(i < self.rows);
        &mut self.cells[i * self.cols + j]
    }
    pub fn sweep(&mut self, w: i32, n: usize) -> usize {
        self.cells.clear();
        self.cells.extend(repeat(TB_START).take(self.rows * self.cols));
        for i in 0..self.rows {
            for j in 1..=n {
                let s = self.best + w * (j as i32);
                if s > self.best && j != 0 {
                    self.best = s;
                    self.cells[i * self.cols + j] = TB_INS;
                } else if i == 0 {
                    self.cells[j] = self.cells[j] | (TB_DEL << 1);
                }
            }
        }
        let mut k = n;
        let mut steps: usize = 0usize;
        let mut layer = self.cells[k];
        loop {
            let next: u16;
            match layer {
                TB_START => break,
                TB_INS => {
                    k -= 1;
                    next = self.cells[k];
                }
                _ => panic!("unexpected"),
            }
            steps += 1;
            layer = next;
        }
        steps
    }
}
"""

SELFTEST_STRUCTS = {"Grid": [("rows", "usize"), ("cols", "usize"), ("cells", "Vec<u16>"), ("best", "i32")]}


def selftest_unit():
    return dict(name="SrcSelfTestAlign", props="self-test", file="src/selftest.rs", consts=PW_CONSTS, structs=SELFTEST_STRUCTS,
                pinned_items=["pub struct Grid { rows: usize, cols: usize, cells: Vec<u16>, best: i32, }"],
                emit_structs=["Grid"],
                functions=[dict(name="at", lean="at_", header="fn at(&mut self, i: usize, j: usize) -> &mut u16", self_kind="ref",
                                self_ty="Grid", params=[("i", "usize"), ("j", "usize")], ret="u16", place=True),
                           dict(name="sweep", lean="sweep", header="pub fn sweep(&mut self, w: i32, n: usize) -> usize",
                                self_kind="mut", self_ty="Grid", params=[("w", "i32"), ("n", "usize")], ret="usize",
                                ghosts=[("fuel", "Nat")])])


SELFTEST_REFUSED = [
    ("while n > 0 { } n", "`while`|statement of kind"),
    ("let c = |a: usize| a + 1; n", "closure"),
    ("for i in 0..n { if i == 3 { break; } } n", "inside a `for` loop"),
    ("let q = 3; n + q", "cannot be read off"),
    ("n?", "`\\?` operator"),
    ("better(n, n)", "not a translated function"),
    ("n.pow(2)", "method `.pow"),
    ("let v: Vec<usize> = Vec::new(); for x in v.iter() { } n", "not a range"),
    ("loop { break; } n", "assigns no outer variable|ghost parameter"),
    ("if let Some(x) = None { } n", "`if let`|unknown variable|expression of kind"),
]


def selftest(with_lean):
    saved = (dict(ALL_STRUCTS), dict(SIGS))
    u = selftest_unit()
    for sname, fields in u["structs"].items():
        ALL_STRUCTS[sname] = fields
    for f in u["functions"]:
        SIGS[(f.get("self_ty"), f["name"])] = sig_of(u, f)
    try:
        text, _ = translate_unit(_FakeSrc(SELFTEST_RS), u, _fail)
        text2, _ = translate_unit(_FakeSrc(SELFTEST_RS), u, _fail)
        assert text == text2, "translation is not deterministic"
        n_ok = 0
        for stmt, why in SELFTEST_REFUSED:
            rs = "pub fn f(n: usize) -> usize {\n%s\n}\n" % stmt
            ru = dict(name="SrcRefused", props="self-test", file="src/selftest.rs", consts=PW_CONSTS,
                      functions=[dict(name="f", lean="f", header="pub fn f(n: usize) -> usize", params=[("n", "usize")], ret="usize")])
            try:
                translate_unit(_FakeSrc(rs), ru, _fail)
            except _Fail as e:
                if not re.search(why, str(e)):
                    print("selftest: `%s` refused for another reason: %s" % (stmt, e))
                    return 1
                n_ok += 1
                continue
            print("selftest: `%s` was not refused" % stmt)
            return 1
        print("selftest: 2 synthetic functions translated (deterministic), %d non-subset snippets refused" % n_ok)
        if with_lean:
            import subprocess
            lean_dir = os.path.join(os.path.dirname(os.path.dirname(os.path.abspath(__file__))), "lean")
            wd = os.path.join(os.path.dirname(lean_dir), ".work")
            os.makedirs(wd, exist_ok=True)
            path = os.path.join(wd, "selftest_genalign_%d.lean" % os.getpid())
            checks = """
open RbV RbV.Rs RbV.Gen.SrcSelfTestAlign
def g0 : Grid := { rows := 2, cols := 4, cells := [], best := 0 }
def fst (r : Res (Nat × Grid)) : Res Nat := r >>= fun p => pure p.1
def bst (r : Res (Nat × Grid)) : Res Int := r >>= fun p => pure p.2.best
#guard fst (sweep g0 1 3 10) = Res.ok 3
#guard bst (sweep g0 1 3 10) = Res.ok 12
#guard fst (sweep g0 (-1) 3 10) = Res.panic
#guard fst (sweep g0 2000000000 3 10) = Res.panic
#guard fst (sweep g0 1 3 1) = Res.fuel
#guard at__put g0 0 0 7 = Res.panic
"""
            with open(path, "w") as f:
                f.write(text + checks)
            p = subprocess.run(["lake", "env", "lean", path], cwd=lean_dir, stdout=subprocess.PIPE, stderr=subprocess.STDOUT, text=True)
            if p.returncode != 0:
                print(p.stdout[-3000:])
                print("selftest: the translated functions do not compile / evaluate as expected (%s kept)" % path)
                return 1
            os.remove(path)
            print("selftest: translated text compiles, 6 evaluations as expected")
        return 0
    finally:
        ALL_STRUCTS.clear()
        ALL_STRUCTS.update(saved[0])
        SIGS.clear()
        SIGS.update(saved[1])


def main():
    if "--selftest" in sys.argv:
        sys.exit(selftest("--lean" in sys.argv))
    if len(sys.argv) >= 2:
        import gen_tables as gt
        repo = sys.argv[2] if len(sys.argv) > 2 else "/repo"
        u = UNITS[sys.argv[1]]
        text, _ = translate_unit(gt.Src(repo, u["file"]), u, gt.fail)
        sys.stdout.write(text)
        return
    print(__doc__)


if __name__ == "__main__":
    main()
