#!/usr/bin/env python3
"""Re-run the registered quick checks against every kept seeded change (seeded/<id>/), in parallel.

  tools/seedsweep.py [--workers 4] [--only REGEX] [--tier quick] [--out seeded/SWEEP.json]

Each worker owns a private clone of /verif's committed HEAD under /var/tmp/w/tester<i>/verif (build output copied
from /verif, then `./setup.sh`), its own scratch worktree of /repo (SEEDWT_DIR=/var/tmp/seedwt<i>) and runs
`tools/seedtest.py seeded/<id> --skip-suite` for its share of the seeds (the demonstration + suite confirmation was done
when the seed was kept; the demonstration is still re-run). /repo and /verif themselves are never touched.
Summary: property-breaking seeds that are MISSED, property-preserving seeds that ALARM.
"""
import argparse, json, os, re, subprocess, sys, time
from concurrent.futures import ThreadPoolExecutor

ROOT = os.path.dirname(os.path.dirname(os.path.abspath(__file__)))


def sh(cmd, cwd=None, env=None, timeout=7200):
    p = subprocess.run(cmd, cwd=cwd, env=env, shell=True, stdout=subprocess.PIPE, stderr=subprocess.STDOUT, text=True,
                       timeout=timeout)
    return p.returncode, p.stdout


def prepare(i):
    base = "/var/tmp/w/tester%d" % i
    clone = base + "/verif"
    if not os.path.exists(clone):
        os.makedirs(base, exist_ok=True)
        rc, out = sh("git clone -q %s verif" % ROOT, cwd=base)
        assert rc == 0, out
        sh("cp -a %s/lean/.lake lean/ ; cp -a %s/harness/target harness/" % (ROOT, ROOT), cwd=clone)
    else:
        rc, out = sh("git fetch -q %s HEAD && git reset -q --hard FETCH_HEAD" % ROOT, cwd=clone)
        assert rc == 0, out
    rc, out = sh("./setup.sh", cwd=clone)
    assert rc == 0, out[-2000:]
    return clone


FAST = False


def worker(i, ids, tier):
    clone = prepare(i)
    env = dict(os.environ, SEEDWT_DIR="/var/tmp/seedwt%d" % i)
    env.pop("VERIF_REPO", None)
    res = []
    for sid in ids:
        t0 = time.time()
        d = os.path.join(clone, "seeded", sid)
        if os.path.exists(os.path.join(d, "result.json")):
            os.remove(os.path.join(d, "result.json"))
        rc, out = sh("python3 tools/seedtest.py %s --skip-suite %s--tier %s" % (d, "--no-demo " if FAST else "", tier), cwd=clone, env=env)
        if not os.path.exists(os.path.join(d, "result.json")):      # transient failure (worktree lock, cargo lock): once more
            rc, out = sh("python3 tools/seedtest.py %s --skip-suite %s--tier %s" % (d, "--no-demo " if FAST else "", tier), cwd=clone, env=env)
        try:
            r = json.load(open(os.path.join(d, "result.json")))
        except Exception as e:
            r = {"error": str(e), "tail": out[-600:]}
        meta = json.load(open(os.path.join(d, "meta.json")))
        harmless = str(meta.get("kind", "")).startswith("property-preserving") or meta.get("kind") == "harmless"
        res.append({"id": sid, "harmless": harmless, "caught": r.get("caught"), "false_alarm": r.get("false_alarm"),
                    "check_rc": r.get("check_rc"), "check_s": r.get("check_s"), "wall_s": round(time.time() - t0),
                    "violations": (r.get("check_violation_lines") or [])[:2],
                    "demo_fails_with_patch": r.get("demo_fails_with_patch"), "error": r.get("error")})
        print("[w%d] %s %s" % (i, sid, "silent" if harmless and not r.get("false_alarm") and r.get("check_rc") == 0 else
                                 "ALARM" if harmless else "caught" if r.get("caught") else "MISSED"), flush=True)
    sh("git -C /repo worktree remove --force /var/tmp/seedwt%d/wt; rm -rf /var/tmp/seedwt%d" % (i, i))
    return res


def main():
    ap = argparse.ArgumentParser()
    ap.add_argument("--workers", type=int, default=4)
    ap.add_argument("--only", default=".")
    ap.add_argument("--tier", default="quick")
    ap.add_argument("--out", default=os.path.join(ROOT, "seeded", "SWEEP.json"))
    ap.add_argument("--fast", action="store_true", help="do not re-run the demonstrations")
    a = ap.parse_args()
    global FAST
    FAST = a.fast
    ids = sorted(d for d in os.listdir(os.path.join(ROOT, "seeded"))
                 if os.path.isdir(os.path.join(ROOT, "seeded", d)) and re.search(a.only, d))
    parts = [ids[i::a.workers] for i in range(a.workers)]
    with ThreadPoolExecutor(max_workers=a.workers) as ex:
        futs = [ex.submit(worker, i, parts[i], a.tier) for i in range(a.workers) if parts[i]]
        allres = [r for f in futs for r in f.result()]
    allres.sort(key=lambda r: r["id"])
    head = subprocess.check_output(["git", "-C", ROOT, "rev-parse", "--short", "HEAD"], text=True).strip()
    missed = [r["id"] for r in allres if not r["harmless"] and not r["caught"]]
    alarms = [r["id"] for r in allres if r["harmless"] and (r["false_alarm"] or r["check_rc"] != 0)]
    json.dump({"verif_commit": head, "tier": a.tier, "n": len(allres), "missed": missed, "false_alarms": alarms,
               "results": allres}, open(a.out, "w"), indent=1)
    print("seeds: %d; property-breaking missed: %s; property-preserving alarmed: %s" % (len(allres), missed, alarms))


if __name__ == "__main__":
    main()
