#!/bin/sh
# tools/mergeclone.sh aNN — merge an agent clone; evidence files are regenerated anyway, so conflicts there take theirs
cd /verif
git pull --no-edit -q /var/tmp/w/$1/verif main >/dev/null 2>&1
c=$(git diff --name-only --diff-filter=U)
if [ -n "$c" ]; then
  for f in $c; do
    case "$f" in
      evidence/*) git checkout --theirs -- "$f" && git add "$f";;
      *) echo "CONFLICT in $f (agent $1)";;
    esac
  done
  if [ -z "$(git diff --name-only --diff-filter=U)" ]; then git commit -q --no-edit; fi
fi
echo "$1 merged: $(git log --oneline | head -1 | cut -c1-80)"
