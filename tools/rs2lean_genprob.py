#!/usr/bin/env python3
"""Dialect "prob" of the Rust→Lean translator (builder genprob): floating-point code with `f64` abstract.

    tools/rs2lean_genprob.py --selftest [--lean]          (normally called through tools/gen_tables.py)

Translates the bodies of the log-space probability functions of `src/stats/probs/mod.rs` and of `FastExp::fastexp`
(`src/utils/fastexp.rs`) into core-Lean definitions that are generic in a type `F` and an `o : Rs.F64Ops F`
(`lean/RbV/Basic/RsSemGenprob.lean`): every `f64` operation the text performs becomes a call of a field of `o`
(`o.add`, `o.lt`, `o.ln1p`, `o.fastexp`, `o.relEq`, …), decimal literals are kept exactly (`o.ofDec ⟨mantissa, scale⟩`),
`const`/`static` items the text names are translated from their own initialiser.  The newtypes `Prob`, `LogProb`,
`PHREDProb` are `F` (constructor, `*`, `f64::from` = identity).  Built on the tokenizer / parser classes of
`tools/rs2lean.py` (imported, not copied; subclass `ParserP` adds float literals, paths as values, turbofish, closures with
patterns and block bodies, named macro arguments); the code generator `FnP` is self-contained.

Subset
  statements   `let [mut] pat[: T] = e;`  `x = e;`  `x op= e;`  `v.push(e);`  `mem::swap(&mut a, &mut b);`
               `assert!(c, ..);`  `assert_eq!(a, b, ..);`  `if c {..} [else if ..] [else {..}]` (as statement: the outer
               variables assigned in a branch are returned, in declaration order)  `for pat in <iterator> {..}` (fold
               with a named helper `<fn>_for<k>`)  `return e;` as the last statement of an `if` without `else` (the rest
               of the block becomes the `else` branch) or of the function
  expressions  float / integer literals, variables, constants of the file, `f64::INFINITY`, `f64::NEG_INFINITY`,
               `f64::EPSILON`, `f64::consts::LN_2`, `+ - * /` and comparisons on `f64` (fields of `o`), on `usize` (checked:
               `Rs.add 64`, `Rs.sub`, `Rs.mul 64`; `%`, `/` by a literal), on `i64` (`Rs.iadd 64`, `Rs.ishl64`), `&& || !`,
               unary `-`, `as` between `f64`, `usize`, `i64`, `u64`, `v[i]` (`Rs.idx`), `v.len()`, `v.is_empty()`,
               `(lo..=hi).contains(&x)`, methods `fastexp exp ln ln_1p exp_m1 log10 powf is_nan` on `f64`, calls of other
               translated functions (`Self::f(..)`, `LogProb::f(..)`, `x.f(..)`), of closure parameters (`density(i, x)`)
               and of abstract functions of the spec (`linspace`), `Ok(e)` / `Err(Error::InvalidProb { prob: e })`,
               `Some(e)` / `None`, `relative_eq!(a, b [, epsilon = e] [, max_relative = r])`, `if` in tail position,
               iterator chains `xs.iter() | linspace(..) | xs.into_iter()` followed by `.enumerate()`, `.skip(k)`,
               `.dropping(k)`, `.dropping_back(k)` and ended by `.map(closure).collect_vec()` (named helper
               `<fn>_map<k>`), `.filter_map(closure).sum::<f64>()` (`<fn>_fmap<k>`, `Rs.fsum`), `.scan(init, Self::f)`.
Functions marked `pure=True` in the spec are plain definitions; the others live in the monad `Rs.Res` (a failed `assert!`,
an index out of bounds, `usize` underflow are `Res.panic`).  A `pure` function whose text needs the monad, and everything
outside the subset, raises `Unsupported` → the unit is `translation_unavailable` (soft).
"""
import sys, os, re, argparse
from fractions import Fraction

sys.path.insert(0, os.path.dirname(os.path.abspath(__file__)))
import rs2lean as base
from rs2lean import Unsupported, N, Tok, Parser, header_regex, dedent, ASSIGN_OPS

TOKEN_RX = re.compile(r"""
    (?P<ws>\s+)
  | (?P<byte>b'(?:\\.|[^\\'])')
  | (?P<str>"(?:\\.|[^"\\])*")
  | (?P<num>(?:0x[0-9a-fA-F_]+|0b[01_]+|0o[0-7_]+
        |[0-9][0-9_]*\.[0-9][0-9_]*(?:[eE][+-]?[0-9_]+)?|[0-9][0-9_]*[eE][+-]?[0-9_]+|[0-9][0-9_]*\.(?![.A-Za-z_])
        |[0-9][0-9_]*)(?:_?(?:f64|f32|u8|u16|u32|u64|usize|i8|i16|i32|i64|isize))?)
  | (?P<id>[A-Za-z_][A-Za-z0-9_]*)
  | (?P<life>'[A-Za-z_][A-Za-z0-9_]*)
  | (?P<op><<=|>>=|\.\.=|\.\.|::|->|=>|==|!=|<=|>=|&&|\|\||\+=|-=|\*=|/=|%=|&=|\|=|\^=|<<|>>|[-+*/%&|^!<>=.,;:(){}\[\]\#?@])
""", re.X)


def tokenize(text, b):
    toks, i, n = [], 0, len(text)
    while i < n:
        m = TOKEN_RX.match(text, i)
        if not m:
            raise Unsupported("cannot tokenise `%s`" % text[i:i + 12].split("\n")[0], b + i)
        i = m.end()
        if m.lastgroup == "ws":
            continue
        toks.append(Tok(m.lastgroup, m.group(0), b + m.start()))
    toks.append(Tok("eof", "<end of function>", b + n))
    return toks


def parse_float_lit(text):
    """Rust float literal → (mantissa, scale) with value mantissa / 10^scale, or None when it is an integer literal"""
    m = re.fullmatch(r"(.*?)_?(f64|f32|u8|u16|u32|u64|usize|i8|i16|i32|i64|isize)?", text)
    body, suf = m.group(1).replace("_", ""), m.group(2)
    if body[:2] in ("0x", "0b", "0o"):
        return None
    if suf in ("f64", "f32") or "." in body or "e" in body.lower():
        if suf == "f32":
            raise Unsupported("f32 literal")
        mm = re.fullmatch(r"([0-9]*)(?:\.([0-9]*))?(?:[eE]([+-]?[0-9]+))?", body)
        if not mm:
            raise Unsupported("float literal `%s`" % text)
        ip, fp, ex = mm.group(1) or "0", mm.group(2) or "", int(mm.group(3) or "0")
        mant, scale = int(ip + fp), len(fp)
        if ex >= 0:
            mant *= 10 ** ex
        else:
            scale += -ex
        while scale > 0 and mant % 10 == 0:          # canonical: no trailing zeros (`0.50` and `0.5` give the same text)
            mant //= 10
            scale -= 1
        return (mant, scale)
    return None


# ================================================================================================== parser

class ParserP(Parser):
    def closure(self):
        x = self.peek()
        if self.at("move"):
            self.next()
        params = []
        if self.at("||"):
            self.next()
        else:
            self.expect("|")
            while not self.at("|"):
                params.append(self.pattern())
                if self.at(":"):
                    self.next()
                    self.type_()
                if self.at(","):
                    self.next()
            self.expect("|")
        body = self.block() if self.at("{") else self.expr()
        return N("closure", x.pos, params=params, body=body)

    def args(self):
        self.expect("(")
        a = []
        while not self.at(")"):
            if self.at("|") or self.at("||") or self.at("move"):
                a.append(self.closure())
            else:
                a.append(self.expr())
            if self.at(","):
                self.next()
            elif not self.at(")"):
                raise Unsupported("argument list", self.peek().pos)
        self.expect(")")
        return a

    def postfix(self, no_struct):
        e = self.primary(no_struct)
        while True:
            x = self.peek()
            if self.at("."):
                self.next()
                nm = self.next()
                if nm.kind == "num":
                    e = N("tfield", nm.pos, e=e, idx=int(nm.text))
                    continue
                if nm.kind != "id":
                    raise Unsupported("after `.`", nm.pos)
                turbo = None
                if self.at("::"):
                    self.next()
                    self.expect("<")
                    turbo = []
                    while not self.at(">"):
                        turbo.append(self.type_())
                        if self.at(","):
                            self.next()
                    self.expect(">")
                if self.at("("):
                    e = N("mcall", nm.pos, recv=e, name=nm.text, args=self.args(), turbo=turbo)
                else:
                    e = N("field", nm.pos, e=e, name=nm.text)
            elif self.at("["):
                self.next()
                i = self.expr()
                self.expect("]")
                e = N("index", x.pos, base=e, idx=i)
            elif self.at("?"):
                raise Unsupported("`?` operator", x.pos)
            elif self.at("("):
                raise Unsupported("call of a computed function value", x.pos)
            else:
                return e

    def primary(self, no_struct):
        x = self.peek()
        if x.kind == "num":
            try:
                fl = parse_float_lit(x.text)
            except Unsupported as u:
                raise Unsupported(u.msg, x.pos)
            if fl is not None:
                self.next()
                return N("flit", x.pos, mant=fl[0], scale=fl[1])
            return Parser.primary(self, no_struct)
        if x.kind == "op" and x.text in ("|", "||"):
            return self.closure()
        if x.kind == "id" and x.text not in ("if", "true", "false", "match", "loop", "unsafe", "move", "while", "for",
                                             "return", "break", "continue", "let"):
            nxt = self.peek(1)
            if nxt.kind == "op" and nxt.text in ("::", "!"):
                self.next()
                path = [x.text]
                while self.at("::"):
                    self.next()
                    if self.at("<"):
                        raise Unsupported("turbofish / generic arguments in a path", self.peek().pos)
                    path.append(self.ident().text)
                if self.at("!"):
                    self.next()
                    opener = self.next()
                    if opener.text != "(":
                        raise Unsupported("macro `%s!` with `%s`" % (x.text, opener.text), x.pos)
                    args, named = [], {}
                    while not self.at(")"):
                        if self.peek().kind == "id" and self.at("=", 1):
                            k = self.next().text
                            self.next()
                            named[k] = self.expr()
                        else:
                            args.append(self.expr())
                        if self.at(","):
                            self.next()
                        elif not self.at(")"):
                            raise Unsupported("macro arguments of `%s!`" % x.text, self.peek().pos)
                    self.expect(")")
                    return N("macro", x.pos, name="::".join(path), args=args, named=named)
                if self.at("("):
                    return N("call", x.pos, path=path, args=self.args())
                if self.at("{") and not no_struct and path[-1][:1].isupper():
                    self.next()
                    fields = []
                    while not self.at("}"):
                        f = self.ident()
                        if self.at(":"):
                            self.next()
                            fields.append((f.text, self.expr()))
                        else:
                            fields.append((f.text, N("var", f.pos, name=f.text)))
                        if self.at(","):
                            self.next()
                    self.expect("}")
                    return N("struct", x.pos, name="::".join(path), fields=fields)
                return N("path", x.pos, path=path)
        return Parser.primary(self, no_struct)


# ================================================================================================== types

F, NAT, INT, BOOL, UNIT = "F", "Nat", "Int", "Bool", "Unit"


def lean_ty(t):
    if isinstance(t, str):
        return t
    if t[0] == "list":
        return "List " + paren(lean_ty(t[1]))
    if t[0] == "tuple":
        return " × ".join(paren(lean_ty(x)) if not isinstance(x, str) else x for x in t[1])
    if t[0] == "opt":
        return "Option " + paren(lean_ty(t[1]))
    if t[0] == "result":
        return "Except (ProbError F) " + paren(lean_ty(t[1]))
    if t[0] == "fn":
        return " → ".join(paren(lean_ty(x)) for x in t[1] + [t[2]])
    raise ValueError(t)


def paren(s):
    return "(%s)" % s if (" " in s and not (s.startswith("(") and base.matching_close(s) == len(s) - 1)) else s


FLOAT_TYPES = {"f64", "Prob", "LogProb", "PHREDProb", "Self", "T"}


def ty_of_text(s, aliases=None):
    s = " ".join(s.split())
    s = re.sub(r"^&\s*(mut\s+)?", "", s)
    if aliases and s in aliases:
        return ty_of_text(aliases[s], aliases)
    if s in FLOAT_TYPES:
        return F
    if s in ("usize", "u64", "u32"):
        return NAT
    if s in ("i64", "isize"):
        return INT
    if s == "bool":
        return BOOL
    if s == "()":
        return UNIT
    m = re.fullmatch(r"\[(.+)\]|Vec<(.+)>", s)
    if m:
        return ("list", ty_of_text(m.group(1) or m.group(2), aliases))
    m = re.fullmatch(r"Option<(.+)>", s)
    if m:
        return ("opt", ty_of_text(m.group(1), aliases))
    m = re.fullmatch(r"Result<(.+)>", s)
    if m:
        return ("result", ty_of_text(m.group(1), aliases))
    m = re.fullmatch(r"Fn\((.*)\)\s*->\s*(.+)", s)
    if m:
        return ("fn", [ty_of_text(x, aliases) for x in m.group(1).split(",")], ty_of_text(m.group(2), aliases))
    raise Unsupported("type `%s`" % s)


def ty_of_node(t, aliases=None):
    if t.kind == "tref":
        return ty_of_node(t.inner, aliases)
    if t.kind == "tslice":
        return ("list", ty_of_node(t.elem, aliases))
    if t.kind == "ttuple":
        return ("tuple", [ty_of_node(x, aliases) for x in t.items])
    if t.kind == "tname":
        if t.name in ("Vec",) and t.args:
            return ("list", ty_of_node(t.args[0], aliases))
        return ty_of_text(t.name, aliases)
    raise Unsupported("type annotation")


# ================================================================================================== code generator

class NeedMonad(Exception):
    pass


F_METHODS = {"fastexp": "fastexp", "exp": "exp", "ln": "ln", "ln_1p": "ln1p", "exp_m1": "expm1", "log10": "log10"}
F_PATHS = {"f64::INFINITY": "o.inf", "f64::NEG_INFINITY": "o.negInf", "f64::EPSILON": "o.epsilon",
           "f64::consts::LN_2": "o.ln2", "std::f64::INFINITY": "o.inf", "std::f64::NEG_INFINITY": "o.negInf",
           "std::f64::EPSILON": "o.epsilon", "std::f64::consts::LN_2": "o.ln2"}
NEWTYPES = ("Prob", "LogProb", "PHREDProb")


def ind(lines, n=2):
    return [" " * n + l for l in lines]


def tup(names):
    return names[0] if len(names) == 1 else "(" + ", ".join(names) + ")"


def walk(n, f):
    """pre-order walk over AST nodes (lists, tuples of (name, node) included)"""
    if isinstance(n, N):
        f(n)
        for k, v in n.__dict__.items():
            if k not in ("kind", "pos"):
                walk(v, f)
    elif isinstance(n, (list, tuple)):
        for x in n:
            walk(x, f)
    elif isinstance(n, dict):
        for x in n.values():
            walk(x, f)


class UnitCtx:
    """what the functions of one unit share: the source, the spec, generated constants"""

    def __init__(self, unit, src):
        self.unit, self.src = unit, src
        self.consts = {}          # rust name -> (lean text of the def, type)
        self.const_order = []
        self.fns = {f["name"].split("::")[-1]: f for f in unit.get("extern_fns", []) + unit["functions"]}

    def const_ref(self, name, node):
        if name not in self.consts:
            rx = re.compile(r"^[ \t]*(?:pub(?:\([^)]*\))?[ \t]+)?(?:const|static)[ \t]+" + re.escape(name)
                            + r"\b\s*:\s*([^=]+?)\s*=\s*([^;]*);", re.M)
            ms = list(rx.finditer(self.src.code))
            if len(ms) != 1:
                raise Unsupported("`%s`: %d `const`/`static` items of that name in the file (a variable out of scope, or a "
                                  "constant that moved)" % (name, len(ms)), node.pos)
            m = ms[0]
            ty = ty_of_text(m.group(1))
            start = m.start(2)
            toks = tokenize(m.group(2), start)
            p = ParserP(toks)
            e = p.expr()
            if p.peek().kind != "eof":
                raise Unsupported("initialiser of `%s`" % name, p.peek().pos)
            tr = FnP(self, dict(name=name, lean=name, params=[], ret=m.group(1), pure=True), {})
            txt, t2 = tr.ex(e, [], ty)
            if t2 != ty:
                raise Unsupported("initialiser of `%s` has type %s, declared %s" % (name, t2, ty), node.pos)
            self.consts[name] = (txt, ty, " ".join(m.group(0).split()), self.src.line_of(m.start()))
            self.const_order.append(name)
        # use sites get the translated initialiser itself (proofs cannot name constants a rewrite introduces); the `def` is
        # emitted for reference
        return self.consts[name][0], self.consts[name][1]


class FnP:
    def __init__(self, ctx, f, env):
        self.ctx, self.f = ctx, f
        self.env = dict(env)                # rust name -> (lean name, type)
        self.decl = list(env)               # declaration order
        self.mon = not f.get("pure", False)
        self.ntmp = 0
        self.nhelper = {}
        self.helpers = []                   # lean texts
        self.lean = f["lean"]
        self.abs = f.get("abstract_fns", {})

    # ---------------------------------------------------------------- small things
    def err(self, msg, node=None):
        raise Unsupported(msg, node.pos if node is not None else None)

    def tmp(self):
        self.ntmp += 1
        return "t%d" % self.ntmp

    def bind(self, pre, text):
        if not self.mon:
            raise NeedMonad()
        t = self.tmp()
        pre.append("let %s ← %s" % (t, text))
        return t

    def declare(self, name, ty):
        ln = {"self": "self_", "end": "end_", "at": "at_", "from": "from_", "fun": "fun_", "open": "open_",
              "then": "then_", "show": "show_", "have": "have_", "o": "o_", "match": "match_"}.get(name, name)
        self.env[name] = (ln, ty)
        if name not in self.decl:
            self.decl.append(name)
        return ln

    def abs_args(self):
        return "".join(" " + a["lean"] for a in self.abs.values())

    def abs_params(self):
        return "".join(" (%s : %s)" % (a["lean"], a["sig"]) for a in self.abs.values())

    # ---------------------------------------------------------------- expressions
    def ex(self, e, pre, want=None):
        k = e.kind
        if k == "flit":
            return "(o.ofDec ⟨%d, %d⟩)" % (e.mant, e.scale), F
        if k == "lit":
            if want == INT:
                return "(%d : Int)" % e.v, INT
            if e.suf in ("i64", "isize"):
                return "(%d : Int)" % e.v, INT
            return str(e.v), NAT
        if k == "blit":
            return ("true" if e.v else "false"), BOOL
        if k == "var":
            if e.name in self.env:
                return self.env[e.name]
            if e.name == "None":
                return "none", (want if isinstance(want, tuple) and want[0] == "opt" else ("opt", "?"))
            if re.fullmatch(r"[A-Z][A-Z0-9_]*", e.name):
                return self.ctx.const_ref(e.name, e)
            self.err("unknown variable `%s`" % e.name, e)
        if k == "path":
            p = "::".join(e.path)
            if p in F_PATHS:
                return F_PATHS[p], F
            self.err("path `%s`" % p, e)
        if k == "paren":
            return self.ex(e.e, pre, want)
        if k == "tuple":
            xs = [self.ex(x, pre) for x in e.items]
            return "(" + ", ".join(x[0] for x in xs) + ")", ("tuple", [x[1] for x in xs])
        if k == "un":
            if e.op in ("*", "&"):
                return self.ex(e.e, pre, want)
            if e.op == "-":
                inner = e.e
                while inner.kind == "paren":
                    inner = inner.e
                if inner.kind == "flit":
                    return "(o.ofDec ⟨%s, %d⟩)" % ("(%d)" % -inner.mant if inner.mant else "0", inner.scale), F
                if inner.kind == "lit" and want == INT:
                    return "(%d : Int)" % -inner.v, INT
                x, t = self.ex(e.e, pre, want)
                if t == F:
                    return "(o.neg %s)" % x, F
                if t == INT:
                    return "(-%s)" % x, INT
                self.err("unary `-` on %s" % (t,), e)
            if e.op == "!":
                x, t = self.ex(e.e, pre)
                if t != BOOL:
                    self.err("`!` on a non-bool", e)
                return "(!%s)" % x, BOOL
        if k == "cast":
            x, t = self.ex(e.e, pre)
            tt = ty_of_node(e.ty)
            tname = e.ty.name if e.ty.kind == "tname" else "?"
            if t == tt and not (t == NAT and tname != "usize" and tname != "u64"):
                return x, t
            if t == NAT and tt == F:
                return "(o.ofNat %s)" % x, F
            if t == INT and tt == F:
                return "(o.ofInt %s)" % x, F
            if t == F and tt == INT and tname == "i64":
                return "(o.truncI64 %s)" % x, INT
            if t == INT and tt == NAT and tname in ("u64", "usize"):
                return "(Rs.ofSigned 64 %s)" % x, NAT
            self.err("cast from %s to `%s`" % (t, tname), e)
        if k == "bin":
            return self.binary(e, pre, want)
        if k == "index":
            b, bt = self.ex(e.base, pre)
            i, it = self.ex(e.idx, pre, NAT)
            if not (isinstance(bt, tuple) and bt[0] == "list") or it != NAT:
                self.err("indexing", e)
            return self.bind(pre, "Rs.idx %s %s" % (b, i)), bt[1]
        if k == "mcall":
            return self.mcall(e, pre, want)
        if k == "call":
            return self.call(e, pre, want)
        if k == "macro":
            return self.macro(e, pre)
        if k == "struct":
            if e.name.split("::")[-1] == "InvalidProb" and len(e.fields) == 1 and e.fields[0][0] == "prob":
                x, t = self.ex(e.fields[0][1], pre)
                return "(ProbError.InvalidProb %s)" % x, "ProbError"
            self.err("struct literal `%s`" % e.name, e)
        if k == "if":
            c, ct = self.ex(e.cond, pre)
            if e.els is None or e.then.stmts or e.els.stmts or e.then.tail is None or e.els.tail is None:
                self.err("`if` expression with statements in a branch outside tail position", e)
            p1, p2 = [], []
            a, at = self.ex(e.then.tail, p1, want)
            b, bt = self.ex(e.els.tail, p2, want)
            if p1 or p2:
                self.err("`if` expression whose branches can panic outside tail position", e)
            at = unify(at, bt)
            if at is None:
                self.err("branches of different types", e)
            return "(if %s then %s else %s)" % (c, a, b), at
        self.err("expression `%s`" % k, e)

    def binary(self, e, pre, want):
        op = e.op
        if op in ("&&", "||"):
            l, lt = self.ex(e.l, pre)
            p2 = []
            r, rt = self.ex(e.r, p2)
            if p2:
                self.err("right operand of `%s` can panic" % op, e)
            if lt != BOOL or rt != BOOL:
                self.err("`%s` on non-bool" % op, e)
            return "(%s %s %s)" % (l, op, r), BOOL
        # literal operands take the type of the other side
        lw = rw = None
        if e.l.kind == "lit" and e.r.kind != "lit":
            r, rt = self.ex(e.r, pre, want)
            l, lt = self.ex(e.l, pre, rt)
        else:
            l, lt = self.ex(e.l, pre, want if op in "+-*/%<<>>" else None)
            r, rt = self.ex(e.r, pre, lt if op not in ("<<", ">>") else NAT)
        if op in ("<<", ">>"):
            if lt == INT and rt == NAT and op == "<<":
                return self.bind(pre, "Rs.ishl64 %s %s" % (l, r)), INT
            self.err("shift on %s" % (lt,), e)
        if lt != rt:
            self.err("operands of `%s` have types %s and %s" % (op, lt, rt), e)
        if lt == F:
            m = {"+": "add", "-": "sub", "*": "mul", "/": "div"}
            if op in m:
                return "(o.%s %s %s)" % (m[op], l, r), F
            c = {"<": "(o.lt %s %s)" % (l, r), ">": "(o.lt %s %s)" % (r, l), "<=": "(o.le %s %s)" % (l, r),
                 ">=": "(o.le %s %s)" % (r, l), "==": "(o.eq %s %s)" % (l, r), "!=": "(!(o.eq %s %s))" % (l, r)}
            if op in c:
                return c[op], BOOL
            self.err("`%s` on f64" % op, e)
        if lt == NAT:
            if op == "+":
                return self.bind(pre, "Rs.add 64 %s %s" % (l, r)), NAT
            if op == "-":
                return self.bind(pre, "Rs.sub %s %s" % (l, r)), NAT
            if op == "*":
                return self.bind(pre, "Rs.mul 64 %s %s" % (l, r)), NAT
            if op in ("/", "%"):
                if e.r.kind == "lit" and e.r.v != 0:
                    return "(%s %s %s)" % (l, op, r), NAT
                return self.bind(pre, "Rs.%s %s %s" % ("div" if op == "/" else "rem", l, r)), NAT
            c = {"<": "decide (%s < %s)", ">": "decide (%s > %s)", "<=": "decide (%s ≤ %s)", ">=": "decide (%s ≥ %s)",
                 "==": "(%s == %s)", "!=": "(%s != %s)"}
            if op in c:
                return "(" + c[op] % (l, r) + ")", BOOL
        if lt == INT:
            if op == "+":
                return self.bind(pre, "Rs.iadd 64 %s %s" % (l, r)), INT
            if op == "-":
                return self.bind(pre, "Rs.isub 64 %s %s" % (l, r)), INT
            c = {"<": "decide (%s < %s)", ">": "decide (%s > %s)", "<=": "decide (%s ≤ %s)", ">=": "decide (%s ≥ %s)",
                 "==": "(%s == %s)", "!=": "(%s != %s)"}
            if op in c:
                return "(" + c[op] % (l, r) + ")", BOOL
        if lt == BOOL and op in ("==", "!="):
            return "(%s %s %s)" % (l, op, r), BOOL
        self.err("`%s` on %s" % (op, lt), e)

    def sibling(self, name, args, pre, node):
        g = self.ctx.fns[name]
        psig = [ty_of_text(t, self.ctx.unit.get("aliases")) for _, t in g["params"]]
        if len(args) != len(psig):
            self.err("call of `%s` with %d arguments" % (name, len(args)), node)
        xs = []
        for a, pt in zip(args, psig):
            x, t = a if isinstance(a, tuple) else self.ex(a, pre, pt)
            if t != pt:
                self.err("argument of `%s` has type %s, expected %s" % (name, t, pt), node)
            xs.append(x)
        extra = "".join(" " + self.abs[k]["lean"] for k in g.get("abstract_fns", {}))
        txt = "%s o%s%s" % (g["lean"], extra, "".join(" " + x for x in xs))
        rt = ty_of_text(g["ret"], self.ctx.unit.get("aliases"))
        if g.get("pure", False):
            return "(%s)" % txt, rt
        return self.bind(pre, txt), rt

    def call(self, e, pre, want):
        p = e.path
        last = p[-1]
        if len(p) == 1 and last in NEWTYPES and len(e.args) == 1:
            x, t = self.ex(e.args[0], pre, F)
            if t != F:
                self.err("`%s(..)` of a non-f64" % last, e)
            return x, F
        if len(p) == 1 and last in self.env and isinstance(self.env[last][1], tuple) and self.env[last][1][0] == "fn":
            ln, ft = self.env[last]
            xs = [self.ex(a, pre, pt) for a, pt in zip(e.args, ft[1])]
            if len(xs) != len(ft[1]) or any(x[1] != pt for x, pt in zip(xs, ft[1])):
                self.err("arguments of the closure parameter `%s`" % last, e)
            return "(%s%s)" % (ln, "".join(" " + x[0] for x in xs)), ft[2]
        if len(p) == 1 and last in self.abs:
            a = self.abs[last]
            xs = [self.ex(x, pre, pt) for x, pt in zip(e.args, a["params"])]
            if len(xs) != len(a["params"]) or any(x[1] != pt for x, pt in zip(xs, a["params"])):
                self.err("arguments of `%s`" % last, e)
            return "(%s%s)" % (a["lean"], "".join(" " + x[0] for x in xs)), a["ret"]
        if p in (["f64", "from"], ["From", "from"]) and len(e.args) == 1:
            x, t = self.ex(e.args[0], pre, F)
            if t != F:
                self.err("`f64::from` of a non-float", e)
            return x, F
        if p == ["f64", "from_bits"] and len(e.args) == 1:
            x, t = self.ex(e.args[0], pre, NAT)
            if t != NAT:
                self.err("`f64::from_bits` of a non-u64", e)
            return "(o.fromBits %s)" % x, F
        if last == "Ok" and len(e.args) == 1:
            x, t = self.ex(e.args[0], pre)
            return "(Except.ok %s)" % x, ("result", t)
        if last == "Err" and len(e.args) == 1:
            x, t = self.ex(e.args[0], pre)
            if t != "ProbError":
                self.err("`Err(..)` of something else than `Error::InvalidProb { prob }`", e)
            return "(Except.error %s)" % x, ("result", want[1] if isinstance(want, tuple) and want[0] == "result" else F)
        if last == "Some" and len(e.args) == 1:
            x, t = self.ex(e.args[0], pre)
            return "(some %s)" % x, ("opt", t)
        if ((len(p) == 2 and p[0] in ("Self",) + NEWTYPES) or len(p) == 1) and last in self.ctx.fns:
            return self.sibling(last, e.args, pre, e)
        self.err("call of `%s`" % "::".join(p), e)

    def macro(self, e, pre):
        if e.name == "relative_eq" and len(e.args) == 2 and set(e.named) <= {"epsilon", "max_relative"}:
            a, at = self.ex(e.args[0], pre)
            b, bt = self.ex(e.args[1], pre)
            eps = self.ex(e.named["epsilon"], pre)[0] if "epsilon" in e.named else "o.epsilon"
            rel = self.ex(e.named["max_relative"], pre)[0] if "max_relative" in e.named else "o.epsilon"
            if at != F or bt != F:
                self.err("`relative_eq!` on non-floats", e)
            return "(o.relEq %s %s %s %s)" % (a, b, eps, rel), BOOL
        self.err("macro `%s!` in expression position" % e.name, e)

    def is_list(self, t):
        return isinstance(t, tuple) and t[0] == "list"

    def chain(self, e, pre):
        """an iterator expression → (lean list, element type), or None"""
        if e.kind == "paren":
            return self.chain(e.e, pre)
        if e.kind == "un" and e.op in ("&", "*"):
            return self.chain(e.e, pre)
        if e.kind == "var" and e.name in self.env and self.is_list(self.env[e.name][1]):
            return self.env[e.name][0], self.env[e.name][1][1]
        if e.kind == "call" and len(e.path) == 1 and e.path[0] in self.abs and self.is_list(self.abs[e.path[0]]["ret"]):
            x, t = self.call(e, pre, None)
            return x, t[1]
        if e.kind == "mcall":
            if e.name in ("iter", "into_iter") and not e.args:
                return self.chain(e.recv, pre)
            inner = self.chain(e.recv, pre)
            if inner is None:
                return None
            l, et = inner
            if e.name == "enumerate" and not e.args:
                return "(Rs.enumIdx %s)" % l, ("tuple", [NAT, et])
            if e.name in ("skip", "dropping") and len(e.args) == 1:
                k, kt = self.ex(e.args[0], pre, NAT)
                return "(%s.drop %s)" % (l, k), et
            if e.name == "dropping_back" and len(e.args) == 1:
                k, kt = self.ex(e.args[0], pre, NAT)
                return "(Rs.dropBack %s %s)" % (k, l), et
        return None

    def mcall(self, e, pre, want):
        nm = e.name
        # terminal iterator operations
        if nm in ("collect_vec", "collect") and not e.args and e.recv.kind == "mcall" and e.recv.name == "map" \
                and len(e.recv.args) == 1 and e.recv.args[0].kind == "closure":
            src = self.chain(e.recv.recv, pre)
            if src is None:
                self.err("iterator in front of `.map(..)`", e)
            h, rt, mon = self.closure_helper(e.recv.args[0], src[1], "map")
            if mon:
                return self.bind(pre, "List.mapM (%s) %s" % (h, src[0])), ("list", rt)
            return "(List.map (%s) %s)" % (h, src[0]), ("list", rt)
        if nm == "sum" and not e.args and e.recv.kind == "mcall" and e.recv.name in ("filter_map", "map") \
                and len(e.recv.args) == 1 and e.recv.args[0].kind == "closure":
            src = self.chain(e.recv.recv, pre)
            if src is None:
                self.err("iterator in front of `.%s(..)`" % e.recv.name, e)
            h, rt, mon = self.closure_helper(e.recv.args[0], src[1], "fmap" if e.recv.name == "filter_map" else "map")
            if mon:
                self.err("closure of `.%s(..).sum()` can panic" % e.recv.name, e)
            if e.recv.name == "filter_map":
                if rt != ("opt", F):
                    self.err("`filter_map` closure does not return Option<f64>", e)
                return "(Rs.fsum o (List.filterMap (%s) %s))" % (h, src[0]), F
            if rt != F:
                self.err("sum of non-floats", e)
            return "(Rs.fsum o (List.map (%s) %s))" % (h, src[0]), F
        if nm == "scan" and len(e.args) == 2 and e.args[1].kind == "path" and e.args[1].path[-1] in self.ctx.fns:
            src = self.chain(e.recv, pre)
            if src is None:
                self.err("iterator in front of `.scan(..)`", e)
            g = self.ctx.fns[e.args[1].path[-1]]
            if not g.get("pure", False) or not g.get("scan_step", False):
                self.err("`.scan(..)` with a step function that is not declared `scan_step` in the spec", e)
            init, it = self.ex(e.args[0], pre)
            rt = ty_of_text(g["ret"])
            return "(Rs.iterScan (%s o) %s %s)" % (g["lean"], init, src[0]), ("list", rt[1])
        if nm == "contains" and len(e.args) == 1:
            r = e.recv
            while r.kind == "paren":
                r = r.e
            if r.kind == "range" and r.lo is not None and r.hi is not None:
                x, xt = self.ex(e.args[0], pre)
                lo, lt = self.ex(r.lo, pre, xt)
                hi, ht = self.ex(r.hi, pre, xt)
                if xt == F and lt == F and ht == F:
                    return "((o.le %s %s) && (%s %s %s))" % (lo, x, "o.le" if r.incl else "o.lt", x, hi), BOOL
            self.err("`.contains(..)` on something else than a float range", e)
        recv, rt = self.ex(e.recv, pre)
        if rt == F:
            if nm in F_METHODS and not e.args:
                return "(o.%s %s)" % (F_METHODS[nm], recv), F
            if nm == "powf" and len(e.args) == 1:
                y, yt = self.ex(e.args[0], pre, F)
                return "(o.powf %s %s)" % (recv, y), F
            if nm == "is_nan" and not e.args:
                return "(o.isNan %s)" % recv, BOOL
            if nm in self.ctx.fns:
                return self.sibling(nm, [(recv, rt)] + e.args, pre, e)
        if self.is_list(rt):
            if nm == "len" and not e.args:
                return "%s.length" % recv, NAT
            if nm == "is_empty" and not e.args:
                return "%s.isEmpty" % recv, BOOL
        if nm == "contains" and len(e.args) == 1:
            r = e.recv
            while r.kind == "paren":
                r = r.e
            if r.kind == "range" and r.lo is not None and r.hi is not None:
                x, xt = self.ex(e.args[0], pre)
                lo, lt = self.ex(r.lo, pre, xt)
                hi, ht = self.ex(r.hi, pre, xt)
                if xt == F and lt == F and ht == F:
                    return "((o.le %s %s) && (%s %s %s))" % (lo, x, "o.le" if r.incl else "o.lt", x, hi), BOOL
        self.err("method `.%s(..)` on %s" % (nm, rt), e)

    # ---------------------------------------------------------------- statements and blocks
    def ret(self, x):
        return "pure %s" % x if self.mon else x

    def do_kw(self):
        return " do" if self.mon else ""

    def letkw(self, pat, mon_rhs):
        return "let %s %s" % (pat, "←" if mon_rhs else ":=")

    def pat_bind(self, p, ty, node):
        """declare the names of pattern `p` at type `ty`; returns the Lean pattern text"""
        if p.kind == "pid":
            if p.name == "_":
                return "_"
            return self.declare(p.name, ty)
        if p.kind == "ptuple":
            if not (isinstance(ty, tuple) and ty[0] == "tuple" and len(ty[1]) == len(p.items)):
                self.err("tuple pattern against a value of type %s" % (ty,), node)
            return "(" + ", ".join(self.pat_bind(q, t, node) for q, t in zip(p.items, ty[1])) + ")"
        self.err("pattern", node)

    def assigned(self, node):
        """outer variables (declared now) assigned somewhere in `node`, in declaration order"""
        out = set()

        def f(n):
            if n.kind == "assign":
                r = n.lhs
                while r.kind in ("un", "paren"):
                    r = r.e
                if r.kind == "var":
                    out.add(r.name)
            elif n.kind == "mcall" and n.name == "push" and n.recv.kind == "var":
                out.add(n.recv.name)
            elif n.kind == "call" and n.path[-1] == "swap":
                for a in n.args:
                    while a.kind in ("un", "paren"):
                        a = a.e
                    if a.kind == "var":
                        out.add(a.name)
        walk(node, f)
        return [v for v in self.decl if v in out and v in self.env]

    def referenced(self, node):
        out = set()

        def f(n):
            if n.kind == "var":
                out.add(n.name)
            elif n.kind == "call" and len(n.path) == 1:
                out.add(n.path[0])
        walk(node, f)
        return out

    def has_return(self, node):
        found = []
        walk(node, lambda n: found.append(1) if n.kind == "return" else None)
        return bool(found)

    def tailval(self, e, want):
        """lines computing the value of `e` in tail position → (lines, type)"""
        while e.kind == "paren":
            e = e.e
        if e.kind == "if":
            pre = []
            c, ct = self.ex(e.cond, pre)
            if ct != BOOL:
                self.err("condition is not a bool", e)
            if e.els is None:
                self.err("`if` without `else` in tail position", e)
            saved = (dict(self.env), list(self.decl))
            l1, t1 = self.blk(e.then.stmts, e.then.tail, lambda t: self.tailval_opt(t, want))
            self.env, self.decl = dict(saved[0]), list(saved[1])
            l2, t2 = self.blk(e.els.stmts, e.els.tail, lambda t: self.tailval_opt(t, want))
            self.env, self.decl = saved
            t1 = unify(t1, t2)
            if t1 is None:
                self.err("branches of different types", e)
            return pre + ["if %s then%s" % (c, self.do_kw())] + ind(l1) + ["else%s" % self.do_kw()] + ind(l2), t1
        pre = []
        x, t = self.ex(e, pre, want)
        return pre + [self.ret(self.with_muts(x))], t

    def with_muts(self, x):
        mp = self.f.get("mut_params")
        if mp and getattr(self, "is_fn_level", False):
            return "(" + ", ".join([self.env[m][0] for m in mp] + [x]) + ")"
        return x

    def tailval_opt(self, t, want):
        if t is None:
            self.err("block without a value in tail position")
        return self.tailval(t, want)

    def blk(self, stmts, tail, fin):
        """statements followed by `fin(tail)` → (lines, type of the final value)"""
        if not stmts:
            return fin(tail)
        s, rest = stmts[0], stmts[1:]
        k = s.kind
        if k == "let":
            pre = []
            want = ty_of_node(s.ty) if s.ty is not None else None
            x, t = self.ex(s.init, pre, want)
            if want is not None and t != want:
                self.err("`let` of type %s initialised with %s" % (want, t), s)
            pat = self.pat_bind(s.pat, t, s)
            l, ty = self.blk(rest, tail, fin)
            return pre + ["let %s := %s" % (pat, x)] + l, ty
        if k == "assign":
            lhs = s.lhs
            while lhs.kind in ("un", "paren"):
                lhs = lhs.e
            if lhs.kind != "var" or lhs.name not in self.env:
                self.err("assignment to something else than a variable", s)
            ln, lt = self.env[lhs.name]
            rhs = s.rhs if s.op is None else N("bin", s.pos, op=s.op, l=N("var", s.pos, name=lhs.name), r=s.rhs)
            pre = []
            x, t = self.ex(rhs, pre, lt)
            if t != lt:
                self.err("assignment of %s to a variable of type %s" % (t, lt), s)
            l, ty = self.blk(rest, tail, fin)
            return pre + ["let %s := %s" % (ln, x)] + l, ty
        if k == "exprs":
            e = s.e
            if e.kind == "mcall" and e.name == "push" and e.recv.kind == "var" and len(e.args) == 1:
                ln, lt = self.ex(e.recv, [])
                if not self.is_list(lt):
                    self.err("`push` on a non-vector", s)
                pre = []
                x, t = self.ex(e.args[0], pre, lt[1])
                if t != lt[1]:
                    self.err("`push` of %s onto %s" % (t, lt), s)
                l, ty = self.blk(rest, tail, fin)
                return pre + ["let %s := %s ++ [%s]" % (ln, ln, x)] + l, ty
            if e.kind == "call" and e.path[-1] == "swap" and len(e.args) == 2:
                a, at = self.ex(e.args[0], [])
                b, bt = self.ex(e.args[1], [])
                if at != bt or not all(x.kind == "un" and x.e.kind == "var" for x in e.args):
                    self.err("`swap` of something else than two variables of one type", s)
                l, ty = self.blk(rest, tail, fin)
                return ["let (%s, %s) := (%s, %s)" % (a, b, b, a)] + l, ty
            if e.kind == "macro" and e.name in ("assert", "debug_assert") and e.args:
                pre = []
                c, ct = self.ex(e.args[0], pre)
                if ct != BOOL:
                    self.err("`assert!` of a non-bool", s)
                if not self.mon:
                    raise NeedMonad()
                l, ty = self.blk(rest, tail, fin)
                return pre + ["Rs.assert %s" % c] + l, ty
            if e.kind == "macro" and e.name in ("assert_eq", "debug_assert_eq") and len(e.args) >= 2:
                pre = []
                a, at = self.ex(e.args[0], pre)
                b, bt = self.ex(e.args[1], pre, at)
                if at != bt or at not in (NAT, INT, BOOL):
                    self.err("`assert_eq!` on %s / %s" % (at, bt), s)
                if not self.mon:
                    raise NeedMonad()
                l, ty = self.blk(rest, tail, fin)
                return pre + ["Rs.assert (%s == %s)" % (a, b)] + l, ty
            self.err("expression statement", s)
        if k == "return":
            if rest or tail is not None:
                self.err("statements after `return`", s)
            if s.e is None:
                self.err("`return` without a value", s)
            return self.tailval(s.e, self.ret_ty)
        if k == "ifs" and s.e.kind == "if":
            e = s.e
            if self.has_return(e):
                if e.els is not None or not e.then.stmts or e.then.stmts[-1].kind != "return" or e.then.tail is not None \
                        or not getattr(self, "is_fn_level", False):
                    self.err("`return` in an `if` of another shape than `if c { …; return e; }`", e)
                pre = []
                c, ct = self.ex(e.cond, pre)
                saved = (dict(self.env), list(self.decl))
                l1, t1 = self.blk(e.then.stmts, None, fin)
                self.env, self.decl = saved
                l2, t2 = self.blk(rest, tail, fin)
                if t1 != t2:
                    self.err("`return` of type %s in a function returning %s" % (t1, t2), e)
                return pre + ["if %s then%s" % (c, self.do_kw())] + ind(l1) + ["else%s" % self.do_kw()] + ind(l2), t2
            vs = self.assigned(e)
            names = [self.env[v][0] for v in vs]
            pre = []
            c, ct = self.ex(e.cond, pre)
            saved = (dict(self.env), list(self.decl))
            pat = tup(names) if names else "_"
            val = tup(names) if names else "()"
            endv = lambda t: (self.no_tail(t) or [self.ret(val)], UNIT)
            l1, _ = self.ublk(e.then, endv)
            self.env, self.decl = dict(saved[0]), list(saved[1])
            if e.els is not None:
                l2, _ = self.ublk(e.els, endv)
            else:
                l2 = [self.ret(val)]
            self.env, self.decl = saved
            l, ty = self.blk(rest, tail, fin)
            return (pre + [self.letkw(pat, self.mon)] + ind(["if %s then%s" % (c, self.do_kw())] + ind(l1)
                                                             + ["else%s" % self.do_kw()] + ind(l2)) + l), ty
        if k == "for":
            src = self.chain(s.iter, pre := [])
            if src is None:
                self.err("iterator of the `for` loop", s)
            vs = self.assigned(s.body)
            if not vs:
                self.err("`for` loop that assigns no outer variable", s)
            h, mon = self.loop_helper(s, src[1], vs)
            names = [self.env[v][0] for v in vs]
            if mon and not self.mon:
                raise NeedMonad()
            l, ty = self.blk(rest, tail, fin)
            return pre + ["let %s %s List.%s (%s) %s %s" % (tup(names), "←" if mon else ":=", "foldlM" if mon else "foldl",
                                                         h, tup(names), src[0])] + l, ty
        self.err("statement `%s`" % k, s)

    def ublk(self, b, fin):
        """a block used as a statement: a final `if` without `;` is a statement, not a value"""
        stmts, tail = b.stmts, b.tail
        if tail is not None and tail.kind == "if":
            stmts, tail = stmts + [N("ifs", tail.pos, e=tail)], None
        return self.blk(stmts, tail, fin)

    def no_tail(self, t):
        if t is not None:
            self.err("value of a block that is used as a statement")
        return None

    # ---------------------------------------------------------------- helpers (closures, loop bodies)
    def sub(self, mon):
        c = FnP(self.ctx, dict(self.f, pure=not mon), self.env)
        c.decl = list(self.decl)
        c.nhelper, c.helpers, c.abs, c.lean = self.nhelper, self.helpers, self.abs, self.lean
        c.ret_ty = None
        return c

    def helper_name(self, kind):
        self.nhelper[kind] = self.nhelper.get(kind, 0) + 1
        return "%s_%s%d" % (self.lean, kind, self.nhelper[kind])

    def gen_helper(self, kind, build):
        """build(child) → (param decls, match header lines, body lines, result lean type); tried pure first"""
        snap = (dict(self.nhelper), len(self.helpers))
        name = self.helper_name(kind)
        for mon in (False, True):
            child = self.sub(mon)
            try:
                caps, params, pats, lines, rty = build(child)
                break
            except NeedMonad:
                if mon:
                    raise
                self.nhelper.clear()
                self.nhelper.update(snap[0])
                del self.helpers[snap[1]:]
                self.helper_name(kind)
        capdecl = "".join(" (%s : %s)" % (self.env[v][0], lean_ty(self.env[v][1])) for v in caps)
        sig = "def %s (o : F64Ops F)%s%s%s : %s :=" % (
            name, self.abs_params(), capdecl, "".join(" (%s : %s)" % p for p in params),
            ("Res " + paren(rty)) if mon else rty)
        text = [sig, "  match %s with" % ", ".join(p[0] for p in params), "  | %s =>%s" % (", ".join(pats), child.do_kw())]
        self.helpers.append("\n".join(text + ind(lines, 4)))
        applied = "%s o%s%s" % (name, self.abs_args(), "".join(" " + self.env[v][0] for v in caps))
        return applied, mon

    def closure_helper(self, cl, elemty, kind):
        if len(cl.params) != 1:
            self.err("closure with %d parameters" % len(cl.params), cl)
        res = {}

        def build(child):
            pat = child.pat_bind(cl.params[0], elemty, cl)
            if cl.body.kind == "block":
                lines, t = child.blk(cl.body.stmts, cl.body.tail, lambda tl: child.tailval_opt(tl, None))
            else:
                lines, t = child.tailval(cl.body, None)
            refs = self.referenced(cl.body)
            caps = [v for v in self.decl if v in refs and v in self.env and v not in pnames(cl.params[0])]
            res["t"] = t
            return caps, [("it", lean_ty(elemty))], [pat], lines, lean_ty(t)
        applied, mon = self.gen_helper(kind, build)
        return applied, res["t"], mon

    def loop_helper(self, s, elemty, vs):
        sty = ("tuple", [self.env[v][1] for v in vs]) if len(vs) > 1 else self.env[vs[0]][1]

        def build(child):
            stpat = tup([self.env[v][0] for v in vs])
            pat = child.pat_bind(s.pat, elemty, s)
            val = tup([self.env[v][0] for v in vs])
            lines, _ = child.ublk(s.body, lambda tl: (child.no_tail(tl) or [child.ret(val)], sty))
            refs = self.referenced(s.body)
            caps = [v for v in self.decl if v in refs and v in self.env and v not in vs and v not in pnames(s.pat)]
            return caps, [("st", lean_ty(sty)), ("it", lean_ty(elemty))], [stpat, pat], lines, lean_ty(sty)
        return self.gen_helper("for", build)

    # ---------------------------------------------------------------- a whole function
    def translate(self, toks):
        aliases = self.ctx.unit.get("aliases")
        params = []
        for nm, t in self.f["params"]:
            ty = ty_of_text(t, aliases)
            params.append((self.declare(nm, ty), ty))
        self.ret_ty = ty_of_text(self.f["ret"], aliases)
        p = ParserP(toks)
        body = p.body()
        self.is_fn_level = True
        lines, t = self.blk(body.stmts, body.tail, lambda tl: self.tailval_opt(tl, self.ret_ty))
        if t != self.ret_ty:
            self.err("the body has type %s, the spec says %s" % (t, self.ret_ty))
        rt = self.ret_ty
        mp = self.f.get("mut_params")
        if mp:
            rt = ("tuple", [self.env[m][1] for m in mp] + [rt])
        sig = "def %s (o : F64Ops F)%s%s : %s :=%s" % (
            self.lean, self.abs_params(), "".join(" (%s : %s)" % (n, lean_ty(ty)) for n, ty in params),
            ("Res " + paren(lean_ty(rt))) if self.mon else lean_ty(rt), self.do_kw())
        return self.helpers, "\n".join([sig] + ind(lines))


def unify(a, b):
    if a == "?":
        return b
    if b == "?":
        return a
    if isinstance(a, tuple) and isinstance(b, tuple) and a[0] == b[0] and a[0] in ("opt", "list", "result"):
        u = unify(a[1], b[1])
        return None if u is None else (a[0], u)
    return a if a == b else None


def pnames(p):
    if p.kind == "pid":
        return {p.name}
    out = set()
    for q in p.items:
        out |= pnames(q)
    return out


# ================================================================================================== units

def translate_unit(src, unit, fail):
    """src: gen_tables.Src of unit['file']; returns (lean text, snippets).  `fail(msg)` exits."""
    rel = unit["file"]
    ctx = UnitCtx(unit, src)
    out, snippets = [], {}
    for item in unit.get("pinned_items", []):
        rx = header_regex(item)[:-len(r"\s*\{")]
        if len(re.findall(rx, src.code)) != 1:
            fail("%s: the item `%s` the translation spec relies on is no longer there exactly once" % (rel, item[:80]))
    for f in unit["functions"]:
        what = "fn %s" % f["name"]
        rx = header_regex(f["header"])
        ms = list(re.finditer(rx, src.code))
        if len(ms) != 1:
            fail("%s: %s: expected exactly one function with the header `%s`, found %d (signature changed, renamed or "
                 "restructured: the translation spec in tools/rs2lean_genprob.py pins the header)" % (rel, what, f["header"], len(ms)))
        body, line = src.fn_body(rx, what)
        start = src.code.find("{", ms[0].end() - 1) + 1
        snippets[f["name"]] = ms[0].group(0)[:-1].strip() + " {" + body + "}"
        try:
            toks = tokenize(body, start)
            tr = FnP(ctx, f, {})
            helpers, main = tr.translate(toks)
        except NeedMonad:
            fail("%s:%d: %s: cannot translate: the function is declared `pure` in the spec but its text now contains an "
                 "operation that can panic (assert!, indexing, usize arithmetic)" % (rel, line, what))
        except Unsupported as u:
            where = "%s:%d" % (rel, src.line_of(u.pos)) if u.pos is not None else "%s:%d" % (rel, line)
            fail("%s: %s: cannot translate: %s (outside the subset of tools/rs2lean_genprob.py; the theorems %s can no "
                 "longer be regenerated)" % (where, what, u.msg, f.get("theorem", "")))
        out.append((f, line, body, list(helpers), main))
    name = unit["name"]
    txt = ["import RbV.Basic.RsSemGenprob" + "".join("\nimport " + m for m in unit.get("imports", [])),
           "/-! GENERATED by tools/rs2lean_genprob.py (tools/gen_tables.py, %s) — do not edit." % unit["props"],
           "Translation of the *text* of the following functions of `%s` (comments blanked) into Lean, regenerated from" % rel,
           "the source tree on every `./check`.  `f64` is abstract: the definitions are generic in `F` and `o : Rs.F64Ops F`",
           "(`RbV/Basic/RsSemGenprob.lean`); `Prob`, `LogProb`, `PHREDProb` are `F`; `Res.panic` = the Rust code panics.",
           "Theorems about these definitions at `F := ℝ ∪ {±∞, NaN}`: `RbV/Thm/GenSrc%s.lean`." % name[3:],
           ""]
    for f, line, body, helpers, main in out:
        txt.append("`%s` (line %d):" % (" ".join(f["header"].split()), line))
        txt.append("```")
        for l in dedent(body).splitlines():
            if l.strip():
                txt.append(l.rstrip().replace("-/", "- /").replace("/-", "/ -"))
        txt.append("```")
    txt.append("-/")
    txt.append("set_option linter.unusedVariables false")
    txt.append("namespace RbV.Gen.%s" % name)
    txt.append("open RbV RbV.Rs")
    txt.append("variable {F : Type}")
    txt.append("")
    for c in ctx.const_order:
        t, ty, item, line = ctx.consts[c]
        snippets[c] = item
        txt.append("/-- `%s` (%s, line %d) -/" % (item.replace("-/", "- /"), rel, line))
        txt.append("def %s (o : F64Ops F) : %s := %s" % (c, lean_ty(ty), t))
        txt.append("")
    for f, line, body, helpers, main in out:
        for h in helpers:
            txt.append(h)
            txt.append("")
        txt.append("/-- `%s` (%s, line %d) -/" % (" ".join(f["header"].split()).replace("-/", "- /"), rel, line))
        txt.append(main)
        txt.append("")
    txt.append("end RbV.Gen.%s" % name)
    return "\n".join(txt) + "\n", snippets


UNITS = {}


def unit(**kw):
    UNITS[kw["name"]] = kw
    return kw


def conv(frm, to, lean):
    return dict(name="From<%s> for %s" % (frm, to), lean=lean, header="fn from(p: %s) -> %s" % (frm, to),
                params=[("p", frm)], ret=to, pure=True, theorem="RbV.Thm.GenSrcProbs.conversions_eq_model")


DENSITY = dict(lean="density", sig="Nat → F → F")

unit(name="SrcProbs", props="property C15", file="src/stats/probs/mod.rs", dialect="prob",
     pinned_items=["static LOGPROB_LN_ZERO: LogProb = LogProb(f64::NEG_INFINITY);",
                   "static LOGPROB_LN_ONE: LogProb = LogProb(0.0);"],
     functions=[
         dict(name="ln_1m_exp", lean="ln_1m_exp", header="fn ln_1m_exp(p: f64) -> f64", params=[("p", "f64")], ret="f64",
              theorem="RbV.Thm.GenSrcProbs.ln_1m_exp_spec"),
         dict(name="Prob::checked", lean="checked", header="pub fn checked(p: f64) -> Result<Self>", params=[("p", "f64")],
              ret="Result<Self>", pure=True, theorem="RbV.Thm.GenSrcProbs.checked_iff"),
         dict(name="LogProb::is_valid", lean="is_valid", header="pub fn is_valid(&self) -> bool",
              params=[("self", "LogProb")], ret="bool", pure=True),
         dict(name="LogProb::ln_zero", lean="ln_zero", header="pub fn ln_zero() -> LogProb", params=[], ret="LogProb", pure=True),
         dict(name="LogProb::ln_one", lean="ln_one", header="pub fn ln_one() -> LogProb", params=[], ret="LogProb", pure=True),
         dict(name="LogProb::ln_one_minus_exp", lean="ln_one_minus_exp", header="pub fn ln_one_minus_exp(&self) -> LogProb",
              params=[("self", "LogProb")], ret="LogProb", theorem="RbV.Thm.GenSrcProbs.ln_one_minus_exp_spec"),
         dict(name="LogProb::ln_sum_exp", lean="ln_sum_exp", header="pub fn ln_sum_exp(probs: &[LogProb]) -> LogProb",
              params=[("probs", "&[LogProb]")], ret="LogProb", theorem="RbV.Thm.GenSrcProbs.ln_sum_exp_eq_model"),
         dict(name="LogProb::ln_add_exp", lean="ln_add_exp", header="pub fn ln_add_exp(self, other: LogProb) -> LogProb",
              params=[("self", "LogProb"), ("other", "LogProb")], ret="LogProb", pure=True,
              theorem="RbV.Thm.GenSrcProbs.ln_add_exp_near_model"),
         dict(name="LogProb::ln_sub_exp", lean="ln_sub_exp", header="pub fn ln_sub_exp(self, other: LogProb) -> LogProb",
              params=[("self", "LogProb"), ("other", "LogProb")], ret="LogProb",
              theorem="RbV.Thm.GenSrcProbs.ln_sub_exp_spec"),
         dict(name="LogProb::scan_ln_add_exp", lean="scan_ln_add_exp",
              header="fn scan_ln_add_exp(s: &mut LogProb, p: LogProb) -> Option<LogProb>",
              params=[("s", "&mut LogProb"), ("p", "LogProb")], ret="Option<LogProb>", pure=True, mut_params=["s"],
              scan_step=True),
         dict(name="LogProb::ln_cumsum_exp", lean="ln_cumsum_exp",
              header="pub fn ln_cumsum_exp<I: IntoIterator<Item = LogProb>>(probs: I) -> ScanIter<I>",
              # the `ScanIter` is read as the list of the items it yields when consumed to its end; `I` = a vector
              params=[("probs", "Vec<LogProb>")], ret="Vec<LogProb>", pure=True,
              theorem="RbV.Thm.GenSrcProbs.ln_cumsum_exp_eq_scan"),
         conv("LogProb", "Prob", "prob_of_logprob"), conv("PHREDProb", "Prob", "prob_of_phred"),
         conv("Prob", "LogProb", "logprob_of_prob"), conv("PHREDProb", "LogProb", "logprob_of_phred"),
         conv("Prob", "PHREDProb", "phred_of_prob"), conv("LogProb", "PHREDProb", "phred_of_logprob"),
     ])

# the integration helpers are a unit of their own (they call `ln_sum_exp` / `ln_add_exp` of `Gen/SrcProbs.lean`): a rewrite of
# the helpers that leaves the subset does not take the theorems about the arithmetic core with it, and vice versa
unit(name="SrcProbsQuad", props="property C15", file="src/stats/probs/mod.rs", dialect="prob",
     imports=["RbV.Gen.SrcProbs"],
     extern_fns=[dict(name="LogProb::ln_sum_exp", lean="RbV.Gen.SrcProbs.ln_sum_exp", params=[("probs", "&[LogProb]")],
                      ret="LogProb"),
                 dict(name="LogProb::ln_add_exp", lean="RbV.Gen.SrcProbs.ln_add_exp",
                      params=[("self", "LogProb"), ("other", "LogProb")], ret="LogProb", pure=True)],
     functions=[
         dict(name="LogProb::ln_trapezoidal_integrate_grid_exp", lean="ln_trapezoidal_integrate_grid_exp",
              header="pub fn ln_trapezoidal_integrate_grid_exp<T, D>(mut density: D, grid: &[T]) -> LogProb where T: Copy + "
                     "Add<Output = T> + Sub<Output = T> + Div<Output = T> + Mul<Output = T> + Float, D: FnMut(usize, T) -> LogProb, "
                     "f64: From<T>,",
              # T = f64; the `FnMut` density is read as a function of (index, abscissa)
              params=[("density", "Fn(usize, T) -> LogProb"), ("grid", "&[T]")], ret="LogProb",
              theorem="RbV.Thm.GenSrcProbsQuad.grid_error"),
         dict(name="LogProb::ln_simpsons_integrate_exp", lean="ln_simpsons_integrate_exp",
              header="pub fn ln_simpsons_integrate_exp<T, D>(mut density: D, a: T, b: T, n: usize) -> LogProb where T: Copy + "
                     "Add<Output = T> + Sub<Output = T> + Div<Output = T> + Mul<Output = T> + Float, D: FnMut(usize, T) -> LogProb, "
                     "f64: From<T>,",
              params=[("density", "Fn(usize, T) -> LogProb"), ("a", "T"), ("b", "T"), ("n", "usize")], ret="LogProb",
              abstract_fns={"linspace": dict(lean="linspace", sig="F → F → Nat → List F", params=[F, F, NAT], ret=("list", F))},
              theorem="RbV.Thm.GenSrcProbsQuad.simpson_error"),
         dict(name="LogProb::ln_trapezoidal_integrate_exp", lean="ln_trapezoidal_integrate_exp",
              header="pub fn ln_trapezoidal_integrate_exp<T, D>(mut density: D, a: T, b: T, n: usize) -> LogProb where T: Copy + "
                     "Add<Output = T> + Sub<Output = T> + Div<Output = T> + Mul<Output = T> + Float, D: FnMut(usize, T) -> LogProb, "
                     "f64: From<T>,",
              params=[("density", "Fn(usize, T) -> LogProb"), ("a", "T"), ("b", "T"), ("n", "usize")], ret="LogProb",
              abstract_fns={"linspace": dict(lean="linspace", sig="F → F → Nat → List F", params=[F, F, NAT], ret=("list", F))},
              theorem="RbV.Thm.GenSrcProbsQuad.trapezoid_error")
     ])

unit(name="SrcFastExp", props="property C15", file="src/utils/fastexp.rs", dialect="prob",
     functions=[dict(name="FastExp::fastexp", lean="fastexp", header="fn fastexp(&self) -> f64", params=[("self", "f64")],
                     ret="f64", theorem="RbV.Thm.GenSrcFastExp.fastexp_eq_model")])


# ================================================================================================== self-test / CLI

SELFTEST = r'''
const CUT: f64 = -1.5e1;
static START: f64 = 0.0;
fn clamp01(x: f64) -> f64 {
    if x < 0.0 { return 0.0; }
    if x > 1.0 { return 1.0; }
    x
}
fn soft(xs: &[f64], k: usize) -> f64 {
    assert!(!xs.is_empty(), "empty");
    let mut best = xs[0];
    let mut at = 0;
    for (i, &x) in xs.iter().enumerate().skip(1) {
        if x > best {
            best = x;
            at = i;
        }
    }
    let d = xs[k - 1] - best;
    if d < CUT || relative_eq!(d, START, max_relative = 1e-3) {
        best
    } else {
        best + (xs.iter().enumerate().filter_map(|(i, x)| if i == at { None } else { Some((x - best).exp()) }).sum::<f64>()).ln_1p()
    }
}
fn weights(f: F2, n: usize) -> Vec<f64> {
    let mut w = (0..0).len();
    let mut v = steps(n).iter().enumerate().dropping(1).dropping_back(1).map(|(i, x)| {
        let c = (2 + (i % 2) * 2) as f64;
        f(i, *x) + c.ln()
    }).collect_vec();
    v.push(clamp01(2.0f64));
    v
}
'''


def selftest(with_lean):
    import gen_tables

    class S(gen_tables.Src):
        def __init__(self, text):
            self.rel, self.raw = "selftest.rs", text
            self.code = gen_tables.blank_comments(text)
            self.snippets = {}

    def fail(msg):
        raise SystemExit("selftest: " + msg)
    steps = {"steps": dict(lean="steps", sig="Nat → List F", params=[NAT], ret=("list", F))}
    text = SELFTEST.replace("let mut w = (0..0).len();\n", "")
    u = dict(name="SrcSelfTestProb", props="self-test", file="selftest.rs", functions=[
        dict(name="clamp01", lean="clamp01", header="fn clamp01(x: f64) -> f64", params=[("x", "f64")], ret="f64", pure=True),
        dict(name="soft", lean="soft", header="fn soft(xs: &[f64], k: usize) -> f64", params=[("xs", "&[f64]"), ("k", "usize")],
             ret="f64"),
        dict(name="weights", lean="weights", header="fn weights(f: F2, n: usize) -> Vec<f64>",
             params=[("f", "Fn(usize, f64) -> f64"), ("n", "usize")], ret="Vec<f64>", abstract_fns=steps)])
    t1, _ = translate_unit(S(text), u, fail)
    t2, _ = translate_unit(S(text), u, fail)
    assert t1 == t2, "translation is not deterministic"
    for needle in ("def CUT", "o.ofDec ⟨(-15), 0⟩", "soft_for1", "soft_fmap1", "weights_map1", "Rs.dropBack 1", "o.relEq",
                   "Rs.assert", "Rs.sub k 1", "List.mapM"):
        assert needle in t1, "missing in the translation: " + needle
    refused = [("fn g(x: f64) -> f64 { loop { } }", "loop"), ("fn g(x: f64) -> f64 { x.sin() }", "method"),
               ("fn g(x: f64) -> f64 { let y = x as f32; x }", "type"), ("fn g(x: f64) -> f64 { x + 1 }", "operands"),
               ("fn g(x: f64) -> f64 { if x < 0.0 { 1.0 } }", "else"), ("fn g(x: f64) -> f64 { UNKNOWN_C * x }", "const")]
    for code, why in refused:
        uu = dict(name="SrcX", props="self-test", file="selftest.rs", functions=[
            dict(name="g", lean="g", header="fn g(x: f64) -> f64", params=[("x", "f64")], ret="f64", pure=True)])
        try:
            translate_unit(S(code), uu, fail)
        except SystemExit as e:
            assert "cannot translate" in str(e), str(e)
        else:
            raise SystemExit("selftest: not refused: " + code)
    # a `pure` function that now needs the monad is refused
    uu = dict(name="SrcX", props="self-test", file="selftest.rs", functions=[
        dict(name="g", lean="g", header="fn g(x: f64) -> f64", params=[("x", "f64")], ret="f64", pure=True)])
    try:
        translate_unit(S("fn g(x: f64) -> f64 { assert!(x <= 0.0); x }"), uu, fail)
    except SystemExit as e:
        assert "declared `pure`" in str(e), str(e)
    else:
        raise SystemExit("selftest: assert in a pure function not refused")
    if with_lean:
        import subprocess, tempfile
        lean_dir = os.path.join(os.path.dirname(os.path.dirname(os.path.abspath(__file__))), "lean")
        test = t1 + """
namespace RbV.Gen.SrcSelfTestProb
open RbV RbV.Rs
/-- a toy instance over `Int` (hundredths), only to *run* the generated code -/
def toy : F64Ops Int :=
  { add := (· + ·), sub := (· - ·), mul := fun a b => a * b / 100, div := fun a b => a * 100 / b, neg := fun a => -a,
    lt := fun a b => decide (a < b), le := fun a b => decide (a ≤ b), eq := fun a b => a == b,
    ofDec := fun d => d.mant * 100 / (10 ^ d.scale : Nat), ofNat := fun n => 100 * n, ofInt := fun k => 100 * k,
    truncI64 := fun a => a / 100, fromBits := fun n => n, inf := 10 ^ 9, negInf := -(10 ^ 9), epsilon := 0, ln2 := 69,
    isNan := fun _ => false, exp := fun a => a, ln := fun a => a, ln1p := fun a => a, expm1 := fun a => a, log10 := fun a => a,
    powf := fun a _ => a, fastexp := fun a => a, relEq := fun a b _ _ => a == b }
example : clamp01 toy 250 = 100 ∧ clamp01 toy (-3) = 0 ∧ clamp01 toy 40 = 40 := by decide
example : soft toy [100, 300, 200] 1 = Res.ok (300 + ((100 - 300) + (200 - 300))) := by decide
example : soft toy [] 1 = Res.panic ∧ soft toy [100] 0 = Res.panic := by decide
example : soft toy [100, 5000] 1 = Res.ok 5000 := by decide
example : weights toy (fun _ => [1, 2, 3, 4]) (fun i x => 100 * i + x) 7 = Res.ok [502, 403, 100] := by decide
end RbV.Gen.SrcSelfTestProb
"""
        d = os.path.join(lean_dir, "RbV", "Gen")
        path = os.path.join(lean_dir, ".selftest_genprob_%d.lean" % os.getpid())
        with open(path, "w") as fh:
            fh.write(test)
        try:
            pr = subprocess.run(["lake", "env", "lean", path], cwd=lean_dir, stdout=subprocess.PIPE, stderr=subprocess.STDOUT, text=True)
        finally:
            os.remove(path)
        if pr.returncode != 0 or "error" in pr.stdout:
            print(pr.stdout)
            raise SystemExit("selftest: the generated Lean does not check")
    print("rs2lean_genprob selftest: ok (%d lines generated%s)" % (t1.count("\n"), ", compiled and evaluated" if with_lean else ""))


def main():
    ap = argparse.ArgumentParser()
    ap.add_argument("--selftest", action="store_true")
    ap.add_argument("--lean", action="store_true")
    ap.add_argument("--repo", default=os.environ.get("VERIF_REPO", "/repo"))
    ap.add_argument("--unit")
    a = ap.parse_args()
    if a.selftest:
        selftest(a.lean)
        return
    import gen_tables
    u = UNITS[a.unit]
    s = gen_tables.Src(a.repo, u["file"])
    text, _ = translate_unit(s, u, gen_tables.fail)
    sys.stdout.write(text)


if __name__ == "__main__":
    main()
