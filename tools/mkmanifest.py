#!/usr/bin/env python3
"""Regenerate /verif/MANIFEST.json from meta/Cxx.json (one file per claimed property) and meta/not_applicable.json."""
import json, os, glob
ROOT = os.path.dirname(os.path.dirname(os.path.abspath(__file__)))
checks = []
claimed = set()
for path in sorted(glob.glob(os.path.join(ROOT, "meta", "C*.json"))):
    pid = os.path.basename(path)[:-5]
    m = json.load(open(path))
    if not m.get("claimed", True):
        continue
    claimed.add(pid)
    checks.append({
        "property_id": pid,
        "quick_cmd": "./check %s --tier quick" % pid,
        "thorough_cmd": "./check %s --tier thorough" % pid,
        "evidence_file": "/verif/evidence/%s.json" % pid,
        "replay_cmd_template": "./check %s --replay {path}" % pid,
        "engine": "lean4-proof+correspondence",
        "level_claimed": {"category": m["level"], "text": m["level_text"], "design_ref": m.get("design_ref", "DESIGN.md §7")},
        "level_note": m["level_note"],
        "technique": m["technique"],
    })
na = []
na_path = os.path.join(ROOT, "meta", "not_applicable.json")
all_ids = [json.loads(l)["id"] for l in open(os.path.join(ROOT, "properties.jsonl"))]
reasons = json.load(open(na_path)) if os.path.exists(na_path) else {}
for pid in all_ids:
    if pid not in claimed:
        na.append({"property_id": pid, "reason": reasons.get(pid, "not yet claimed: the check for this property is still being built (see DESIGN.md §11)")})
man = {
    "version": 1,
    "setup_cmd": "./setup.sh",
    "hooks": {
        "guard": "cargo feature verif-hooks",
        "enable": "the harness crate /verif/harness depends on bio (path /repo) with features = [\"verif-hooks\"]",
        "baseline_off_cmd": "cd /repo && cargo test --workspace --no-fail-fast --offline",
        "source_commits": ["e8e0d5c", "7d7dc85", "b96cb6a"],
        "add_only": True,
    },
    "engines": [{
        "name": "lean4-proof+correspondence",
        "path": "/verif/check",
        "serves_properties": sorted(claimed),
        "kind_free_text": "Lean 4 theorems about spec / reference / mirror models (lean/RbV), tied to the Rust code by a differential correspondence check: Rust harness (harness/) drives the real API, compiled Lean driver (rbdriver) evaluates the proved oracles on the same inputs",
    }],
    "checks": checks,
    "not_applicable": na,
    "notes": "See DESIGN.md. Known genuine defects: KNOWN_FINDINGS.json.",
}
json.dump(man, open(os.path.join(ROOT, "MANIFEST.json"), "w"), indent=1)
print("claimed:", sorted(claimed))
