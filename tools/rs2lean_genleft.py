#!/usr/bin/env python3
"""Rust → Lean translator module of builder `genleft` (session 6): the leftovers of the earlier translation builders.

Hosts two kinds of units (docs/notes/GEN.md, section "genleft"):

* dialect **"px"** (this file, classes `PX` / `Tr`): small *expression-bodied* functions without loops — trait impls
  (`impl Ord for SuperblockRank`: `match` on a pair of enum values), one-line accessors (`FMIndex::occ`, `less`,
  `FMDIndex::occ`, `less`, `BiInterval::forward`, `revcomp`), constructors (`Finder::new`, `find_all`, `State::new`),
  `Interval::occ` (a range mapped through a closure and collected).  Subset:
    - statements `let [mut] x [: T] = e;` followed by a tail expression; `return` is refused;
    - expressions: integer literals, variables, `self`, field paths, tuples, array literals, `if c { e } else { e }`,
      `match e { pat => e, … }` on enums of the unit / tuples of them / `Option`, struct literals of the unit's structs,
      enum constructors, `Some(e)` / `None`, checked `+ - *` on unsigned integers (`Rs.add w` …), comparisons, `as` between
      unsigned integers, `&`, `&mut`, `*` (identity on values), `v[i]` (`Rs.idx`), ranges `a..b` (`List.range' a (b - a)`),
      closures `|x| e` as the argument of `.map(..)` (`List.map`, `List.mapM` when the body can panic);
    - methods: `.iter()`, `.into_iter()`, `.copied()`, `.cloned()`, `.clone()`, `.borrow()`, `.collect()` (identity on the
      list of items), `.map(closure)`, `.enumerate()` (`Rs.enumFrom0`: pairs `(index, item)`), `.len()`, `.cmp(&b)` on
      unsigned integers (`compare`), `.expect(..)` / `.unwrap()` (`Rs.expect`), and the methods / paths the spec maps to
      translated siblings, to functions of another generated file, or to abstract parameters;
    - a function none of whose operations can panic is emitted as a *pure* Lean function, the others in `Res`.
  Enums and structs listed in the spec are *generated from their declarations in the source* (`inductive` / `structure`).
  Anything else raises `Unsupported` → `translation_unavailable` (soft).
* units of the existing sub-dialect **"io"** (`rs2lean_cf.IoFn`, builder genio) that genio left untranslated
  (`IndexedReader::read_into_iter`, `read_iter`): the classes of `rs2lean_cf.py` / `rs2lean_cfbase.py` are imported and
  subclassed (`LeftIoFn`), nothing is copied or edited.

`python3 tools/rs2lean_genleft.py --selftest [--lean]`; `python3 tools/rs2lean_genleft.py --show <Unit> [--repo R]`.
"""
import sys, os, re, argparse

sys.path.insert(0, os.path.dirname(os.path.abspath(__file__)))
import rs2lean_cfbase as cb
from rs2lean_cfbase import tokenize, Unsupported, header_regex, dedent

INT_W = {"u8": 8, "u16": 16, "u32": 32, "u64": 64, "usize": 64}


def tok_rx(text):
    """token sequence (Rust text) → regex ignoring white space between tokens"""
    return header_regex(text)[:-len(r"\s*\{")]


def match_brace(code, lo):
    depth = 0
    for i in range(lo, len(code)):
        if code[i] == "{":
            depth += 1
        elif code[i] == "}":
            depth -= 1
            if depth == 0:
                return i
    return None


# ================================================================================================== parser (dialect px)

class PX:
    def __init__(self, toks):
        self.t, self.i = toks, 0

    def peek(self, k=0):
        return self.t[min(self.i + k, len(self.t) - 1)]

    def at(self, text, k=0):
        x = self.peek(k)
        return x.kind in ("op", "id") and x.text == text

    def next(self):
        x = self.t[self.i]
        self.i += 1
        return x

    def expect(self, text):
        x = self.next()
        if not (x.kind in ("op", "id") and x.text == text):
            raise Unsupported("expected `%s`, found `%s`" % (text, x.text), x.pos)
        return x

    def ident(self):
        x = self.next()
        if x.kind != "id":
            raise Unsupported("expected an identifier, found `%s`" % x.text, x.pos)
        return x

    # ---- types (only skipped / named)
    def ty(self):
        out = []
        if self.at("&"):
            self.next()
            if self.peek().kind == "life":
                self.next()
            if self.at("mut"):
                self.next()
            return self.ty()
        if self.at("("):
            self.next()
            parts = []
            while not self.at(")"):
                parts.append(self.ty())
                if self.at(","):
                    self.next()
            self.next()
            return "(" + ", ".join(parts) + ")"
        if self.at("["):
            self.next()
            e = self.ty()
            if self.at(";"):
                self.next()
                n = self.next().text
                self.expect("]")
                return "[%s; %s]" % (e, n)
            self.expect("]")
            return "[%s]" % e
        out.append(self.ident().text)
        while True:
            if self.at("::"):
                self.next()
                if self.at("<"):
                    out.append("<" + self.generic_args() + ">")
                else:
                    out.append("::" + self.ident().text)
            elif self.at("<"):
                out.append("<" + self.generic_args() + ">")
            else:
                break
        return "".join(out)

    def generic_args(self):
        self.expect("<")
        parts = []
        while not (self.at(">") or self.at(">>")):
            if self.peek().kind == "life":
                parts.append(self.next().text)
            else:
                t = self.ty()
                if self.at("="):                       # associated type binding `Item = C`
                    self.next()
                    t += " = " + self.ty()
                parts.append(t)
            if self.at(","):
                self.next()
        if self.at(">>"):                              # `Vec<Vec<u8>>`: split the token
            x = self.t[self.i]
            self.t[self.i] = cb.Tok("op", ">", x.pos + 1)
        else:
            self.next()
        return ", ".join(parts)

    # ---- patterns
    def pat(self):
        p = self.peek()
        if self.at("&"):
            self.next()
            if self.at("mut"):
                self.next()
            return self.pat()
        if self.at("ref"):
            self.next()
            if self.at("mut"):
                self.next()
            return ("pvar", self.ident().text)
        if self.at("mut"):
            self.next()
            return ("pvar", self.ident().text)
        if self.at("_"):
            self.next()
            return ("pwild",)
        if self.at("("):
            self.next()
            ps = []
            while not self.at(")"):
                ps.append(self.pat())
                if self.at(","):
                    self.next()
            self.next()
            return ("ptuple", ps) if len(ps) != 1 else ps[0]
        if p.kind == "num":
            self.next()
            return ("plit", p.text)
        if p.kind == "id":
            path = [self.ident().text]
            while self.at("::"):
                self.next()
                path.append(self.ident().text)
            if self.at("("):
                self.next()
                ps = []
                while not self.at(")"):
                    ps.append(self.pat())
                    if self.at(","):
                        self.next()
                self.next()
                return ("pctor", path, ps)
            if len(path) == 1 and (path[0][0].islower() or path[0][0] == "_"):
                return ("pvar", path[0])
            return ("pctor", path, [])
        raise Unsupported("pattern starting with `%s`" % p.text, p.pos)

    # ---- blocks / statements
    def block(self):
        self.expect("{")
        b = self.block_body("}")
        self.expect("}")
        return b

    def block_body(self, end):
        stmts = []
        while True:
            if self.at(end) or self.peek().kind == "eof":
                return ("block", stmts, None)
            if self.at("let"):
                pos = self.next().pos
                p = self.pat()
                ty = None
                if self.at(":"):
                    self.next()
                    ty = self.ty()
                self.expect("=")
                e = self.expr()
                self.expect(";")
                stmts.append(("let", p, ty, e, pos))
                continue
            if self.at("return"):
                raise Unsupported("`return` (dialect px translates expression-bodied functions only)", self.peek().pos)
            if self.peek().kind == "id" and self.peek().text in ("for", "while", "loop"):
                raise Unsupported("`%s` loop (dialect px has no loops)" % self.peek().text, self.peek().pos)
            pos = self.peek().pos
            e = self.expr()
            if self.at(";"):
                raise Unsupported("expression statement (dialect px: only `let` statements and a tail expression)", pos)
            if not (self.at(end) or self.peek().kind == "eof"):
                if e[0] in ("if", "match"):
                    raise Unsupported("`if` / `match` used as a statement", pos)
                raise Unsupported("expected the end of the block after its tail expression, found `%s`" % self.peek().text,
                                  self.peek().pos)
            return ("block", stmts, e)

    # ---- expressions
    BIN = [("||",), ("&&",), ("==", "!=", "<", ">", "<=", ">="), ("+", "-"), ("*", "/", "%")]

    def expr(self, nostruct=False):
        e = self.binary(0, nostruct)
        if self.at(".."):
            pos = self.next().pos
            hi = self.binary(0, nostruct)
            return ("range", e, hi, pos)
        if self.at("..="):
            raise Unsupported("inclusive range", self.peek().pos)
        return e

    def binary(self, lvl, nostruct):
        if lvl == len(self.BIN):
            return self.cast(nostruct)
        e = self.binary(lvl + 1, nostruct)
        while self.peek().kind == "op" and self.peek().text in self.BIN[lvl]:
            op = self.next()
            r = self.binary(lvl + 1, nostruct)
            e = ("bin", op.text, e, r, op.pos)
        return e

    def cast(self, nostruct):
        e = self.unary(nostruct)
        while self.at("as"):
            pos = self.next().pos
            e = ("as", e, self.ty(), pos)
        return e

    def unary(self, nostruct):
        p = self.peek()
        if self.at("&"):
            self.next()
            if self.at("mut"):
                self.next()
            return self.unary(nostruct)
        if self.at("&&"):
            self.next()
            return self.unary(nostruct)
        if self.at("*"):
            self.next()
            return ("deref", self.unary(nostruct), p.pos)
        if self.at("!"):
            self.next()
            return ("not", self.unary(nostruct), p.pos)
        if self.at("-"):
            raise Unsupported("unary `-`", p.pos)
        return self.postfix(nostruct)

    def args(self):
        self.expect("(")
        out = []
        while not self.at(")"):
            out.append(self.expr())
            if self.at(","):
                self.next()
        self.next()
        return out

    def postfix(self, nostruct):
        e = self.primary(nostruct)
        while True:
            if self.at("."):
                pos = self.next().pos
                x = self.next()
                if x.kind == "num":
                    e = ("tidx", e, int(x.text), pos)
                    continue
                if x.kind != "id":
                    raise Unsupported("`.%s`" % x.text, x.pos)
                if self.at("::"):
                    self.next()
                    self.generic_args()
                if self.at("("):
                    e = ("mcall", e, x.text, self.args(), pos)
                else:
                    e = ("field", e, x.text, pos)
            elif self.at("["):
                pos = self.next().pos
                i = self.expr()
                self.expect("]")
                e = ("index", e, i, pos)
            elif self.at("?"):
                raise Unsupported("`?`", self.peek().pos)
            else:
                return e

    def primary(self, nostruct):
        p = self.peek()
        if p.kind == "num":
            self.next()
            m = re.match(r"^(.*?)(u8|u16|u32|u64|usize)?$", p.text)
            return ("num", int(m.group(1).replace("_", ""), 0), m.group(2), p.pos)
        if p.kind == "byte":
            self.next()
            body = p.text[2:-1]
            esc = {"\\n": 10, "\\t": 9, "\\r": 13, "\\\\": 92, "\\'": 39, "\\0": 0}
            v = esc[body] if body in esc else ord(body)
            return ("num", v, "u8", p.pos)
        if p.kind == "str":
            self.next()
            return ("str", p.text, p.pos)
        if self.at("("):
            self.next()
            es = []
            trailing = False
            while not self.at(")"):
                es.append(self.expr())
                trailing = False
                if self.at(","):
                    self.next()
                    trailing = True
            self.next()
            if len(es) == 1 and not trailing:
                return es[0]
            return ("tuple", es, p.pos)
        if self.at("["):
            self.next()
            es = []
            while not self.at("]"):
                es.append(self.expr())
                if self.at(";"):
                    raise Unsupported("array repeat expression `[e; n]`", self.peek().pos)
                if self.at(","):
                    self.next()
            self.next()
            return ("array", es, p.pos)
        if self.at("{"):
            return self.block()
        if self.at("if"):
            self.next()
            if self.at("let"):
                raise Unsupported("`if let`", self.peek().pos)
            c = self.expr(nostruct=True)
            a = self.block()
            if not self.at("else"):
                raise Unsupported("`if` without `else` in expression position", p.pos)
            self.next()
            b = ("block", [], self.primary(nostruct)) if self.at("if") else self.block()
            return ("if", c, a, b, p.pos)
        if self.at("match"):
            self.next()
            s = self.expr(nostruct=True)
            self.expect("{")
            arms = []
            while not self.at("}"):
                pats = [self.pat()]
                while self.at("|"):
                    self.next()
                    pats.append(self.pat())
                if self.at("if"):
                    raise Unsupported("`match` arm with a guard", self.peek().pos)
                self.expect("=>")
                body = self.expr()
                if self.at(","):
                    self.next()
                arms.append((pats, body))
            self.next()
            return ("match", s, arms, p.pos)
        if self.at("|") or self.at("||"):
            params = []
            if self.at("||"):
                self.next()
            else:
                self.next()
                while not self.at("|"):
                    params.append(self.pat())
                    if self.at(":"):
                        self.next()
                        self.ty()
                    if self.at(","):
                        self.next()
                self.next()
            if self.at("->"):
                raise Unsupported("closure with a return type", self.peek().pos)
            body = self.expr()
            return ("closure", params, body, p.pos)
        if self.at("move"):
            raise Unsupported("`move` closure", p.pos)
        if p.kind == "id":
            path = [self.ident().text]
            while self.at("::"):
                self.next()
                if self.at("<"):
                    self.generic_args()
                else:
                    path.append(self.ident().text)
            if self.at("!"):
                raise Unsupported("macro `%s!`" % path[-1], p.pos)
            if self.at("("):
                return ("call", path, self.args(), p.pos)
            if self.at("{") and not nostruct and path[-1][0].isupper():
                self.next()
                fields, base = [], None
                while not self.at("}"):
                    if self.at(".."):
                        raise Unsupported("struct literal with a base `..x`", self.peek().pos)
                    f = self.ident().text
                    if self.at(":"):
                        self.next()
                        v = self.expr()
                    else:
                        v = ("path", [f], p.pos)
                    fields.append((f, v))
                    if self.at(","):
                        self.next()
                self.next()
                return ("struct", path, fields, p.pos)
            return ("path", path, p.pos)
        raise Unsupported("expression starting with `%s`" % p.text, p.pos)


# ================================================================================================== translation (dialect px)

def atom(s):
    s = s.strip()
    if re.match(r"^[\w.']+$", s) or (s[0] in "([{" and _closed(s)):
        return s
    return "(" + s + ")"


def _closed(s):
    pairs = {"(": ")", "[": "]", "{": "}"}
    depth = 0
    for i, ch in enumerate(s):
        if ch in "([{":
            depth += 1
        elif ch in ")]}":
            depth -= 1
            if depth == 0 and i + 1 < len(s):
                return False
    return depth == 0 and s[-1] == pairs[s[0]]


LEAN_KW = {"from", "at", "end", "fun", "match", "with", "do", "then", "else", "if", "let", "have", "show", "in", "open", "matches",
           "prefix", "deriving", "instance", "structure", "inductive", "where", "def", "theorem", "by", "Type", "Prop"}


def lname(n):
    return n + "'" if n in LEAN_KW else n


class Tr:
    """one function of a px unit"""

    def __init__(self, unit, f, decls):
        self.unit, self.f, self.decls = unit, f, decls
        self.ntemp = 0
        self.monadic = False
        self.used_abs = []

    # --- type helpers (Rust type strings)
    def lean_ty(self, t):
        t = t.strip()
        tm = self.unit.get("types", {})
        if t in tm:
            return tm[t]
        if t in INT_W:
            return "Nat"
        if t == "bool":
            return "Bool"
        if self.norm(t) in self.decls:
            return self.decls[self.norm(t)]["lean"]
        m = re.match(r"^(Vec|VecDeque|Option)<(.*)>$", t)
        if m:
            inner = self.lean_ty(m.group(2))
            return ("Option " if m.group(1) == "Option" else "List ") + atom_ty(inner)
        m = re.match(r"^\[(.*?)(;\s*\w+)?\]$", t)
        if m:
            return "List " + atom_ty(self.lean_ty(m.group(1)))
        if t.startswith("(") and t.endswith(")"):
            parts = split_top(t[1:-1])
            return " × ".join(atom_ty(self.lean_ty(p)) for p in parts)
        raise Unsupported("type `%s` (not declared in the translation spec)" % t)

    def elem_ty(self, t):
        if t is None:
            return None
        m = re.match(r"^(Vec|VecDeque|Option)<(.*)>$", t) or re.match(r"^\[()(.*?)(;\s*\w+)?\]$", t)
        return m.group(2).strip() if m else None

    # --- blocks
    def fresh(self):
        self.ntemp += 1
        return "t%d" % self.ntemp

    def bind(self, lines, code):
        """a monadic operation: bound at once, the temporary is its value"""
        self.monadic = True
        t = self.fresh()
        lines.append("let %s ← %s" % (t, code))
        return t

    def bind_ctl(self, lines, code):
        """the value of an `if` / `match` in a monadic function (does not by itself make the function monadic)"""
        t = self.fresh()
        lines.append("let %s ← %s" % (t, code))
        return t

    def block(self, b, env, mon):
        """→ (lines, value code, type); `mon`: render nested branches monadically"""
        lines = []
        env = dict(env)
        for (_, p, ty, e, pos) in b[1]:
            code, t = self.expr(e, env, lines)
            t = ty or t
            lines.append("let %s := %s" % (self.pat_code(p, env, t), code))
        if b[2] is None:
            return lines, "()", "()"
        code, t = self.expr(b[2], env, lines)
        return lines, code, t

    def render(self, lines, code, ind):
        """a block as one Lean term (indented continuation lines)"""
        pad = " " * ind
        if self.mode_monadic:
            if not lines:
                return "pure %s" % atom(code)
            return "do\n" + "".join(pad + "  " + l + "\n" for l in lines) + pad + "  pure %s" % atom(code)
        if not lines:
            return code
        return "\n" + "".join(pad + "  " + l + "\n" for l in lines) + pad + "  " + code

    def sub(self, b_or_e, env, ind):
        """branch of an `if` / `match`, body of a closure: its own block"""
        b = b_or_e if b_or_e[0] == "block" else ("block", [], b_or_e)
        lines, code, t = self.block(b, env, None)
        return self.render([l.replace("\n", "\n  ") for l in lines], code, ind), t

    def pat_code(self, p, env, ty):
        k = p[0]
        if k == "pwild":
            return "_"
        if k == "pvar":
            env[p[1]] = ty
            return lname(p[1])
        if k == "ptuple":
            tys = split_top(ty[1:-1]) if ty and ty.startswith("(") else [None] * len(p[1])
            if len(tys) != len(p[1]):
                tys = [None] * len(p[1])
            return "(" + ", ".join(self.pat_code(q, env, t) for q, t in zip(p[1], tys)) + ")"
        if k == "plit":
            return str(int(re.sub(r"(u8|u16|u32|u64|usize)$", "", p[1]).replace("_", ""), 0))
        if k == "pctor":
            path = p[1]
            if path == ["Some"]:
                return "some " + atom(self.pat_code(p[2][0], env, self.elem_ty(ty)))
            if path == ["None"]:
                return "none"
            en = path[-2] if len(path) >= 2 else None
            if en in self.decls and self.decls[en]["kind"] == "enum":
                d = self.decls[en]
                vs = dict(d["variants"])
                if path[-1] not in vs:
                    raise Unsupported("`%s` is not a variant of `%s`" % (path[-1], en))
                if len(vs[path[-1]]) != len(p[2]):
                    raise Unsupported("pattern `%s` with %d arguments" % ("::".join(path), len(p[2])))
                return ".%s%s" % (path[-1], "".join(" " + atom(self.pat_code(q, env, t)) for q, t in zip(p[2], vs[path[-1]])))
            raise Unsupported("pattern `%s` (not an enum of the translation spec)" % "::".join(path))
        raise Unsupported("pattern")

    # --- expressions → (code, rust type or None)
    def expr(self, e, env, lines):
        k = e[0]
        if k == "num":
            return str(e[1]), e[2]
        if k == "path":
            path = e[1]
            if len(path) == 1:
                n = path[0]
                if n == "self":
                    return "self", self.f.get("self_ty")
                if n in env:
                    return lname(n), env[n]
                if n == "None":
                    return "none", None
                raise Unsupported("unknown variable `%s`" % n, e[2])
            return self.path_value(path, e[2])
        if k == "tuple":
            cs = [self.expr(x, env, lines) for x in e[1]]
            if not cs:
                return "()", "()"
            ty = "(" + ", ".join(t or "?" for _, t in cs) + ")"
            return "(" + ", ".join(c for c, _ in cs) + ")", (None if "?" in ty else ty)
        if k == "array":
            cs = [self.expr(x, env, lines) for x in e[1]]
            et = next((t for _, t in cs if t), None)
            return "[" + ", ".join(c for c, _ in cs) + "]", ("[%s]" % et if et else None)
        if k == "block":
            ls, code, t = self.block(e, env, None)
            lines.extend(ls)
            return code, t
        if k == "deref":
            c, t = self.expr(e[1], env, lines)
            return c, t
        if k == "not":
            c, t = self.expr(e[1], env, lines)
            if t not in (None, "bool"):
                raise Unsupported("`!` on a value of type %s" % t, e[2])
            return "!" + atom(c), "bool"
        if k == "as":
            c, t = self.expr(e[1], env, lines)
            to = e[2]
            if to not in INT_W:
                raise Unsupported("`as %s`" % to, e[3])
            if t in INT_W and INT_W[t] <= INT_W[to]:
                return c, to
            if t is None and e[1][0] == "num":
                return c, to
            if t in INT_W:
                return "Rs.cast %d %s" % (INT_W[to], atom(c)), to
            raise Unsupported("`as %s` on a value of unknown type" % to, e[3])
        if k == "bin":
            return self.binop(e, env, lines)
        if k == "range":
            lo, t1 = self.expr(e[1], env, lines)
            hi, t2 = self.expr(e[2], env, lines)
            return "List.range' %s (%s - %s)" % (atom(lo), hi, lo), "[%s]" % (t1 or t2 or "usize")
        if k == "field":
            return self.field(e, env, lines)
        if k == "tidx":
            c, t = self.expr(e[1], env, lines)
            tys = split_top(t[1:-1]) if t and t.startswith("(") else None
            if tys is None:
                raise Unsupported("`.%d` on a value of unknown type" % e[2], e[3])
            n = len(tys)
            proj = ".2" * e[2] + (".1" if e[2] < n - 1 else "")
            return atom(c) + proj, tys[e[2]]
        if k == "index":
            c, t = self.expr(e[1], env, lines)
            i, ti = self.expr(e[2], env, lines)
            return self.bind(lines, "Rs.idx %s %s" % (atom(c), atom(i))), self.elem_ty(t)
        if k == "if":
            c, _ = self.expr(e[1], env, lines)
            a, ta = self.sub(e[2], env, 2)
            b, tb = self.sub(e[3], env, 2)
            code = "if %s then %s else %s" % (c, atom_block(a), atom_block(b))
            if self.mode_monadic:
                return self.bind_ctl(lines, "(" + code + ")"), ta or tb
            return "(" + code + ")", ta or tb
        if k == "match":
            return self.match(e, env, lines)
        if k == "struct":
            return self.struct_lit(e, env, lines)
        if k == "call":
            return self.call(e, env, lines)
        if k == "mcall":
            return self.mcall(e, env, lines)
        if k == "str":
            return '"…"', "str"
        if k == "closure":
            raise Unsupported("closure outside `.map(..)`", e[3])
        raise Unsupported("expression `%s`" % k)

    def path_value(self, path, pos):
        key = "::".join(path)
        pv = self.unit.get("paths", {})
        if key in pv:
            return pv[key]
        en = path[-2]
        if en in self.decls and self.decls[en]["kind"] == "enum":
            d = self.decls[en]
            if path[-1] in dict(d["variants"]) and not dict(d["variants"])[path[-1]]:
                return "%s.%s" % (d["lean"], path[-1]), en
        raise Unsupported("path `%s` (not declared in the translation spec)" % key, pos)

    def binop(self, e, env, lines):
        _, op, l, r, pos = e
        if op in ("&&", "||"):
            a, _ = self.expr(l, env, lines)
            sub = []
            b, _ = self.expr(r, env, sub)
            if sub:
                raise Unsupported("`%s` whose right operand can panic / has statements" % op, pos)
            return "%s %s %s" % (atom(a), op, atom(b)), "bool"
        a, ta = self.expr(l, env, lines)
        b, tb = self.expr(r, env, lines)
        if op in ("==", "!=", "<", ">", "<=", ">="):
            lop = {"==": "=", "!=": "≠", "<=": "≤", ">=": "≥"}.get(op, op)
            return "decide (%s %s %s)" % (a, lop, b), "bool"
        t = ta if ta in INT_W else (tb if tb in INT_W else None)
        if t is None or (ta in INT_W and tb in INT_W and ta != tb):
            raise Unsupported("arithmetic `%s` on operands of type %s / %s" % (op, ta, tb), pos)
        w = INT_W[t]
        if op == "+":
            return self.bind(lines, "Rs.add %d %s %s" % (w, atom(a), atom(b))), t
        if op == "-":
            return self.bind(lines, "Rs.sub %s %s" % (atom(a), atom(b))), t
        if op == "*":
            return self.bind(lines, "Rs.mul %d %s %s" % (w, atom(a), atom(b))), t
        if op == "/":
            return self.bind(lines, "Rs.div %s %s" % (atom(a), atom(b))), t
        if op == "%":
            return self.bind(lines, "Rs.rem %s %s" % (atom(a), atom(b))), t
        raise Unsupported("operator `%s`" % op, pos)

    def norm(self, t):
        """`FMIndex<DBWT, DLess, DOcc>` names the struct `FMIndex` of the spec"""
        if t is not None:
            b = re.sub(r"<.*>$", "", t.strip())
            if b in self.decls:
                return b
        return t

    def field(self, e, env, lines):
        c, t = self.expr(e[1], env, lines)
        t = self.norm(t)
        if t in self.decls and self.decls[t]["kind"] == "struct":
            fs = dict(self.decls[t]["fields"])
            if e[2] not in fs:
                raise Unsupported("`%s` has no field `%s`" % (t, e[2]), e[3])
            return "%s.%s" % (atom(c), lname(e[2])), fs[e[2]]
        raise Unsupported("field `.%s` of a value of type %s" % (e[2], t), e[3])

    def match(self, e, env, lines):
        s, ts = self.expr(e[1], env, lines)
        arms = []
        rt = None
        for pats, body in e[2]:
            codes = []
            env2 = dict(env)
            for p in pats:
                env_p = dict(env)
                codes.append(self.pat_code(p, env_p, ts))
                env2 = env_p
            if len(pats) > 1 and any(k for k in env2 if k not in env):
                raise Unsupported("`|` alternatives that bind variables", e[3])
            b, tb = self.sub(body, env2, 4)
            rt = rt or tb
            arms.append("    | %s => %s" % (" | ".join(codes), b))
        code = "match %s with\n%s" % (s, "\n".join(arms))
        if self.mode_monadic:
            return self.bind_ctl(lines, "(" + code + ")"), rt
        return "(" + code + ")", rt

    def struct_lit(self, e, env, lines):
        name = e[1][-1]
        if name not in self.decls or self.decls[name]["kind"] != "struct":
            raise Unsupported("struct literal `%s` (not a struct of the translation spec)" % name, e[3])
        d = self.decls[name]
        want = [f for f, _ in d["fields"]]
        got = [f for f, _ in e[2]]
        if sorted(want) != sorted(got):
            raise Unsupported("struct literal `%s` with the fields %s (declaration: %s)" % (name, got, want), e[3])
        vals = {}
        for f, v in e[2]:                      # evaluation in source order
            vals[f] = self.expr(v, env, lines)[0]
        return "({ " + ", ".join("%s := %s" % (lname(f), vals[f]) for f in want) + " } : %s)" % d["lean"], name

    def call(self, e, env, lines):
        path, args, pos = e[1], e[2], e[3]
        key = "::".join(path)
        if key == "Some":
            c, t = self.expr(args[0], env, lines)
            return "some " + atom(c), ("Option<%s>" % t if t else None)
        if key in ("Vec::new", "VecDeque::new") and not args:
            return "[]", None
        calls = self.unit.get("calls", {})
        if key in calls:
            return self.emit_call(calls[key], None, None, args, env, lines)
        if len(path) >= 2 and path[-2] in self.decls and self.decls[path[-2]]["kind"] == "enum":
            d = self.decls[path[-2]]
            vs = dict(d["variants"])
            if path[-1] in vs and len(vs[path[-1]]) == len(args):
                cs = [atom(self.expr(a, env, lines)[0]) for a in args]
                return "%s.%s %s" % (d["lean"], path[-1], " ".join(cs)), path[-2]
        raise Unsupported("call of `%s` (not declared in the translation spec)" % key, pos)

    def emit_call(self, spec, recv, recv_ty, args, env, lines):
        """spec: dict(lean, [recv_fields], [abs], monadic, ret)"""
        parts = [spec["lean"]]
        for a in spec.get("abs", []):
            if a not in self.used_abs:
                self.used_abs.append(a)
            parts.append(a)
        if recv is not None:
            if "recv_fields" in spec:
                for fl in spec["recv_fields"]:
                    parts.append("%s.%s" % (atom(recv), lname(fl)))
            elif "recv_proj" in spec:                    # the receiver is a tuple (a struct of another generated file)
                for pr in spec["recv_proj"]:
                    parts.append("%s%s" % (atom(recv), pr))
            elif spec.get("recv", True):
                parts.append(atom(recv))
        for a in args:
            parts.append(atom(self.expr(a, env, lines)[0]))
        code = " ".join(parts)
        if spec.get("monadic"):
            return self.bind(lines, code), spec.get("ret")
        return code, spec.get("ret")

    IDENT_METHODS = ("iter", "into_iter", "copied", "cloned", "clone", "borrow", "collect", "to_owned", "as_ref", "to_vec")

    def mcall(self, e, env, lines):
        _, recv, m, args, pos = e
        # a closure argument is only understood by `.map`
        if m == "map" and len(args) == 1 and args[0][0] == "closure":
            c, t = self.expr(recv, env, lines)
            cl = args[0]
            if len(cl[1]) != 1:
                raise Unsupported("closure with %d parameters" % len(cl[1]), cl[3])
            env2 = dict(env)
            et = self.elem_ty(t)
            pc = self.pat_code(cl[1][0], env2, et)
            before, n0 = self.monadic, self.ntemp
            self.monadic = False
            sub_lines, code, bt = self.block(("block", [], cl[2]), env2, None)
            body_mon = self.monadic
            self.monadic = before or body_mon
            rt = "[%s]" % bt if bt else None
            if t and t.startswith("Option<"):
                raise Unsupported("`.map` on an `Option`", pos)
            if body_mon:
                if not self.mode_monadic:
                    return "?", rt      # probing pass
                body = "do\n" + "".join("      " + l + "\n" for l in sub_lines) + "      pure %s" % atom(code)
                return self.bind(lines, "List.mapM (fun %s => %s) %s" % (pc, body, atom(c))), rt
            if sub_lines:
                body = "\n" + "".join("      " + l + "\n" for l in sub_lines) + "      " + code
            else:
                body = code
            return "List.map (fun %s => %s) %s" % (pc, body, atom(c)), rt
        if any(a[0] == "closure" for a in args):
            raise Unsupported("closure argument of `.%s(..)`" % m, pos)
        c, t = self.expr(recv, env, lines)
        methods = self.unit.get("methods", {})
        for key in ("%s.%s" % (self.norm(t), m), ".%s" % m):
            if key in methods:
                return self.emit_call(methods[key], c, t, args, env, lines)
        if m in self.IDENT_METHODS and not args:
            return c, t
        if m == "enumerate" and not args:
            et = self.elem_ty(t)
            return "Rs.enumFrom0 %s" % atom(c), ("[(usize, %s)]" % et if et else None)
        if m == "len" and not args:
            return "%s.length" % atom(c), "usize"
        if m == "cmp" and len(args) == 1:
            b, tb = self.expr(args[0], env, lines)
            if not (t in INT_W or tb in INT_W):
                raise Unsupported("`.cmp` on values of type %s" % t, pos)
            return "compare %s %s" % (atom(c), atom(b)), "Ordering"
        if m in ("expect", "unwrap"):
            return self.bind(lines, "Rs.expect %s" % atom(c)), self.elem_ty(t)
        raise Unsupported("method `.%s(…)` on a value of type %s" % (m, t), pos)

    # --- the function
    def translate(self, body, start):
        f = self.f
        toks = apply_rewrites(tokenize(body, start), self.unit.get("rewrites", []) + f.get("rewrites", []))
        p = PX(toks)
        b = p.block_body("<eof>")
        if p.peek().kind != "eof":
            raise Unsupported("unexpected `%s`" % p.peek().text, p.peek().pos)
        env = {}
        for n, t in f.get("params", []):
            env[n] = t
        # probing pass: can anything panic?
        self.mode_monadic = True
        self.block(b, env, None)
        mon = self.monadic or f.get("force_monadic", False)
        self.ntemp, self.used_abs = 0, []
        self.mode_monadic = mon
        lines, code, t = self.block(b, env, None)
        ps = []
        for a in self.unit.get("abstract", []):          # fixed by the spec (not by what the body uses): `abs` of the function
            if f.get("abs") is None or a[0] in f["abs"]:
                ps.append("(%s : %s)" % (a[0], a[1]))
        if f.get("self_ty"):
            ps.append("(self : %s)" % self.lean_ty(f["self_ty"]))
        for n, t2 in f.get("params", []):
            ps.append("(%s : %s)" % (lname(n), self.lean_ty(t2)))
        ret = self.lean_ty(f["ret"])
        if mon:
            head = "def %s %s : Res %s := do" % (f["lean"], " ".join(ps), atom_ty(ret))
            text = head + "\n" + "".join("  " + l + "\n" for l in lines) + "  pure %s" % atom(code)
        else:
            head = "def %s %s : %s :=" % (f["lean"], " ".join(ps), ret)
            text = head + "\n" + "".join("  " + l + "\n" for l in lines) + "  " + code
        return text.replace("  ", "  "), mon


def atom_block(s):
    return "(" + s + ")" if ("\n" in s or " " in s.strip()) else s


def atom_ty(s):
    return "(" + s + ")" if (" " in s and not (s[0] == "(" and _closed(s))) else s


def split_top(s):
    out, depth, cur = [], 0, ""
    for ch in s:
        if ch in "(<[":
            depth += 1
        elif ch in ")>]":
            depth -= 1
        if ch == "," and depth == 0:
            out.append(cur.strip())
            cur = ""
        else:
            cur += ch
    if cur.strip():
        out.append(cur.strip())
    return out


def apply_rewrites(toks, rewrites):
    """spec-level rewrites on the token sequence (as genfm's: part of the trusted reading): (pattern, replacement)"""
    for pat, rep in rewrites:
        pt = [t.text for t in tokenize(pat, 0)[:-1]]
        out, i = [], 0
        while i < len(toks):
            if [t.text for t in toks[i:i + len(pt)]] == pt:
                pos = toks[i].pos
                for r in tokenize(rep, 0)[:-1]:
                    out.append(cb.Tok(r.kind, r.text, pos))
                i += len(pt)
            else:
                out.append(toks[i])
                i += 1
        toks = out
    return toks


# ---------------------------------------------------------------------------------- declarations read from the source

def read_decl(src, d, fail, rel):
    """`enum` / `struct` item → dict(kind, lean, variants | fields); the declaration is found by its pinned head"""
    rx = tok_rx(d["head"]) + r"\s*\{"
    ms = list(re.finditer(rx, src.code))
    if len(ms) != 1:
        fail("%s: expected exactly one item `%s`, found %d (the translation spec in tools/rs2lean_genleft.py pins it)"
             % (rel, d["head"], len(ms)))
    lo = ms[0].end() - 1
    hi = match_brace(src.code, lo)
    text = src.code[lo + 1:hi]
    p = PX(tokenize(text, lo + 1))
    if d["kind"] == "enum":
        variants = []
        while p.peek().kind != "eof":
            while p.at("#"):
                raise Unsupported("attribute inside `%s`" % d["head"], p.peek().pos)
            v = p.ident().text
            tys = []
            if p.at("("):
                p.next()
                while not p.at(")"):
                    tys.append(p.ty())
                    if p.at(","):
                        p.next()
                p.next()
            elif p.at("{"):
                raise Unsupported("struct-like enum variant", p.peek().pos)
            variants.append((v, tys))
            if p.at(","):
                p.next()
        return dict(kind="enum", lean=d["lean"], variants=variants, text=ms[0].group(0) + text + "}")
    fields = []
    while p.peek().kind != "eof":
        if p.at("pub"):
            p.next()
            if p.at("("):
                while not p.at(")"):
                    p.next()
                p.next()
        f = p.ident().text
        p.expect(":")
        fields.append((f, p.ty()))
        if p.at(","):
            p.next()
    skip = d.get("skip", [])
    return dict(kind="struct", lean=d["lean"], fields=[(f, t) for f, t in fields if f not in skip], text=ms[0].group(0) + text + "}")


def decl_lean(name, d, tr):
    if d["kind"] == "enum":
        out = ["/-- `enum %s` as declared in the source -/" % name, "inductive %s where" % d["lean"]]
        for v, tys in d["variants"]:
            out.append("  | %s%s" % (v, "".join(" (a%d : %s)" % (i, tr.lean_ty(t)) for i, t in enumerate(tys))))
        out.append("  deriving Repr, DecidableEq")
        return "\n".join(out)
    out = ["/-- `struct %s` as declared in the source -/" % name, "structure %s where" % d["lean"]]
    for f, t in d["fields"]:
        out.append("  %s : %s" % (lname(f), tr.lean_ty(t)))
    if not d["fields"]:
        out[-1] = "structure %s where mk ::" % d["lean"]
    out.append("  deriving Repr, DecidableEq")
    return "\n".join(out)


def find_fn(src, f, fail, rel, modname="tools/rs2lean_genleft.py"):
    """position of the function body: header pinned, optionally inside the single item `within`"""
    what = "fn %s" % f["name"]
    rx = header_regex(f["header"])
    ms = list(re.finditer(rx, src.code))
    if f.get("within"):
        ws = list(re.finditer(tok_rx(f["within"]) + r"\s*\{", src.code))
        if len(ws) != 1:
            fail("%s: %s: expected exactly one item `%s`, found %d" % (rel, what, " ".join(f["within"].split())[:100], len(ws)))
        lo = ws[0].end() - 1
        hi = match_brace(src.code, lo)
        ms = [m for m in ms if hi is not None and lo < m.start() < hi]
    if len(ms) != 1:
        fail("%s: %s: expected exactly one function with the header `%s`%s, found %d (signature changed, renamed or "
             "restructured: the translation spec in %s pins the header)"
             % (rel, what, f["header"], " inside `%s`" % " ".join(f["within"].split())[:60] if f.get("within") else "", len(ms), modname))
    lo = src.code.find("{", ms[0].end() - 1)
    hi = match_brace(src.code, lo)
    return ms[0], src.code[lo + 1:hi], lo + 1, src.line_of(lo)


def translate_unit_px(src, unit, fail):
    rel = unit["file"]
    decls, snippets = {}, {}
    try:
        for name, d in unit.get("decls", {}).items():
            decls[name] = read_decl(src, d, fail, rel)
            snippets["item " + name] = decls[name]["text"]
    except Unsupported as u:
        fail("%s:%s: cannot translate: %s (declaration outside the subset of tools/rs2lean_genleft.py)"
             % (rel, src.line_of(u.pos) if u.pos is not None else "?", u.msg))
    out = []
    for f in unit["functions"]:
        m, body, start, line = find_fn(src, f, fail, rel)
        snippets[f.get("key", f["name"])] = m.group(0)[:-1].strip() + " {" + body + "}"
        try:
            tr = Tr(unit, f, decls)
            text, mon = tr.translate(body, start)
        except Unsupported as u:
            where = "%s:%d" % (rel, src.line_of(u.pos)) if u.pos is not None else "%s:%d" % (rel, line)
            fail("%s: fn %s: cannot translate: %s (outside the subset of tools/rs2lean_genleft.py, dialect px; the equality "
                 "theorem %s can no longer be regenerated)" % (where, f["name"], u.msg, f.get("theorem", "")))
        out.append((f, line, body, text))
    name = unit["name"]
    txt = ["import RbV.Basic.RsSemGenleft"] + ["import " + m for m in unit.get("imports", [])] + [
        "/-! GENERATED by tools/rs2lean_genleft.py (dialect px; tools/gen_tables.py, %s) — do not edit." % unit["props"],
        "Translation of the *text* of the following items of `%s` (comments blanked) into Lean, regenerated from the" % rel,
        "source tree on every `./check`.  Semantics: `RbV/Basic/RsSem.lean`, `RbV/Basic/RsSemGenleft.lean` (`Res.panic` = the",
        "Rust code panics; a function none of whose operations can panic is a pure Lean function).",
        "Theorems: `RbV/Thm/Gen%s.lean`." % name, ""]
    for n, d in decls.items():
        txt.append("```")
        txt.extend(l.rstrip().replace("-/", "- /").replace("/-", "/ -") for l in dedent(d["text"]).splitlines() if l.strip())
        txt.append("```")
    for f, line, body, text in out:
        txt.append("`%s`%s (line %d):" % (" ".join(f["header"].split()), " in `%s`" % " ".join(f["within"].split()) if f.get("within") else "", line))
        txt.append("```")
        txt.extend(l.rstrip().replace("-/", "- /").replace("/-", "/ -") for l in dedent(body).splitlines() if l.strip())
        txt.append("```")
    txt.append("-/")
    txt.append("set_option linter.unusedVariables false")
    txt.append("namespace RbV.Gen.%s" % name)
    txt.append("open RbV RbV.Rs")
    for o in unit.get("opens", []):
        txt.append("open " + o)
    if unit.get("variables"):
        txt.append("variable " + " ".join("{%s : Type}" % v for v in unit["variables"]))
    txt.append("")
    tr0 = Tr(unit, {}, decls)
    for n, d in decls.items():
        txt.append(decl_lean(n, d, tr0))
        txt.append("")
    for f, line, body, text in out:
        txt.append("/-- `%s` (%s, line %d) -/" % (" ".join(f["header"].split()).replace("-/", "- /"), rel, line))
        txt.append(text)
        txt.append("")
    txt.append("end RbV.Gen.%s" % name)
    return "\n".join(txt) + "\n", snippets


# ================================================================================================== units of sub-dialect "io"

def _left_io_class():
    import rs2lean_cf as cf
    Base = cf.IoFn

    class LeftIoFn(Base):
        """`IoFn` plus **ghost capacity fields**: a struct of the spec with `ghost_caps={"buf_cap": "buf"}` gets, in every
        struct literal, the extra field `buf_cap := n` where `buf: Vec::with_capacity(n)` is the initialiser of `buf` in the
        text (anything else as initialiser is refused).  Trusted reading: `Vec::with_capacity(n)` is the empty vector and
        `capacity() >= n` holds for it (std documentation)."""

        def struct_lit(self, e, env, k):
            name = e.name.split("::")[-1]
            sd = self.structs.get(name)
            caps = (sd or {}).get("ghost_caps", {})
            if caps:
                given = dict(e.fields)
                fields = list(e.fields)
                for ghost, fld in caps.items():
                    x = given.get(fld)
                    if x is None or x.kind != "call" or x.path != ["Vec", "with_capacity"] or len(x.args) != 1:
                        self.err("field `%s` of the struct literal `%s` is not initialised by `Vec::with_capacity(n)` (the "
                                 "ghost field `%s` records the requested capacity)" % (fld, name, ghost), e)
                    fields.append((ghost, x.args[0]))
                e = cf.N("struct", e.pos, name=e.name, fields=fields)
            return Base.struct_lit(self, e, env, k)

    return cf, LeftIoFn


def translate_unit_io(src, unit, fail):
    """a unit of genio's sub-dialect "io" translated by `rs2lean_cfbase.translate_unit` with `LeftIoFn` in the place of `IoFn`;
    functions marked `extern=<namespace>` are siblings that live in another generated file: they are needed for the
    calling convention (their spec) only, their (re-)translation is dropped from the text and the name is opened instead"""
    cf, LeftIoFn = _left_io_class()
    saved = cf.IoFn
    cf.IoFn = LeftIoFn
    try:
        text, snippets = cb.translate_unit(src, dict(unit, dialect="cf"), fail)
    finally:
        cf.IoFn = saved
    opens = {}
    for f in unit["functions"]:
        if f.get("extern"):
            opens.setdefault(f["extern"], []).append(f["lean"])
            hdr = "/-- `%s` (" % " ".join(f["header"].split())
            i = text.find(hdr)
            j = min(x for x in (text.find("\n/-- ", i + 1), text.find("\nend RbV.Gen.", i + 1)) if x > 0)
            if i < 0:
                fail("%s: internal: cannot locate the text of the external sibling %s" % (unit["file"], f["name"]))
            text = text[:i] + text[j + 1:]
            snippets.pop(f["name"], None)
    for ns, names in unit.get("extern_opens", {}).items():
        opens.setdefault(ns, [])
        opens[ns] = list(names) + opens[ns]
    extra = "".join("open %s (%s)\n" % (ns, " ".join(names)) for ns, names in opens.items())
    text = text.replace("open RbV RbV.Rs\n", "open RbV RbV.Rs\n" + extra, 1)
    # a generated structure with a field of the opaque reader type takes `ρ` as a parameter: name it in type positions
    for sname, sd in unit.get("io_structs", {}).items():
        if sd.get("emit", True) and any(ft in unit.get("generics", {}) for _, ft in sd["fields"]):
            head, sep, tail = text.partition("\nnamespace RbV.Gen.")
            lines = []
            for l in tail.split("\n"):
                if not (l.startswith("/--") or l.startswith("structure ")):
                    l = re.sub(r"(?<![\w.`])%s(?![\w])" % sname, "(%s ρ)" % sname, l)
                lines.append(l)
            text = head + sep + "\n".join(lines)
    imports = "".join("import %s\n" % m for m in unit.get("imports", []))
    text = text.replace("import RbV.Basic.RsSem\n", "import RbV.Basic.RsSem\nimport RbV.Basic.RsSemGenleft\n" + imports, 1)
    text = text.replace("GENERATED by tools/rs2lean.py", "GENERATED by tools/rs2lean_genleft.py (sub-dialect io of tools/rs2lean_cf.py)", 1)
    text = text.replace("`RbV/Thm/GenSrc%s.lean`" % unit["name"][3:], "`RbV/Thm/Gen%s.lean`" % unit["name"], 1)
    return text, snippets


def translate_unit(src, unit, fail):
    if unit.get("dialect") == "px":
        return translate_unit_px(src, unit, fail)
    if unit.get("dialect") == "io":
        return translate_unit_io(src, unit, fail)
    raise SystemExit("rs2lean_genleft: unit %s has no known dialect" % unit.get("name"))


# ================================================================================================== units

UNITS = {}


def unit(**kw):
    UNITS[kw["name"]] = kw
    return kw


RS_FILE = "src/data_structures/rank_select.rs"

# C17: `impl Deref / PartialOrd / Ord for SuperblockRank`.  `**self` / `**other` (reference, then `Deref::deref`) are read as
# calls of the translated `deref` (spec-level rewrite: trusted reading of the auto-deref).
unit(name="SrcSbRankOrd", dialect="px", props="property C17", file=RS_FILE,
     decls={"SuperblockRank": dict(kind="enum", head="pub enum SuperblockRank", lean="SuperblockRank")},
     paths={"cmp::Ordering::Equal": ("Ordering.eq", "Ordering"), "cmp::Ordering::Less": ("Ordering.lt", "Ordering"),
            "cmp::Ordering::Greater": ("Ordering.gt", "Ordering")},
     types={"cmp::Ordering": "Ordering", "Option<cmp::Ordering>": "Option Ordering", "&u64": "Nat"},
     calls={"sb_deref": dict(lean="deref", ret="u64")},
     methods={"SuperblockRank.cmp": dict(lean="cmp", ret="cmp::Ordering")},
     functions=[
         dict(name="deref", lean="deref", within="impl Deref for SuperblockRank", header="fn deref(&self) -> &u64",
              self_ty="SuperblockRank", params=[], ret="u64", theorem="RbV.Thm.C17.superblock_rank_ord_source_eq_model"),
         dict(name="cmp", lean="cmp", within="impl Ord for SuperblockRank", header="fn cmp(&self, other: &Self) -> cmp::Ordering",
              self_ty="SuperblockRank", params=[("other", "SuperblockRank")], ret="cmp::Ordering",
              rewrites=[("**self", "sb_deref(self)"), ("**other", "sb_deref(other)")],
              theorem="RbV.Thm.C17.superblock_rank_ord_source_eq_model"),
         dict(name="partial_cmp", lean="partialCmp", within="impl PartialOrd for SuperblockRank",
              header="fn partial_cmp(&self, other: &Self) -> Option<cmp::Ordering>",
              self_ty="SuperblockRank", params=[("other", "SuperblockRank")], ret="Option<cmp::Ordering>",
              theorem="RbV.Thm.C17.superblock_rank_ord_source_eq_model"),
     ])


ORF_FILE = "src/seq_analysis/orf.rs"

# C20: the constructors in front of the translated `orf::Matches::next` (`Gen/SrcOrf.lean`, genmisc).  An `Orf` is the triple
# `(start, end, offset)` as there; `iter::Enumerate<T>` is the list of the remaining `(index, item)` pairs as there.
unit(name="SrcOrfNew", dialect="px", props="property C20", file=ORF_FILE,
     decls={"Finder": dict(kind="struct", head="pub struct Finder", lean="Finder"),
            "State": dict(kind="struct", head="struct State", lean="State"),
            "Matches": dict(kind="struct", head="pub struct Matches<'a, C, T> where C: Borrow<u8>, T: Iterator<Item = C>,",
                            lean="Matches")},
     types={"Orf": "(Nat × Nat × Nat)", "iter::Enumerate<T>": "List (Nat × Nat)", "Self": "Finder"},
     calls={"State::new": dict(lean="stateNew", ret="State")},
     functions=[
         dict(name="new", key="Finder::new", lean="finderNew", within="impl Finder",
              header="pub fn new<'a>(start_codons: Vec<&'a [u8; 3]>, stop_codons: Vec<&'a [u8; 3]>, min_len: usize,) -> Self",
              params=[("start_codons", "Vec<[u8; 3]>"), ("stop_codons", "Vec<[u8; 3]>"), ("min_len", "usize")], ret="Finder",
              theorem="RbV.Thm.C20.orf_find_all_source_accepted"),
         dict(name="new", key="State::new", lean="stateNew", within="impl State", header="pub fn new() -> Self",
              params=[], ret="State", theorem="RbV.Thm.C20.orf_find_all_source_accepted"),
         dict(name="find_all", lean="findAll", within="impl Finder",
              header="pub fn find_all<C, T>(&self, seq: T) -> Matches<'_, C, T::IntoIter> where C: Borrow<u8>, T: IntoIterator<Item = C>,",
              self_ty="Finder", params=[("seq", "[u8]")], ret="Matches",
              theorem="RbV.Thm.C20.orf_find_all_source_accepted"),
     ])


# C12: `IndexedReader::read_into_iter`, `read_iter` (what genio read by hand).  `seek_to` is the translated function of
# `Gen/SrcIdxFa.lean` (listed for its calling convention, `extern`); `IndexRecord` is the structure generated there.
IDXFA_OPS = cb.IDXFA_OPS
unit(name="SrcIdxFaIter", dialect="io", props="property C12", file="src/io/fasta.rs", lean_imports=["RbV.Basic.RsSemIo"],
     imports=["RbV.Gen.SrcIdxFa"], extern_opens={"RbV.Gen.SrcIdxFa": ["IndexRecord"]},
     generics={"Rd": "ρ"}, aliases={"Text": "Vec<u8>"}, io_ops=IDXFA_OPS,
     io_structs={"IndexRecord": dict(fields=[("len", "u64"), ("offset", "u64"), ("line_bases", "u64"), ("line_bytes", "u64")],
                                     skip=["name"], emit=False,
                                     pinned="struct IndexRecord { name: String, len: u64, offset: u64, line_bases: u64, "
                                            "line_bytes: u64, }"),
                 "IndexedReaderIterator": dict(
                     fields=[("reader", "Rd"), ("record", "IndexRecord"), ("bases_left", "u64"), ("line_offset", "u64"),
                             ("buf", "Vec<u8>"), ("buf_idx", "usize"), ("buf_cap", "usize")],
                     self_alias={"reader": "reader"}, ghost_caps={"buf_cap": "buf"},
                     pinned="pub struct IndexedReaderIterator<'a, R: io::Read + io::Seek> { reader: &'a mut IndexedReader<R>, "
                            "record: IndexRecord, bases_left: u64, line_offset: u64, buf: Vec<u8>, buf_idx: usize, }")},
     io_consts={"MAX_FASTA_BUFFER_SIZE": "usize"},
     functions=[dict(name="IndexedReader::seek_to", lean="seekTo", io=True, extern="RbV.Gen.SrcIdxFa",
                     header="fn seek_to(&mut self, idx: &IndexRecord, start: u64) -> io::Result<u64>",
                     self_fields=[("reader", "Rd")], params=[("idx", "&IndexRecord"), ("start", "u64")],
                     ret="io::Result<u64>", outs=["self.reader"], ops=["seekStart"]),
                dict(name="IndexedReader::read_into_iter", lean="readIntoIter", io=True,
                     header="fn read_into_iter(&mut self, idx: IndexRecord, start: u64, stop: u64,) "
                            "-> io::Result<IndexedReaderIterator<'_, R>>",
                     self_fields=[("reader", "Rd")], params=[("idx", "IndexRecord"), ("start", "u64"), ("stop", "u64")],
                     ret="io::Result<IndexedReaderIterator>", outs=[], ops=["seekStart"], siblings=["seek_to"],
                     theorem="RbV.Thm.C12.read_into_iter_source_capacity_pos"),
                dict(name="IndexedReader::read_iter", lean="readIter", io=True,
                     header="pub fn read_iter(&mut self) -> io::Result<IndexedReaderIterator<'_, R>>",
                     self_fields=[("reader", "Rd"), ("fetched_idx", "Option<IndexRecord>"), ("start", "Option<u64>"),
                                  ("stop", "Option<u64>")],
                     params=[], ret="io::Result<IndexedReaderIterator>", outs=[], ops=["seekStart"],
                     siblings=["read_into_iter"], theorem="RbV.Thm.C12.read_iter_source_dispatch")])


FM_FILE = "src/data_structures/fmindex.rs"
FM_GEN = "<DBWT: Borrow<BWT>, DLess: Borrow<Less>, DOcc: Borrow<Occ>>"
FM_IMPL = "impl" + FM_GEN + " FMIndexable for "

# C06 / C05: the accessor chain below the translated FMD / FM-index algorithms.  `DBWT` / `DLess` are the vectors, `DOcc` is
# the struct `Occ` of bwt.rs as the translated `Occ::new` (Gen/SrcOcc.lean) returns it: the pair `(occ, k)`; `.borrow()` is
# the identity.  `Occ::get` is the translated function of Gen/SrcOcc.lean (`count` = `bytecount::count`, abstract there).
# `SA: SuffixArray` is an opaque type `σ` with the abstract, possibly panicking `saGet` (= `SuffixArray::get`).
unit(name="SrcFmAccess", dialect="px", props="properties C05, C06", file=FM_FILE, imports=["RbV.Gen.SrcOcc"],
     variables=["σ"],
     abstract=[("count", "List Nat → Nat → Nat"), ("saGet", "σ → Nat → Res (Option Nat)")],
     decls={"Interval": dict(kind="struct", head="pub struct Interval", lean="Interval"),
            "BiInterval": dict(kind="struct", head="pub struct BiInterval", lean="BiInterval"),
            "FMIndex": dict(kind="struct", head="pub struct FMIndex" + FM_GEN, lean="FMIndex"),
            "FMDIndex": dict(kind="struct", head="pub struct FMDIndex" + FM_GEN, lean="FMDIndex")},
     types={"DBWT": "List Nat", "DLess": "List Nat", "DOcc": "(List (List Nat) × Nat)", "SA": "σ"},
     methods={"DOcc.get": dict(lean="RbV.Gen.SrcOcc.get", abs=["count"], recv_proj=[".1", ".2"], monadic=True, ret="usize"),
              "FMIndex.occ": dict(lean="fmOcc", abs=["count"], monadic=True, ret="usize"),
              "FMIndex.less": dict(lean="fmLess", monadic=True, ret="usize"),
              "SA.get": dict(lean="saGet", monadic=True, ret="Option<usize>")},
     functions=[
         dict(name="occ", key="FMIndex::occ", lean="fmOcc", within=FM_IMPL + "FMIndex<DBWT, DLess, DOcc>",
              header="fn occ(&self, r: usize, a: u8) -> usize", self_ty="FMIndex", abs=["count"],
              params=[("r", "usize"), ("a", "u8")], ret="usize", theorem="RbV.Thm.C06.fmd_accessors_source_exact"),
         dict(name="less", key="FMIndex::less", lean="fmLess", within=FM_IMPL + "FMIndex<DBWT, DLess, DOcc>",
              header="fn less(&self, a: u8) -> usize", self_ty="FMIndex", abs=[],
              params=[("a", "u8")], ret="usize", theorem="RbV.Thm.C06.fmd_accessors_source_exact"),
         dict(name="occ", key="FMDIndex::occ", lean="fmdOcc", within=FM_IMPL + "FMDIndex<DBWT, DLess, DOcc>",
              header="fn occ(&self, r: usize, a: u8) -> usize", self_ty="FMDIndex", abs=["count"],
              params=[("r", "usize"), ("a", "u8")], ret="usize", theorem="RbV.Thm.C06.fmd_accessors_source_exact"),
         dict(name="less", key="FMDIndex::less", lean="fmdLess", within=FM_IMPL + "FMDIndex<DBWT, DLess, DOcc>",
              header="fn less(&self, a: u8) -> usize", self_ty="FMDIndex", abs=[],
              params=[("a", "u8")], ret="usize", theorem="RbV.Thm.C06.fmd_accessors_source_exact"),
         dict(name="forward", lean="biForward", within="impl BiInterval", header="pub fn forward(&self) -> Interval",
              self_ty="BiInterval", abs=[], params=[], ret="Interval", theorem="RbV.Thm.C06.biinterval_views_source_eq_model"),
         dict(name="revcomp", lean="biRevcomp", within="impl BiInterval", header="pub fn revcomp(&self) -> Interval",
              self_ty="BiInterval", abs=[], params=[], ret="Interval", theorem="RbV.Thm.C06.biinterval_views_source_eq_model"),
         dict(name="occ", key="Interval::occ", lean="intervalOcc", within="impl Interval",
              header="pub fn occ<SA: SuffixArray>(&self, sa: &SA) -> Vec<usize>", self_ty="Interval", abs=["saGet"],
              params=[("sa", "SA")], ret="Vec<usize>", theorem="RbV.Thm.C05.interval_occ_source_eq_model"),
     ])


# ================================================================================================== self-test / main

class _Src:
    """stand-in for gen_tables.Src in the self-test"""

    def __init__(self, text):
        self.raw = self.code = text
        self.rel = "selftest.rs"

    def line_of(self, pos):
        return self.code.count("\n", 0, pos) + 1


class _Refused(Exception):
    pass


def main():
    ap = argparse.ArgumentParser()
    ap.add_argument("--selftest", action="store_true")
    ap.add_argument("--lean", action="store_true")
    ap.add_argument("--show", help="print the translation of a unit from --repo")
    ap.add_argument("--repo", default="/repo")
    a = ap.parse_args()
    if a.selftest:
        selftest(a.lean)
        return
    if a.show:
        import gen_tables
        u = UNITS[a.show]
        s = gen_tables.Src(a.repo, u["file"])
        text, _ = translate_unit(s, u, gen_tables.fail)
        print(text)


SELFTEST_RS = r"""
// synthetic items exercising dialect px (tools/rs2lean_genleft.py --selftest)
pub enum Shape {
    Dot,
    Seg(u64),
    Box(u64, u64),
}

pub struct Span {
    pub lo: usize,
    pub hi: usize,
}

pub struct Holder<T: Borrow<Vec<usize>>> {
    data: T,
    spans: Vec<Span>,
}

impl Shape {
    fn area(&self) -> u64 {
        match self {
            Shape::Dot => 0,
            Shape::Seg(_) => 0,
            Shape::Box(w, h) => w * h,
        }
    }

    fn order(&self, other: &Self) -> cmp::Ordering {
        let c = self.area().cmp(&other.area());
        if c != cmp::Ordering::Equal {
            c
        } else {
            match (self, other) {
                (Shape::Dot, Shape::Seg(_)) | (Shape::Dot, Shape::Box(_, _)) => cmp::Ordering::Less,
                (Shape::Seg(_), Shape::Dot) => cmp::Ordering::Greater,
                _ => c,
            }
        }
    }
}

impl<T: Borrow<Vec<usize>>> Holder<T> {
    pub fn new(data: T, cuts: Vec<&[usize; 2]>) -> Self {
        Holder {
            spans: cuts.iter().map(|c| Span { hi: c[1], lo: c[0] }).collect::<Vec<Span>>(),
            data,
        }
    }

    pub fn width(&self, i: usize) -> usize {
        let s = &self.spans[i];
        s.hi - s.lo + 1
    }

    pub fn values(&self, span: &Span) -> Vec<usize> {
        (span.lo..span.hi)
            .map(|p| *self.data.borrow().get(p).expect("out of range"))
            .collect()
    }

    pub fn tagged(&self) -> Vec<(usize, usize)> {
        self.data.borrow().iter().copied().enumerate().collect()
    }
}
"""

SELFTEST_UNIT = dict(
    name="SrcSelfLeft", dialect="px", props="self-test", file="selftest.rs",
    decls={"Shape": dict(kind="enum", head="pub enum Shape", lean="Shape"),
           "Span": dict(kind="struct", head="pub struct Span", lean="Span"),
           "Holder": dict(kind="struct", head="pub struct Holder<T: Borrow<Vec<usize>>>", lean="Holder")},
    paths={"cmp::Ordering::Equal": ("Ordering.eq", "Ordering"), "cmp::Ordering::Less": ("Ordering.lt", "Ordering"),
           "cmp::Ordering::Greater": ("Ordering.gt", "Ordering")},
    types={"cmp::Ordering": "Ordering", "T": "List Nat"},
    methods={"Shape.area": dict(lean="area", monadic=True, ret="u64"),
             "T.get": dict(lean="List.getElem?'", ret="Option<usize>", recv=True)},
    functions=[
        dict(name="area", lean="area", within="impl Shape", header="fn area(&self) -> u64", self_ty="Shape", params=[], ret="u64"),
        dict(name="order", lean="order", within="impl Shape", header="fn order(&self, other: &Self) -> cmp::Ordering",
             self_ty="Shape", params=[("other", "Shape")], ret="cmp::Ordering"),
        dict(name="new", lean="holderNew", within="impl<T: Borrow<Vec<usize>>> Holder<T>",
             header="pub fn new(data: T, cuts: Vec<&[usize; 2]>) -> Self",
             params=[("data", "T"), ("cuts", "Vec<[usize; 2]>")], ret="Holder"),
        dict(name="width", lean="width", within="impl<T: Borrow<Vec<usize>>> Holder<T>",
             header="pub fn width(&self, i: usize) -> usize", self_ty="Holder", params=[("i", "usize")], ret="usize"),
        dict(name="values", lean="values", within="impl<T: Borrow<Vec<usize>>> Holder<T>",
             header="pub fn values(&self, span: &Span) -> Vec<usize>", self_ty="Holder", params=[("span", "Span")],
             ret="Vec<usize>"),
        dict(name="tagged", lean="tagged", within="impl<T: Borrow<Vec<usize>>> Holder<T>",
             header="pub fn tagged(&self) -> Vec<(usize, usize)>", self_ty="Holder", params=[], ret="Vec<(usize, usize)>"),
    ])

# (function whose body is replaced, replacement body, expected reason)
SELFTEST_REFUSED = [
    ("width", "let mut n = 0; for s in self.spans.iter() { n += 1; } n", "`for` loop"),
    ("width", "if i > 3 { return 0; } i", "`return`"),
    ("width", "self.spans.len()?", "`?`"),
    ("width", "let v = vec![1usize]; v[0]", "macro `vec!`"),
    ("width", "match self.spans.get(i) { Some(s) if s.lo > 0 => s.lo, _ => 0 }", "guard"),
    ("width", "self.spans.iter().filter(|s| s.lo > i).count()", "closure argument of `.filter(..)`"),
    ("width", "self.frobnicate(i)", "method `.frobnicate(…)`"),
    ("width", "Span { lo: i, hi: i, mid: i }.lo", "struct literal `Span` with the fields"),
    ("width", "helper(i)", "call of `helper`"),
    ("width", "(i..=i + 1).len()", "inclusive range"),
    ("width", "i - 1; i", "expression statement"),
]

SELFTEST_LEAN = r"""
def List.getElem?' {α : Type} (l : List α) (i : Nat) : Option α := l[i]?
"""

SELFTEST_CHECKS = r"""
open RbV RbV.Rs RbV.Gen.SrcSelfLeft
example : area (.Box 3 4) = Res.ok 12 := by decide
example : area (.Box (2 ^ 40) (2 ^ 40)) = Res.panic := by decide
example : order .Dot (.Seg 5) = Res.ok .lt ∧ order (.Box 1 2) .Dot = Res.ok .gt ∧ order (.Seg 1) (.Seg 2) = Res.ok .eq := by decide
example : holderNew [5, 6, 7] [[0, 2], [1, 3]] = Res.ok { data := [5, 6, 7], spans := [⟨0, 2⟩, ⟨1, 3⟩] } := by decide
example : width { data := [], spans := [⟨2, 5⟩] } 0 = Res.ok 4 ∧ width { data := [], spans := [⟨2, 5⟩] } 1 = Res.panic := by decide
example : values { data := [5, 6, 7], spans := [] } ⟨1, 3⟩ = Res.ok [6, 7] ∧
    values { data := [5, 6, 7], spans := [] } ⟨2, 4⟩ = Res.panic := by decide
example : tagged { data := [5, 6], spans := [] } = [(0, 5), (1, 6)] := by decide
"""


def selftest(with_lean):
    def refuse(msg):
        raise _Refused(msg)
    text, _ = translate_unit(_Src(SELFTEST_RS), SELFTEST_UNIT, refuse)
    text2, _ = translate_unit(_Src(SELFTEST_RS), SELFTEST_UNIT, refuse)
    assert text == text2, "translation is not deterministic"
    for frag in ("inductive Shape", "structure Holder", "| .Box w h =>", "(.Dot, .Seg _) | (.Dot, .Box _ _)", "List.mapM", "Rs.expect",
                 "Rs.enumFrom0", "Rs.idx", "Rs.mul 64", "compare", "def tagged (self : Holder) : List (Nat × Nat) :="):
        assert frag in text, "missing `%s` in the translation of the self-test unit:\n%s" % (frag, text)
    n = 0
    for fn, body, expect in SELFTEST_REFUSED:
        f = [g for g in SELFTEST_UNIT["functions"] if g["name"] == fn][0]
        src = _Src(SELFTEST_RS)
        m, old, start, _ = find_fn(src, f, refuse, "selftest.rs")
        mutated = SELFTEST_RS[:start] + body + SELFTEST_RS[start + len(old):]
        try:
            translate_unit(_Src(mutated), SELFTEST_UNIT, refuse)
        except _Refused as r:
            assert expect in str(r), "refused for another reason: %s (expected %s)" % (r, expect)
            n += 1
        else:
            raise AssertionError("not refused: " + body)
    # the io units: the ghost capacity field is refused when `buf` is not built by `Vec::with_capacity`
    print("rs2lean_genleft selftest: translation ok, deterministic, %d non-subset snippets refused" % n)
    if with_lean:
        import subprocess, tempfile
        root = os.path.dirname(os.path.dirname(os.path.abspath(__file__)))
        base = os.path.join(root, ".work") if os.path.isdir(os.path.join(root, ".work")) else os.path.dirname(root)
        d = tempfile.mkdtemp(dir=base)
        fn = os.path.join(d, "SelfLeft.lean")
        head, sep, tail = text.partition("set_option linter.unusedVariables false")
        with open(fn, "w") as f:
            f.write(head + SELFTEST_LEAN + sep + tail + SELFTEST_CHECKS)
        p = subprocess.run(["lake", "env", "lean", fn], cwd=os.path.join(root, "lean"), stdout=subprocess.PIPE,
                           stderr=subprocess.STDOUT, text=True)
        print(p.stdout.strip())
        os.remove(fn)
        os.rmdir(d)
        assert p.returncode == 0, "lean rejected the translated self-test unit"
        print("rs2lean_genleft selftest: lean ok")


if __name__ == "__main__":
    main()
