#!/usr/bin/env python3
"""Translate the text of a small Rust function into a Lean 4 definition (docs/notes/GEN.md, "Translated function bodies").

    tools/rs2lean.py --repo <repo> --unit <Name> [--stdout]        (normally called through tools/gen_tables.py)

The translator works on the comment-blanked source text (class `Src` of gen_tables.py: exactly one function with the
pinned header, brace matching) and handles a deliberately small subset of Rust.  Everything outside the subset is an
extraction failure: `Unsupported` is raised with file:line and a one-line reason, the caller exits non-zero.  Nothing
is ever guessed: every local without a type annotation needs a type in the translation spec, every `while` loop needs
a fuel expression in the spec.

Subset
  statements   `let [mut] x[: T] = e;`  `let (a, mut b) = (e1, e2);`  `x = e;`  `x op= e;`  `v[i] = e;`  `v[i] op= e;`
               `*r = e;` (r a loop variable of `iter_mut()`)  `v.push(e);`  `assert!(c, ..);`  `assert_eq!(a, b, ..);`
               `if c {..} [else if ..] [else {..}]`   `while c {..}`   `for pat in iter {..}`   `return e;` (tail
               position of the function body or of an `if` whose continuation is the rest of the function — not in loops)
  iterators    `a..b`  `a..=b`  `(a..b).rev()`  `xs`  `&xs`  `xs.iter()`  `xs.iter().rev()`  `xs.iter().enumerate()`
               `xs[a..b].iter()…`  `xs.iter_mut()`        patterns `i`, `&c`, `c`, `(j, &a)`, `(j, a)`, `_`
  expressions  integer/bool/byte literals, variables, `self.f`, `v[i]`, `v[a..b]` (only as iterator source), `v.len()`,
               `+ - * / %` (checked: `Rs.add w`, `Rs.sub`, `Rs.mul w`, `Rs.div`, `Rs.rem`; `/ %` by a non-zero literal are
               pure), `<< >>` (`Rs.shl w`, `Rs.shr w`), `& | ^ !` (`&&& ||| ^^^ Rs.not w`), comparisons, `&& || !`
               (short-circuit kept when the right operand can panic), `e as T`, `uN::from(e)`, unary `-` on signed bit
               patterns (`Rs.neg w`), `x.wrapping_add(y)` & co., `vec![v; n]`, `[v; N]`, `repeat(v).take(n).collect()`,
               `Vec::new()`, tuples, `if` expressions, `S { a, b: e }` (→ tuple in field order), `*c.borrow()`, `*r`,
               `&e`, `&mut e` (references are transparent), calls of functions declared in the spec (abstract
               parameters such as `Op::operation`, or other translated functions).
(gensel, section "gensel extensions" below) `return` inside `for` loops over ranges (recursive helpers returning
`Option Ret × State`), `match xs.binary_search(&k) { Ok(i) | Err(i) => e }` (abstract function `slice.binary_search`),
`bool as uN`, abstract monadic functions / mutating methods of abstract types, calls with `&mut` arguments of another
translated function (`mut_calls`), closure arguments filling abstract function parameters of a translated callee
(`closure_calls`), spec option `canonical_state`.
Output style: the monad `RbV.Rs.Res` (`ok | panic | fuel`, RbV/Basic/RsSem.lean), `do` blocks of `let x ← …` / `let x := …`
with Rust's mutation expressed by shadowing, `for` loops as `List.foldlM` of a named body function over `List.range'` /
the slice / `zipIdx`, `while` loops as named recursive helpers on fuel.  Loop helpers are named `<fn>_for<k>`,
`<fn>_while<k>` (k-th loop of that kind in source order); temporaries `t<k>`.  Compound assignments are normalised
(`x += e` and `x = x + e` give the same text).
"""
import sys, os, re, argparse

WIDTH = {"u8": 8, "u16": 16, "u32": 32, "u64": 64, "usize": 64, "i8": 8, "i16": 16, "i32": 32, "i64": 64, "isize": 64}
LEAN_KEYWORDS = {"at", "from", "to", "end", "open", "in", "fun", "do", "then", "else", "if", "let", "have", "show", "by",
                 "match", "with", "where", "def", "theorem", "instance", "class", "structure", "namespace", "section",
                 "variable", "universe", "import", "export", "macro", "syntax", "prefix", "infix", "notation", "mut",
                 "return", "for", "unless", "try", "catch", "finally", "Type", "Prop", "Sort", "set", "using", "calc",
                 "nomatch", "exact", "pure", "bind", "fuel", "some", "none", "List", "Nat", "Bool", "true", "false"}


class Unsupported(Exception):
    def __init__(self, msg, pos=None):
        Exception.__init__(self, msg)
        self.msg = msg
        self.pos = pos


# ================================================================================================== types

class Ty:
    pass


class TInt(Ty):
    def __init__(self, name):
        self.name, self.w, self.signed = name, WIDTH[name], name[0] == "i"

    def lean(self):
        return "Nat"

    def __eq__(self, o):
        return isinstance(o, TInt) and o.name == self.name

    def __repr__(self):
        return self.name


class TBool(Ty):
    def lean(self):
        return "Bool"

    def __eq__(self, o):
        return isinstance(o, TBool)

    def __repr__(self):
        return "bool"


class TUnit(Ty):
    def lean(self):
        return "Unit"

    def __eq__(self, o):
        return isinstance(o, TUnit)

    def __repr__(self):
        return "()"


class TSeq(Ty):
    def __init__(self, elem):
        self.elem = elem

    def lean(self):
        return "List " + paren_ty(self.elem.lean())

    def __eq__(self, o):
        return isinstance(o, TSeq) and o.elem == self.elem

    def __repr__(self):
        return "[%r]" % (self.elem,)


class TTuple(Ty):
    def __init__(self, items):
        self.items = items

    def lean(self):
        return tuple_ty(self.items)

    def __eq__(self, o):
        return isinstance(o, TTuple) and o.items == self.items

    def __repr__(self):
        return "(%s)" % ", ".join(map(repr, self.items))


class TAbs(Ty):
    """a generic type parameter of the Rust function (`T`): a Lean type variable"""

    def __init__(self, name, lean_name):
        self.name, self.lean_name = name, lean_name

    def lean(self):
        return self.lean_name

    def __eq__(self, o):
        return isinstance(o, TAbs) and o.name == self.name

    def __repr__(self):
        return self.name


def paren_ty(s):
    return "(%s)" % s if (" " in s) else s


# ================================================================================================== tokens

TOKEN_RX = re.compile(r"""
    (?P<ws>\s+)
  | (?P<byte>b'(?:\\.|[^\\'])')
  | (?P<str>"(?:\\.|[^"\\])*")
  | (?P<num>(?:0x[0-9a-fA-F_]+|0b[01_]+|0o[0-7_]+|[0-9][0-9_]*)(?:(?:u8|u16|u32|u64|usize|i8|i16|i32|i64|isize))?)
  | (?P<id>[A-Za-z_][A-Za-z0-9_]*)
  | (?P<life>'[A-Za-z_][A-Za-z0-9_]*)
  | (?P<op><<=|>>=|\.\.=|\.\.|::|->|=>|==|!=|<=|>=|&&|\|\||\+=|-=|\*=|/=|%=|&=|\|=|\^=|<<|>>|[-+*/%&|^!<>=.,;:(){}\[\]\#?@])
""", re.X)


class Tok:
    __slots__ = ("kind", "text", "pos")

    def __init__(self, kind, text, pos):
        self.kind, self.text, self.pos = kind, text, pos

    def __repr__(self):
        return "%s(%s)" % (self.kind, self.text)


def tokenize(text, base):
    toks, i, n = [], 0, len(text)
    while i < n:
        m = TOKEN_RX.match(text, i)
        if not m:
            raise Unsupported("cannot tokenise `%s`" % text[i:i + 12].split("\n")[0], base + i)
        i = m.end()
        if m.lastgroup == "ws":
            continue
        toks.append(Tok(m.lastgroup, m.group(0), base + m.start()))
    toks.append(Tok("eof", "<end of function>", base + n))
    return toks


# ================================================================================================== AST

class N:
    """AST node: kind + fields"""

    def __init__(self, kind, pos, **kw):
        self.kind, self.pos = kind, pos
        self.__dict__.update(kw)

    def __repr__(self):
        return "N(%s %s)" % (self.kind, {k: v for k, v in self.__dict__.items() if k not in ("kind", "pos")})


BINPREC = [("||",), ("&&",), ("==", "!=", "<", ">", "<=", ">="), ("|",), ("^",), ("&",), ("<<", ">>"), ("+", "-"),
           ("*", "/", "%")]
ASSIGN_OPS = {"=": None, "+=": "+", "-=": "-", "*=": "*", "/=": "/", "%=": "%", "&=": "&", "|=": "|", "^=": "^",
              "<<=": "<<", ">>=": ">>"}


class Parser:
    def __init__(self, toks):
        self.t, self.i = toks, 0

    def peek(self, k=0):
        return self.t[min(self.i + k, len(self.t) - 1)]

    def at(self, text, k=0):
        x = self.peek(k)
        return x.kind in ("op", "id") and x.text == text

    def next(self):
        x = self.t[self.i]
        self.i += 1
        return x

    def expect(self, text):
        x = self.next()
        if not (x.kind in ("op", "id") and x.text == text):
            raise Unsupported("expected `%s`, found `%s`" % (text, x.text), x.pos)
        return x

    def ident(self):
        x = self.next()
        if x.kind != "id":
            raise Unsupported("expected an identifier, found `%s`" % x.text, x.pos)
        return x

    # ---------------------------------------------------------------- types
    def type_(self):
        x = self.peek()
        if self.at("&"):
            self.next()
            if self.peek().kind == "id" and self.peek().text == "mut":
                self.next()
            return N("tref", x.pos, inner=self.type_())
        if self.at("["):
            self.next()
            el = self.type_()
            n = None
            if self.at(";"):
                self.next()
                n = self.expr()
            self.expect("]")
            return N("tslice", x.pos, elem=el, n=n)
        if self.at("("):
            self.next()
            items = []
            while not self.at(")"):
                items.append(self.type_())
                if self.at(","):
                    self.next()
            self.expect(")")
            return N("ttuple", x.pos, items=items)
        nm = self.ident()
        args = []
        if self.at("<"):
            self.next()
            while not self.at(">"):
                args.append(self.type_())
                if self.at(","):
                    self.next()
            self.expect(">")
        if self.at("::"):
            raise Unsupported("qualified type path `%s::…`" % nm.text, nm.pos)
        return N("tname", x.pos, name=nm.text, args=args)

    # ---------------------------------------------------------------- blocks and statements
    def block(self):
        """`{ stmts [tail] }` → N(block, stmts, tail)"""
        b = self.expect("{")
        stmts, tail = [], None
        while not self.at("}"):
            if self.peek().kind == "eof":
                raise Unsupported("unbalanced block", b.pos)
            s = self.stmt()
            if s.kind == "tail":
                if not self.at("}"):
                    raise Unsupported("expected `;` or `}` after the expression", self.peek().pos)
                tail = s.e
            else:
                stmts.append(s)
        self.expect("}")
        return N("block", b.pos, stmts=stmts, tail=tail)

    def body(self):
        """the statements of a function body (tokens between the outer braces)"""
        stmts, tail = [], None
        p0 = self.peek().pos
        while self.peek().kind != "eof":
            s = self.stmt()
            if s.kind == "tail":
                if self.peek().kind != "eof":
                    raise Unsupported("expected `;` after the expression", self.peek().pos)
                tail = s.e
            else:
                stmts.append(s)
        return N("block", p0, stmts=stmts, tail=tail)

    def pattern(self):
        x = self.peek()
        if self.at("("):
            self.next()
            items = []
            while not self.at(")"):
                items.append(self.pattern())
                if self.at(","):
                    self.next()
                elif not self.at(")"):
                    raise Unsupported("pattern", self.peek().pos)
            self.expect(")")
            return N("ptuple", x.pos, items=items)
        if self.at("&"):
            self.next()
            p = self.pattern()
            if p.kind != "pid":
                raise Unsupported("reference pattern other than `&name`", x.pos)
            return p
        if self.at("mut"):
            self.next()
            return N("pid", x.pos, name=self.ident().text, mut=True)
        if x.kind == "id":
            self.next()
            if x.text in ("ref", "box") or self.at("::") or self.at("(") or self.at("{") or self.at("@"):
                raise Unsupported("pattern `%s …` (only names, `&name`, `_` and tuples are translated)" % x.text, x.pos)
            return N("pid", x.pos, name=x.text, mut=False)
        raise Unsupported("pattern starting with `%s`" % x.text, x.pos)

    def stmt(self):
        x = self.peek()
        r = bits_parse_stmt(self, x)          # (genbits) `{ … }` block statements, `match` statements
        if r is not None:
            return r
        if x.kind == "id" and x.text == "let":
            self.next()
            pat = self.pattern()
            ty = None
            if self.at(":"):
                self.next()
                ty = self.type_()
            if not self.at("="):
                raise Unsupported("`let` without initialiser", x.pos)
            self.next()
            if self.at("if") or self.at("{"):
                init = self.expr()
            else:
                init = self.expr()
            self.expect(";")
            return N("let", x.pos, pat=pat, ty=ty, init=init)
        if x.kind == "id" and x.text == "if":
            e = self.if_()
            if self.at(";"):
                self.next()
            elif self.at("}") or self.peek().kind == "eof":
                return N("tail", x.pos, e=e)
            return N("ifs", x.pos, e=e)
        if x.kind == "id" and x.text == "while":
            self.next()
            if self.at("let"):
                raise Unsupported("`while let`", x.pos)
            c = self.expr(no_struct=True)
            b = self.block()
            return N("while", x.pos, cond=c, body=b)
        if x.kind == "id" and x.text == "for":
            self.next()
            pat = self.pattern()
            self.expect("in")
            it = self.expr(no_struct=True)
            b = self.block()
            return N("for", x.pos, pat=pat, iter=it, body=b)
        if x.kind == "id" and x.text == "return":
            self.next()
            e = None if self.at(";") else self.expr()
            if self.at(";"):
                self.next()
            return N("return", x.pos, e=e)
        if x.kind == "id" and x.text in ("loop", "match", "break", "continue", "unsafe", "fn", "use", "const", "static",
                                         "struct", "enum", "impl", "type", "mod", "trait", "async", "move"):
            raise Unsupported("`%s` is outside the translated subset" % x.text, x.pos)
        e = self.expr()
        if self.peek().kind == "op" and self.peek().text in ASSIGN_OPS:
            op = self.next()
            r = self.expr()
            self.expect(";")
            return N("assign", x.pos, lhs=e, op=ASSIGN_OPS[op.text], rhs=r)
        if self.at(";"):
            self.next()
            return N("exprs", x.pos, e=e)
        return N("tail", x.pos, e=e)

    def if_(self):
        x = self.expect("if")
        if self.at("let"):
            raise Unsupported("`if let`", x.pos)
        c = self.expr(no_struct=True)
        th = self.block()
        el = None
        if self.at("else"):
            self.next()
            if self.at("if"):
                y = self.peek()
                el = N("block", y.pos, stmts=[], tail=self.if_())
            else:
                el = self.block()
        return N("if", x.pos, cond=c, then=th, els=el)

    # ---------------------------------------------------------------- expressions
    def expr(self, no_struct=False):
        x = self.peek()
        if self.at("..") or self.at("..="):
            op = self.next()
            hi = None if self.range_end() else self.binary(0, no_struct)
            return N("range", x.pos, lo=None, hi=hi, incl=op.text == "..=")
        lo = self.binary(0, no_struct)
        if self.at("..") or self.at("..="):
            op = self.next()
            hi = None if self.range_end() else self.binary(0, no_struct)
            return N("range", x.pos, lo=lo, hi=hi, incl=op.text == "..=")
        return lo

    def range_end(self):
        return self.at("]") or self.at(")") or self.at("{") or self.at(";") or self.at(",")

    def binary(self, level, no_struct):
        if level == len(BINPREC):
            return self.cast(no_struct)
        l = self.binary(level + 1, no_struct)
        while self.peek().kind == "op" and self.peek().text in BINPREC[level]:
            # `a < b` vs generic argument lists never clash here: generics only follow `::` (rejected) or type names
            op = self.next()
            r = self.binary(level + 1, no_struct)
            l = N("bin", op.pos, op=op.text, l=l, r=r)
            if level == 2 and self.peek().kind == "op" and self.peek().text in BINPREC[2]:
                raise Unsupported("chained comparison", self.peek().pos)
        return l

    def cast(self, no_struct):
        e = self.unary(no_struct)
        while self.at("as"):
            a = self.next()
            e = N("cast", a.pos, e=e, ty=self.type_())
        return e

    def unary(self, no_struct):
        x = self.peek()
        if x.kind == "op" and x.text in ("-", "!", "*"):
            self.next()
            return N("un", x.pos, op=x.text, e=self.unary(no_struct))
        if x.kind == "op" and x.text == "&":
            self.next()
            if self.at("mut"):
                self.next()
            return N("un", x.pos, op="&", e=self.unary(no_struct))
        if x.kind == "op" and x.text == "&&":
            raise Unsupported("`&&` as a double reference", x.pos)
        return self.postfix(no_struct)

    def args(self):
        self.expect("(")
        a = []
        while not self.at(")"):
            if self.at("|") or self.at("||") or self.at("move"):
                a.append(bits_parse_closure(self))      # (genbits) `|x| e` as the argument of `.map(..)`
            else:
                a.append(self.expr())
            if self.at(","):
                self.next()
            elif not self.at(")"):
                raise Unsupported("argument list", self.peek().pos)
        self.expect(")")
        return a

    def postfix(self, no_struct):
        e = self.primary(no_struct)
        while True:
            x = self.peek()
            if self.at("."):
                self.next()
                nm = self.next()
                if nm.kind == "num":
                    raise Unsupported("tuple field access `.%s`" % nm.text, nm.pos)
                if nm.kind != "id":
                    raise Unsupported("after `.`", nm.pos)
                if self.at("::"):
                    raise Unsupported("turbofish", self.peek().pos)
                if self.at("("):
                    e = N("mcall", nm.pos, recv=e, name=nm.text, args=self.args())
                else:
                    e = N("field", nm.pos, e=e, name=nm.text)
            elif self.at("["):
                self.next()
                i = self.expr()
                self.expect("]")
                e = N("index", x.pos, base=e, idx=i)
            elif self.at("?"):
                raise Unsupported("`?` operator", x.pos)
            elif self.at("("):
                raise Unsupported("call of a computed function value", x.pos)
            else:
                return e

    def primary(self, no_struct):
        r = bits_parse_primary(self, no_struct)     # (genbits) `match` expressions, closures as call arguments
        if r is not None:
            return r
        x = self.next()
        if x.kind == "num":
            m = re.fullmatch(r"(.*?)(u8|u16|u32|u64|usize|i8|i16|i32|i64|isize)?", x.text)
            body, suf = m.group(1).replace("_", ""), m.group(2)
            if body[:2] in ("0x", "0b", "0o"):
                v = int(body[2:], {"0x": 16, "0b": 2, "0o": 8}[body[:2]])
            else:
                v = int(body)
            return N("lit", x.pos, v=v, suf=suf)
        if x.kind == "byte":
            inner = x.text[2:-1]
            esc = {"\\n": 10, "\\r": 13, "\\t": 9, "\\\\": 92, "\\0": 0, "\\'": 39, '\\"': 34}
            if inner in esc:
                v = esc[inner]
            elif len(inner) == 1:
                v = ord(inner)
            elif re.fullmatch(r"\\x[0-9a-fA-F]{2}", inner):
                v = int(inner[2:], 16)
            else:
                raise Unsupported("byte literal %s" % x.text, x.pos)
            return N("lit", x.pos, v=v, suf="u8")
        if x.kind == "str":
            return N("str", x.pos, text=x.text)
        if x.kind == "op" and x.text == "(":
            if self.at(")"):
                self.next()
                return N("tuple", x.pos, items=[])
            e = self.expr()
            if self.at(","):
                items = [e]
                while self.at(","):
                    self.next()
                    if self.at(")"):
                        break
                    items.append(self.expr())
                self.expect(")")
                return N("tuple", x.pos, items=items)
            self.expect(")")
            return N("paren", x.pos, e=e)
        if x.kind == "op" and x.text == "[":
            v = self.expr()
            if not self.at(";"):
                raise Unsupported("array literal other than `[value; count]`", x.pos)
            self.next()
            n = self.expr()
            self.expect("]")
            return N("repeat", x.pos, v=v, n=n)
        if x.kind == "op" and x.text == "{":
            raise Unsupported("block expression", x.pos)
        if x.kind == "op" and x.text in ("|", "||"):
            raise Unsupported("closure", x.pos)
        if x.kind == "id":
            if x.text == "if":
                self.i -= 1
                return self.if_()
            if x.text in ("true", "false"):
                return N("blit", x.pos, v=x.text == "true")
            if x.text in ("match", "loop", "unsafe", "move", "while", "for", "return", "break", "continue", "let"):
                raise Unsupported("`%s` expression is outside the translated subset" % x.text, x.pos)
            path = [x.text]
            while self.at("::"):
                self.next()
                if self.at("<"):
                    raise Unsupported("turbofish / generic arguments in a path", self.peek().pos)
                path.append(self.ident().text)
            if self.at("!"):
                # macro call
                self.next()
                opener = self.next()
                if opener.text not in ("(", "["):
                    raise Unsupported("macro `%s!` with `%s`" % (x.text, opener.text), x.pos)
                closer = ")" if opener.text == "(" else "]"
                args, sep = [], None
                while not self.at(closer):
                    args.append(self.expr())
                    if self.at(",") or self.at(";"):
                        s = self.next().text
                        sep = sep or s
                    elif not self.at(closer):
                        raise Unsupported("macro arguments of `%s!`" % x.text, self.peek().pos)
                self.expect(closer)
                return N("macro", x.pos, name="::".join(path), args=args, sep=sep)
            if self.at("("):
                return N("call", x.pos, path=path, args=self.args())
            if self.at("{") and not no_struct and path[-1][:1].isupper():
                self.next()
                fields = []
                while not self.at("}"):
                    f = self.ident()
                    if self.at(":"):
                        self.next()
                        fields.append((f.text, self.expr()))
                    else:
                        fields.append((f.text, N("var", f.pos, name=f.text)))
                    if self.at(","):
                        self.next()
                    elif not self.at("}"):
                        raise Unsupported("struct literal", self.peek().pos)
                self.expect("}")
                return N("struct", x.pos, name="::".join(path), fields=fields)
            if len(path) > 1:
                raise Unsupported("path `%s` (only calls through `::` are translated)" % "::".join(path), x.pos)
            return N("var", x.pos, name=x.text)
        raise Unsupported("unexpected `%s`" % x.text, x.pos)


# ================================================================================================== intermediate code

class Code:
    """a `do` block under construction: items = ('let', pat, pure-expr) | ('bind', pat, MExpr); then a final MExpr.
    MExpr = ('call', text) | ('pure', text) | ('if', cond, Code, Code)"""

    def __init__(self):
        self.items = []
        self.final = None

    def let(self, pat, e):
        self.items.append(("let", pat, e))

    def bind(self, pat, m):
        self.items.append(("bind", pat, m))


def emit_code(code, ind, out):
    """lines of the items of a do block (each at indentation `ind`)"""
    pad = " " * ind
    for kind, pat, e in code.items:
        if kind == "let":
            out.append("%slet %s := %s" % (pad, pat, e))
        else:
            emit_m("%slet %s ← " % (pad, pat), e, ind, out)
    emit_m(pad, code.final, ind, out)


def emit_m(prefix, m, ind, out):
    if m[0] in ("do", "match"):                # (genbits) nested `do` block / `match` on an Option
        return bits_emit_m(prefix, m, ind, out)
    if m[0] in ("call", "pure"):
        out.append(prefix + (m[1] if m[0] == "call" else "pure " + atom(m[1])))
        return
    _, cond, th, el = m
    out.append("%sif %s then do" % (prefix, cond))
    emit_code(th, ind + 4, out)
    if not el.items and el.final[0] in ("call", "pure"):
        out.append(" " * (ind + 2) + "else " + (el.final[1] if el.final[0] == "call" else "pure " + atom(el.final[1])))
    else:
        out.append(" " * (ind + 2) + "else do")
        emit_code(el, ind + 4, out)


def atom(s):
    """parenthesise unless atomic"""
    s = s.strip()
    if re.fullmatch(r"[\w.'α-ω]+|\(\)", s):
        return s
    if s[0] in "([" and matching_close(s) == len(s) - 1:
        return s
    return "(" + s + ")"


def matching_close(s):
    depth = 0
    for i, ch in enumerate(s):
        if ch in "([":
            depth += 1
        elif ch in ")]":
            depth -= 1
            if depth == 0:
                return i
    return -1


def tuple_pat(names):
    if not names:
        return "_"
    if len(names) == 1:
        return names[0]
    return "(" + ", ".join(names) + ")"


def tuple_val(names):
    if not names:
        return "()"
    if len(names) == 1:
        return names[0]
    return "(" + ", ".join(names) + ")"


def tuple_ty(tys):
    if not tys:
        return "Unit"
    if len(tys) == 1:
        return tys[0].lean()
    return " × ".join(("(%s)" % t.lean()) if isinstance(t, TTuple) else t.lean() for t in tys)


# ================================================================================================== translation

class Var:
    def __init__(self, rust, lean, ty, mutable=True, ref_elem=False):
        self.rust, self.lean, self.ty, self.mutable = rust, lean, ty, mutable
        self.ref_elem = ref_elem      # loop variable of iter_mut(): `*v = e` writes the element


class FnTranslator:
    def __init__(self, unit, fspec, src, body_text, body_pos):
        self.unit, self.spec, self.src = unit, fspec, src
        self.body_text, self.body_pos = body_text, body_pos
        self.lean_fn = fspec["lean"]
        self.aliases = dict(unit.get("aliases", {}))
        self.aliases.update(fspec.get("aliases", {}))
        self.generics = dict(unit.get("generics", {}))          # rust type parameter -> lean type variable
        self.generics.update(fspec.get("generics", {}))
        self.absfns = dict(unit.get("abstract_fns", {}))        # "Op::operation" -> dict(lean=, args=[ty], ret=ty)
        self.absfns.update(fspec.get("abstract_fns", {}))
        self.calls = dict(unit.get("calls", {}))                # rust fn name -> dict(lean=, args=[ty], ret=ty, extra=[lean exprs])
        self.calls.update(fspec.get("calls", {}))
        self.local_types = dict(fspec.get("locals", {}))
        self.fuels = list(fspec.get("fuel", []))
        self.n_for = self.n_while = self.n_tmp = 0
        self.helpers = []           # lean text of loop helpers, in emission order
        self.scopes = []            # list of dict rust name -> Var
        self.used_abs = []          # abstract fns used (parameters of the generated function)
        self.loop_depth = 0

    # ---------------------------------------------------------------- helpers
    def err(self, msg, node=None):
        raise Unsupported(msg, node.pos if node is not None else None)

    def ty_of_text(self, s):
        toks = tokenize(s, 0)
        p = Parser(toks)
        t = p.type_()
        if p.peek().kind != "eof":
            raise Unsupported("type `%s` in the translation spec" % s)
        return self.ty(t)

    def ty(self, t):
        r = bits_ty(self, t)                   # (genbits) Option<T>, BTreeMap<K, V>
        if r is not None:
            return r
        if t.kind == "tref":
            return self.ty(t.inner)
        if t.kind == "tslice":
            return TSeq(self.ty(t.elem))
        if t.kind == "ttuple":
            return TTuple([self.ty(x) for x in t.items]) if t.items else TUnit()
        nm = t.name
        if nm in WIDTH and not t.args:
            return TInt(nm)
        if nm == "bool" and not t.args:
            return TBool()
        if nm == "Vec" and len(t.args) == 1:
            return TSeq(self.ty(t.args[0]))
        if nm in self.generics and not t.args:
            return TAbs(nm, self.generics[nm])
        if nm in self.aliases and not t.args:
            return self.ty_of_text(self.aliases[nm])
        self.err("type `%s` is not in the translated subset (declare an alias in the spec if it is one)" % nm, t)

    def tmp(self):
        self.n_tmp += 1
        return "t%d" % self.n_tmp

    def lookup(self, name, node):
        for sc in reversed(self.scopes):
            if name in sc:
                return sc[name]
        self.err("unknown variable `%s`" % name, node)

    def declare(self, name, ty, node, mutable=True, ref_elem=False, nested_ok=False):
        if name == "_":
            return Var("_", "_", ty, False)
        # shadowing: allowed in the same scope (old binding dead), refused across scopes inside nested blocks
        # (at the top level of the function body a `let` may shadow a parameter: the parameter is dead from there on)
        top_level = self.loop_depth == 0 and len(self.scopes) == 2
        for sc in self.scopes[:-1]:
            if name in sc and not nested_ok and not top_level:
                if self.spec.get("shadow_ok"):      # (genbits) shadowing `let` inside a nested block: fresh Lean name
                    return bits_declare_shadow(self, name, ty, mutable, ref_elem)
                self.err("`%s` shadows a variable of an enclosing block (not translated)" % name, node)
        v = Var(name, self.fresh_lean(name), ty, mutable, ref_elem)
        self.scopes[-1][name] = v
        return v

    def fresh_lean(self, name):
        """Lean name for the Rust variable `name`: its own name, primed while another live variable (e.g. the field
        `self.mask` next to a local `mask`) already uses it"""
        lean = lean_name(name)
        live = set(v.lean for sc in self.scopes for k, v in sc.items() if k != name)
        while lean in live:
            lean += "'"
        return lean

    # ---------------------------------------------------------------- variable analysis
    def assigned(self, node, declared=None):
        """rust names of variables declared outside `node` that `node` assigns (in order of first assignment)"""
        out = []
        self._assigned(node, set() if declared is None else set(declared), out)
        return out

    def _lhs_root(self, e):
        while True:
            if e.kind == "index":
                e = e.base
            elif e.kind == "paren":
                e = e.e
            elif e.kind == "un" and e.op == "*":
                e = e.e
            elif e.kind == "field" and e.e.kind == "var" and e.e.name == "self":
                return "self." + e.name
            elif e.kind == "var":
                return e.name
            else:
                self.err("assignment target is not a variable, `self.f`, `v[i]` or `*r`", e)

    def _assigned(self, n, decl, out):
        k = n.kind
        if bits_assigned(self, n, decl, out):  # (genbits) block statements, `match`, `self.m(..)` calls, clear/resize/insert
            return
        if k == "block":
            d = set(decl)
            for s in n.stmts:
                self._assigned(s, d, out)
                if s.kind == "let":
                    for nm in pat_names(s.pat):
                        d.add(nm)
            if n.tail is not None:
                self._assigned(n.tail, d, out)
        elif k == "assign":
            r = self._lhs_root(n.lhs)
            if n.lhs.kind == "un" and n.lhs.op == "*":
                # `*r = e` where r is an iter_mut loop variable: the write goes to the sequence, handled by the loop
                r = "*" + r
            if r not in decl and r not in out:
                out.append(r)
        elif k == "exprs":
            e = n.e
            if e.kind == "mcall" and e.name in ("push",):
                r = self._lhs_root(e.recv)
                if r not in decl and r not in out:
                    out.append(r)
            else:
                self._assigned(e, decl, out)
        elif k in ("ifs", "tail"):
            self._assigned(n.e, decl, out)
        elif k == "if":
            self._assigned(n.then, decl, out)
            if n.els is not None:
                self._assigned(n.els, decl, out)
        elif k == "while":
            self._assigned(n.body, decl, out)
        elif k == "for":
            d = set(decl) | set(pat_names(n.pat))
            inner = []
            self._assigned(n.body, d, inner)
            it_mut = iter_mut_target(n.iter)
            for r in inner:
                if r.startswith("*"):
                    if it_mut is None or r[1:] not in pat_names(n.pat):
                        self.err("`*%s = …` outside a `for %s in ….iter_mut()` loop" % (r[1:], r[1:]), n)
                    r = self._lhs_root(it_mut)
                if r not in decl and r not in out:
                    out.append(r)
        # expressions do not assign (no nested blocks except `if` expressions, handled above)

    def reads(self, node):
        """rust names read anywhere in `node`"""
        out = []
        self._reads(node, out)
        return out

    def _reads(self, n, out):
        if isinstance(n, N):
            bits_reads(self, n, out)           # (genbits) fields read by `self.m(..)` calls
            if n.kind == "var":
                if n.name not in out:
                    out.append(n.name)
            elif n.kind == "field" and n.e.kind == "var" and n.e.name == "self":
                nm = "self." + n.name
                if nm not in out:
                    out.append(nm)
            else:
                for k, v in n.__dict__.items():
                    if k in ("kind", "pos"):
                        continue
                    self._reads(v, out)
        elif isinstance(n, (list, tuple)):
            for x in n:
                self._reads(x, out)

    # ---------------------------------------------------------------- expressions
    def lit_type(self, e, expected):
        if e.suf:
            return TInt(e.suf)
        if isinstance(expected, TInt):
            return expected
        self.err("the type of the literal `%d` cannot be read off the text (give the variable a type in the spec)" % e.v, e)

    def is_lit(self, e):
        while e.kind == "paren":
            e = e.e
        return e.kind == "lit" and not e.suf

    def expr(self, e, code, expected=None):
        """translate `e`, appending the needed binds to `code`; returns (pure lean text, type)"""
        k = e.kind
        r = bits_expr(self, e, code, expected)  # (genbits) Option, self calls, typed struct literals, block-`if`, `match`
        if r is not None:
            return r
        if k == "paren":
            return self.expr(e.e, code, expected)
        if k == "lit":
            t = self.lit_type(e, expected)
            lo, hi = (-(2 ** (t.w - 1)), 2 ** (t.w - 1) - 1) if t.signed else (0, 2 ** t.w - 1)
            if not (lo <= e.v <= hi):
                self.err("literal %d does not fit %s" % (e.v, t.name), e)
            return str(e.v), t
        if k == "blit":
            return ("true" if e.v else "false"), TBool()
        if k == "var":
            v = self.lookup(e.name, e)
            return v.lean, v.ty
        if k == "field":
            if e.e.kind == "var" and e.e.name == "self":
                v = self.lookup("self." + e.name, e)
                return v.lean, v.ty
            self.err("field access `.%s` on something other than `self`" % e.name, e)
        if k == "index":
            if e.idx.kind == "range":
                self.err("a sub-slice `v[a..b]` is only translated as the source of a `for` loop", e)
            b, bt = self.expr(e.base, code)
            if not isinstance(bt, TSeq):
                self.err("indexing into a value of type %r" % (bt,), e)
            i, it = self.expr(e.idx, code, TInt("usize"))
            if it != TInt("usize"):
                self.err("index of type %r (usize expected)" % (it,), e.idx)
            t = self.tmp()
            code.bind(t, ("call", "Rs.idx %s %s" % (atom(b), atom(i))))
            return t, bt.elem
        if k == "cast":
            target = self.ty(e.ty)
            s, st = self.expr(e.e, code, None if not self.is_lit(e.e) else target)
            if not (isinstance(st, TInt) and isinstance(target, TInt)):
                self.err("cast `as %r` from %r" % (target, st), e)
            if st.signed and target.w > st.w:
                self.err("sign-extending cast %r as %r" % (st, target), e)
            if target.w >= st.w:
                return s, target               # widening of an unsigned value / same-width reinterpretation of the bit pattern
            return "Rs.cast %d %s" % (target.w, atom(s)), target
        if k == "un":
            if e.op in ("&",):
                return self.expr(e.e, code, expected)
            if e.op == "*":
                inner = e.e
                if inner.kind == "mcall" and inner.name == "borrow" and not inner.args:
                    return self.expr(inner.recv, code, expected)
                if inner.kind == "var":
                    return self.expr(inner, code, expected)
                self.err("dereference of something other than a variable or `x.borrow()`", e)
            if e.op == "!":
                s, t = self.expr(e.e, code, expected)
                if isinstance(t, TBool):
                    return "!" + atom(s), t
                if isinstance(t, TInt) and not t.signed:
                    return "Rs.not %d %s" % (t.w, atom(s)), t
                self.err("`!` on %r" % (t,), e)
            if e.op == "-":
                s, t = self.expr(e.e, code, expected)
                if isinstance(t, TInt) and t.signed:
                    r = self.tmp()
                    code.bind(r, ("call", "Rs.neg %d %s" % (t.w, atom(s))))
                    return r, t
                self.err("unary `-` on %r (only signed bit patterns)" % (t,), e)
        if k == "bin":
            return self.binary(e, code, expected)
        if k == "mcall":
            return self.mcall(e, code, expected)
        if k == "call":
            return self.call(e, code, expected)
        if k == "macro":
            return self.macro(e, code, expected)
        if k == "repeat":
            return self.replicate(e.v, e.n, code, expected, e)
        if k == "tuple":
            if not e.items:
                return "()", TUnit()
            exp = expected.items if isinstance(expected, TTuple) and len(expected.items) == len(e.items) else [None] * len(e.items)
            parts = [self.expr(x, code, ex) for x, ex in zip(e.items, exp)]
            return "(" + ", ".join(p[0] for p in parts) + ")", TTuple([p[1] for p in parts])
        if k == "struct":
            want = self.spec.get("struct_fields", {}).get(e.name)
            names = [f for f, _ in e.fields]
            if want is None:
                self.err("struct literal `%s {…}`: the spec does not list its fields (`struct_fields`)" % e.name, e)
            if names != list(want):
                self.err("struct literal `%s` has fields %s, the spec (and the theorems) expect %s in this order"
                         % (e.name, ",".join(names), ",".join(want)), e)
            parts = [self.expr(x, code, None) for _, x in e.fields]
            return "(" + ", ".join(p[0] for p in parts) + ")", TTuple([p[1] for p in parts])
        if k == "if":
            return self.if_expr(e, code, expected)
        if k == "range":
            self.err("a range is only translated as the source of a `for` loop or as a slice bound there", e)
        if k == "str":
            self.err("string literal outside `assert!`", e)
        self.err("expression `%s`" % k, e)

    def binary(self, e, code, expected):
        op = e.op
        if op in ("&&", "||"):
            l, lt = self.expr(e.l, code, TBool())
            sub = Code()
            r, rt = self.expr(e.r, sub, TBool())
            if not (isinstance(lt, TBool) and isinstance(rt, TBool)):
                self.err("`%s` on non-boolean operands" % op, e)
            if not sub.items:
                return "%s %s %s" % (atom(l), op, atom(r)), TBool()
            # the right operand may panic: keep the short circuit
            sub.final = ("pure", r)
            t = self.tmp()
            other = Code()
            other.final = ("pure", "false" if op == "&&" else "true")
            if op == "&&":
                code.bind(t, ("if", l, sub, other))
            else:
                code.bind(t, ("if", l, other, sub))
            return t, TBool()
        if op in ("==", "!=", "<", ">", "<=", ">="):
            lt_hint = None
            if self.is_lit(e.l) and not self.is_lit(e.r):
                r, rt = self.expr(e.r, code)
                l, lt = self.expr(e.l, code, rt)
                # keep source order of evaluation irrelevant: a literal has no effects
            else:
                l, lt = self.expr(e.l, code)
                r, rt = self.expr(e.r, code, lt)
            if lt != rt:
                self.err("comparison of %r with %r" % (lt, rt), e)
            if isinstance(lt, TInt) and lt.signed:
                self.err("comparison of signed values (only bit operations are translated on signed types)", e)
            if op in ("==", "!="):
                if not isinstance(lt, (TInt, TBool, TSeq)):
                    self.err("`%s` on %r" % (op, lt), e)
                return "%s %s %s" % (atom(l), op, atom(r)), TBool()
            if not isinstance(lt, TInt):
                self.err("`%s` on %r" % (op, lt), e)
            return "decide (%s %s %s)" % (atom(l), {"<": "<", ">": ">", "<=": "≤", ">=": "≥"}[op], atom(r)), TBool()
        # arithmetic / bit operations
        if op in ("<<", ">>"):
            l, lt = self.expr(e.l, code, expected)
            r, rt = self.expr(e.r, code, TInt("u32") if self.is_lit(e.r) else None)
            if not (isinstance(lt, TInt) and isinstance(rt, TInt)) or lt.signed or rt.signed:
                self.err("shift on %r by %r" % (lt, rt), e)
            t = self.tmp()
            code.bind(t, ("call", "Rs.%s %d %s %s" % ("shl" if op == "<<" else "shr", lt.w, atom(l), atom(r))))
            return t, lt
        if self.is_lit(e.l) and not self.is_lit(e.r):
            r0 = Code()
            _, rt0 = self.expr(e.r, r0, expected)      # type only (dry run on a scratch block, temporaries re-numbered below)
            self.n_tmp -= sum(1 for it in r0.items if it[0] == "bind" and re.fullmatch(r"t\d+", it[1]))
            l, lt = self.expr(e.l, code, rt0)
            r, rt = self.expr(e.r, code, expected)
        else:
            l, lt = self.expr(e.l, code, expected)
            r, rt = self.expr(e.r, code, lt)
        if lt != rt or not isinstance(lt, TInt):
            self.err("`%s` on %r and %r" % (op, lt, rt), e)
        if op in ("&", "|", "^"):
            return "%s %s %s" % (atom(l), {"&": "&&&", "|": "|||", "^": "^^^"}[op], atom(r)), lt
        if lt.signed:
            self.err("arithmetic `%s` on the signed type %r (only bit operations are translated on signed types)" % (op, lt), e)
        if op in ("/", "%") and self.is_lit(e.r) and int(r) != 0:
            return "%s %s %s" % (atom(l), op, r), lt
        t = self.tmp()
        if op == "+":
            code.bind(t, ("call", "Rs.add %d %s %s" % (lt.w, atom(l), atom(r))))
        elif op == "-":
            code.bind(t, ("call", "Rs.sub %s %s" % (atom(l), atom(r))))
        elif op == "*":
            code.bind(t, ("call", "Rs.mul %d %s %s" % (lt.w, atom(l), atom(r))))
        elif op == "/":
            code.bind(t, ("call", "Rs.div %s %s" % (atom(l), atom(r))))
        elif op == "%":
            code.bind(t, ("call", "Rs.rem %s %s" % (atom(l), atom(r))))
        else:
            self.err("operator `%s`" % op, e)
        return t, lt

    def replicate(self, v, n, code, expected, node):
        el_exp = expected.elem if isinstance(expected, TSeq) else None
        vs, vt = self.expr(v, code, el_exp)
        ns, nt = self.expr(n, code, TInt("usize"))
        if nt != TInt("usize"):
            self.err("repeat count of type %r" % (nt,), node)
        return "List.replicate %s %s" % (atom(ns), atom(vs)), TSeq(vt)

    def mcall(self, e, code, expected):
        nm = e.name
        if nm == "len" and not e.args:
            r, t = self.expr(e.recv, code)
            if not isinstance(t, TSeq):
                self.err("`.len()` on %r" % (t,), e)
            return "%s.length" % atom(r), TInt("usize")
        if nm == "collect" and not e.args:
            # repeat(v).take(n).collect()
            r = e.recv
            if (r.kind == "mcall" and r.name == "take" and len(r.args) == 1 and r.recv.kind == "call"
                    and r.recv.path[-1] == "repeat" and len(r.recv.args) == 1):
                return self.replicate(r.recv.args[0], r.args[0], code, expected, e)
            self.err("`.collect()` other than `repeat(v).take(n).collect()`", e)
        if nm in ("wrapping_add", "wrapping_sub", "wrapping_mul") and len(e.args) == 1:
            l, lt = self.expr(e.recv, code, expected)
            r, rt = self.expr(e.args[0], code, lt)
            if lt != rt or not isinstance(lt, TInt) or lt.signed:
                self.err("`%s` on %r and %r" % (nm, lt, rt), e)
            fn = {"wrapping_add": "wrappingAdd", "wrapping_sub": "wrappingSub", "wrapping_mul": "wrappingMul"}[nm]
            return "Rs.%s %d %s %s" % (fn, lt.w, atom(l), atom(r)), lt
        if nm == "wrapping_neg" and not e.args:
            l, lt = self.expr(e.recv, code, expected)
            if not isinstance(lt, TInt):
                self.err("`wrapping_neg` on %r" % (lt,), e)
            return "Rs.wrappingNeg %d %s" % (lt.w, atom(l)), lt
        if nm in ("borrow", "clone", "to_owned") and not e.args and nm == "borrow":
            return self.expr(e.recv, code, expected)
        self.err("method `.%s(…)` is outside the translated subset" % nm, e)

    def call(self, e, code, expected):
        path = "::".join(e.path)
        if path in self.absfns:
            f = self.absfns[path]
            if len(f["args"]) != len(e.args):
                self.err("`%s` called with %d arguments, the spec says %d" % (path, len(e.args), len(f["args"])), e)
            parts = []
            for a, at in zip(e.args, f["args"]):
                want = self.ty_of_text(at)
                s, t = self.expr(a, code, want)
                if t != want:
                    self.err("argument of `%s` has type %r, the spec says %r" % (path, t, want), a)
                parts.append(atom(s))
            if f["lean"] not in self.used_abs:
                self.used_abs.append(f["lean"])
            return (f["lean"] + "".join(" " + p for p in parts)), self.ty_of_text(f["ret"])
        if len(e.path) == 2 and e.path[1] == "from" and e.path[0] in WIDTH and len(e.args) == 1:
            target = TInt(e.path[0])
            s, st = self.expr(e.args[0], code, None)
            if not isinstance(st, TInt) or st.signed or target.signed or st.w > target.w:
                self.err("`%s::from` of %r" % (e.path[0], st), e)
            return s, target
        if len(e.path) == 2 and e.path == ["Vec", "new"] and not e.args:
            if not isinstance(expected, TSeq):
                self.err("`Vec::new()` without a declared element type", e)
            return "[]", expected
        if len(e.path) == 1 and e.path[0] in self.calls:
            f = self.calls[e.path[0]]
            if len(f["args"]) != len(e.args):
                self.err("`%s` called with %d arguments, the spec says %d" % (path, len(e.args), len(f["args"])), e)
            parts = list(f.get("extra", []))
            for a, at in zip(e.args, f["args"]):
                want = self.ty_of_text(at)
                s, t = self.expr(a, code, want)
                if t != want:
                    self.err("argument of `%s` has type %r, the spec says %r" % (path, t, want), a)
                parts.append(atom(s))
            t = self.tmp()
            code.bind(t, ("call", f["lean"] + "".join(" " + p for p in parts)))
            return t, self.ty_of_text(f["ret"])
        self.err("call of `%s` (not declared in the translation spec)" % path, e)

    def macro(self, e, code, expected):
        if e.name == "vec" and e.sep == ";" and len(e.args) == 2:
            return self.replicate(e.args[0], e.args[1], code, expected, e)
        self.err("macro `%s!` in expression position" % e.name, e)

    def if_expr(self, e, code, expected):
        if e.els is None:
            self.err("`if` expression without `else`", e)
        c, ct = self.expr(e.cond, code, TBool())
        if not isinstance(ct, TBool):
            self.err("condition of type %r" % (ct,), e.cond)
        branches = []
        for b in (e.then, e.els):
            if b.stmts or b.tail is None:
                self.err("`if` expression whose branches are not single expressions", b)
            sub = Code()
            s, t = self.expr(b.tail, sub, expected)
            branches.append((sub, s, t))
        (c1, s1, t1), (c2, s2, t2) = branches
        if t1 != t2:
            self.err("`if` expression with branches of type %r and %r" % (t1, t2), e)
        if not c1.items and not c2.items:
            return "if %s then %s else %s" % (c, s1, s2), t1
        c1.final, c2.final = ("pure", s1), ("pure", s2)
        t = self.tmp()
        code.bind(t, ("if", c, c1, c2))
        return t, t1

    # ---------------------------------------------------------------- statements
    def block(self, b, code, ret_ok):
        """translate the statements of `b` into `code`.  Returns the tail (lean text, type) or None.
        `ret_ok`: this block is in tail position of the function (an early `return` can be expressed)."""
        self.scopes.append({})
        try:
            stmts = list(b.stmts)
            for idx, s in enumerate(stmts):
                rest_empty = idx == len(stmts) - 1 and b.tail is None
                self.stmt(s, code, ret_ok and rest_empty)
            if b.tail is not None:
                if b.tail.kind == "if" and self.assigned(b.tail):
                    self.err("`if` in tail position that also assigns variables", b.tail)
                return self.expr(b.tail, code, self.tail_expected)
            return None
        finally:
            self.scopes.pop()

    def stmt(self, s, code, last):
        k = s.kind
        if k in ("blocks", "matchs"):           # (genbits)
            return bits_stmt(self, s, code)
        if k == "let":
            return self.let(s, code)
        if k == "assign":
            return self.assign(s, code)
        if k == "exprs":
            return self.expr_stmt(s.e, code)
        if k == "ifs":
            return self.if_stmt(s.e, code)
        if k == "while":
            return self.while_(s, code)
        if k == "for":
            return self.for_(s, code)
        if k == "return":
            self.err("`return` is only translated as the last statement of the function body", s)
        self.err("statement `%s`" % k, s)

    def declared_type(self, name, ann, node):
        if ann is not None:
            return self.ty(ann)
        if name in self.local_types:
            return self.ty_of_text(self.local_types[name])
        return None

    def let(self, s, code):
        if bits_let(self, s, code):             # (genbits) `let (a, b) = <call returning a tuple>;`
            return
        if s.pat.kind == "ptuple":
            if s.init.kind == "paren":
                s.init = s.init.e
            if s.init.kind != "tuple" or len(s.init.items) != len(s.pat.items) or s.ty is not None:
                self.err("tuple `let` whose right-hand side is not a tuple of the same length", s)
            # Rust evaluates the components left to right, then binds: the names on the left must not occur on the right
            names = pat_names(s.pat)
            for nm in self.reads(s.init):
                if nm in names:
                    self.err("tuple `let` that reads `%s` on its right-hand side" % nm, s)
            for p, e in zip(s.pat.items, s.init.items):
                if p.kind != "pid":
                    self.err("nested tuple pattern", p)
                self.let(N("let", s.pos, pat=p, ty=None, init=e), code)
            return
        name = s.pat.name
        want = self.declared_type(name, s.ty, s)
        val, t = self.expr(s.init, code, want)
        if want is not None and t != want:
            self.err("`let %s`: initialiser has type %r, declared %r" % (name, t, want), s)
        v = self.declare(name, t, s, mutable=s.pat.mut)
        if v.lean != "_":
            code.let(v.lean, val)

    def assign(self, s, code):
        lhs = s.lhs
        while lhs.kind == "paren":
            lhs = lhs.e
        if lhs.kind == "un" and lhs.op == "*":
            if lhs.e.kind != "var":
                self.err("`*e = …` where e is not a variable", s)
            v = self.lookup(lhs.e.name, lhs)
            if not v.ref_elem:
                self.err("`*%s = …` where `%s` is not the loop variable of an `iter_mut()` loop" % (v.rust, v.rust), s)
            rhs = s.rhs if s.op is None else N("bin", s.pos, op=s.op, l=N("var", s.pos, name=v.rust), r=s.rhs)
            val, t = self.expr(rhs, code, v.ty)
            if t != v.ty:
                self.err("assignment of %r to `*%s` : %r" % (t, v.rust, v.ty), s)
            code.let(v.lean, val)
            return
        if lhs.kind in ("var", "field"):
            name = lhs.name if lhs.kind == "var" else self._lhs_root(lhs)
            v = self.lookup(name, lhs)
            rhs = s.rhs if s.op is None else N("bin", s.pos, op=s.op, l=lhs, r=s.rhs)
            val, t = self.expr(rhs, code, v.ty)
            if t != v.ty:
                self.err("assignment of %r to `%s` : %r" % (t, name, v.ty), s)
            code.let(v.lean, val)
            return
        if lhs.kind == "index":
            root = self._lhs_root(lhs.base)
            if lhs.base.kind not in ("var", "field"):
                self.err("assignment to a nested element `v[i][j]`", s)
            v = self.lookup(root, lhs)
            if not isinstance(v.ty, TSeq):
                self.err("element assignment into %r" % (v.ty,), s)
            # Rust evaluates the right-hand side of `v[i] = e` before the index expression; both are effect-free apart from
            # panics, and any panic aborts the function, so the order of the binds does not matter for the result
            if s.op is None:
                val, t = self.expr(s.rhs, code, v.ty.elem)
                i, it = self.expr(lhs.idx, code, TInt("usize"))
            else:
                i, it = self.expr(lhs.idx, code, TInt("usize"))
                if not re.fullmatch(r"[\w.']+", i):
                    ti = self.tmp()
                    code.let(ti, i)
                    i = ti
                old = self.tmp()
                code.bind(old, ("call", "Rs.idx %s %s" % (atom(v.lean), atom(i))))
                self.scopes.append({"%old": Var("%old", old, v.ty.elem)})
                try:
                    val, t = self.expr(N("bin", s.pos, op=s.op, l=N("var", s.pos, name="%old"), r=s.rhs), code, v.ty.elem)
                finally:
                    self.scopes.pop()
            if it != TInt("usize"):
                self.err("index of type %r" % (it,), lhs.idx)
            if t != v.ty.elem:
                self.err("assignment of %r to an element of `%s` : %r" % (t, root, v.ty), s)
            code.bind(v.lean, ("call", "Rs.setIdx %s %s %s" % (atom(v.lean), atom(i), atom(val))))
            return
        self.err("assignment target", s)

    def expr_stmt(self, e, code):
        if bits_expr_stmt(self, e, code):       # (genbits) `self.m(..);`, `v.clear();`, `v.resize(n, x);`, `m.insert(k, v);`
            return
        if e.kind == "macro" and e.name in ("assert", "debug_assert") and len(e.args) >= 1:
            c, t = self.expr(e.args[0], code, TBool())
            if not isinstance(t, TBool):
                self.err("`assert!` of a non-boolean", e)
            for x in e.args[1:]:
                if x.kind != "str":
                    self.err("`assert!` with format arguments", e)
            code.bind("_", ("call", "Rs.assert %s" % atom(c)))
            return
        if e.kind == "macro" and e.name in ("assert_eq", "debug_assert_eq") and len(e.args) >= 2:
            cmp_ = N("bin", e.pos, op="==", l=e.args[0], r=e.args[1])
            c, t = self.expr(cmp_, code, TBool())
            for x in e.args[2:]:
                if x.kind != "str":
                    self.err("`assert_eq!` with format arguments", e)
            code.bind("_", ("call", "Rs.assert %s" % atom(c)))
            return
        if e.kind == "mcall" and e.name == "push" and len(e.args) == 1:
            root = self._lhs_root(e.recv)
            v = self.lookup(root, e)
            if not isinstance(v.ty, TSeq):
                self.err("`.push` on %r" % (v.ty,), e)
            val, t = self.expr(e.args[0], code, v.ty.elem)
            if t != v.ty.elem:
                self.err("`.push` of %r onto %r" % (t, v.ty), e)
            code.let(v.lean, "%s ++ [%s]" % (v.lean, val))
            return
        self.err("expression statement outside the translated subset (only `assert!`, `assert_eq!`, `v.push(e)`)", e)

    def unit_block(self, b):
        """a block used as a statement (loop body): a trailing `if … {…} else {…}` without `;` is a statement, any other
        trailing expression would be a discarded value"""
        if b.tail is None:
            return b
        if b.tail.kind == "if":
            return N("block", b.pos, stmts=b.stmts + [N("ifs", b.tail.pos, e=b.tail)], tail=None)
        self.err("value of the block is discarded", b.tail)

    def outer_vars(self, names, node):
        vs = []
        for nm in names:
            if nm.startswith("*"):
                self.err("`%s = …` outside an `iter_mut()` loop" % nm, node)
            vs.append(self.lookup(nm, node))
        return vs

    def if_stmt(self, e, code):
        vs = self.outer_vars(sel_canon(self, self.assigned(e)), e)
        c, ct = self.expr(e.cond, code, TBool())
        if not isinstance(ct, TBool):
            self.err("condition of type %r" % (ct,), e.cond)
        saved_tail = self.tail_expected
        self.tail_expected = None
        subs = []
        for b in (e.then, e.els):
            sub = Code()
            if b is not None:
                if b.tail is not None and not (b.tail.kind == "if"):
                    self.err("value of the `if` branch is discarded", b.tail)
                if b.tail is not None:
                    b = N("block", b.pos, stmts=b.stmts + [N("ifs", b.tail.pos, e=b.tail)], tail=None)
                self.block(b, sub, False)
            sub.final = ("pure", tuple_val([v.lean for v in vs]))
            subs.append(sub)
        self.tail_expected = saved_tail
        code.bind(tuple_pat([v.lean for v in vs]), ("if", c, subs[0], subs[1]))

    def captured(self, node, state_names, local_names):
        """lean parameters (name, type) a loop helper needs: variables read in `node` that are neither loop state nor
        bound by the loop itself — in order of first occurrence in the text"""
        caps = []
        for nm in self.reads(node):
            if nm in state_names or nm in local_names or nm == "self" or nm == "%old":
                continue
            found = None
            for sc in reversed(self.scopes):
                if nm in sc:
                    found = sc[nm]
                    break
            if found is None:
                continue      # declared inside the loop body
            if found not in caps:
                caps.append(found)
        return caps

    def helper_header(self, name, caps):
        params = "".join(" (%s : %s)" % (v.lean, v.ty.lean()) for v in caps)
        absf = "".join(" (%s : %s)" % (f, self.abs_sig(f)) for f in self.absfn_params())
        return "def %s%s%s" % (name, absf, params)

    def absfn_params(self):
        """abstract function parameters: all those the spec declares for this function (stable signature)"""
        return [f["lean"] for f in self.absfns.values() if not f.get("is_value")] + \
               [f["lean"] for f in self.absfns.values() if f.get("is_value")]

    def abs_sig(self, lean):
        for f in self.absfns.values():
            if f["lean"] == lean:
                tys = [self.ty_of_text(a).lean() for a in f["args"]] + [self.ty_of_text(f["ret"]).lean()]
                if f.get("monadic"):           # (genbits) an abstract function that may panic
                    tys[-1] = "Res " + paren_ty(tys[-1])
                return " → ".join(paren_ty(t) if "→" in t else t for t in tys)
        raise KeyError(lean)

    def abs_args(self):
        return "".join(" " + f for f in self.absfn_params())

    def while_(self, s, code):
        self.n_while += 1
        k = self.n_while
        name = "%s_while%d" % (self.lean_fn, k)
        if k > len(self.fuels):
            self.err("`while` loop number %d has no fuel expression in the translation spec" % k, s)
        fuel = self.fuels[k - 1]
        state = self.outer_vars(self.assigned(s.body), s)
        state_names = [v.rust for v in state]
        caps = self.captured(N("x", s.pos, a=s.cond, b=s.body), state_names, [])
        # the helper
        saved_scopes, saved_tail = self.scopes, self.tail_expected
        self.tail_expected = None
        self.scopes = [dict((v.rust, Var(v.rust, v.lean, v.ty)) for v in caps + state)]
        self.loop_depth += 1
        try:
            body = Code()
            c, ct = self.expr(s.cond, body, TBool())
            if not isinstance(ct, TBool):
                self.err("condition of type %r" % (ct,), s.cond)
            th = Code()
            self.block(self.unit_block(s.body), th, False)
            th.final = ("call", "%s%s%s fuel %s" % (name, self.abs_args(), "".join(" " + v.lean for v in caps),
                                                   tuple_val([v.lean for v in state])))
            el = Code()
            el.final = ("pure", tuple_val([v.lean for v in state]))
            body.final = ("if", c, th, el)
        finally:
            self.scopes, self.tail_expected = saved_scopes, saved_tail
            self.loop_depth -= 1
        st_ty = tuple_ty([v.ty for v in state])
        lines = ["/-- `while %s` (line %d); fuel: `%s` -/" % (self.src_text(s.cond), self.src.line_of(s.pos), fuel),
                 "%s : Nat → %s → Res %s" % (self.helper_header(name, caps), paren_ty(st_ty), paren_ty(st_ty)),
                 "  | 0, _ => Res.fuel",
                 "  | fuel + 1, %s => do" % tuple_pat([v.lean for v in state])]
        emit_code(body, 4, lines)
        self.helpers.append("\n".join(lines))
        # the call; the fuel expression is a Lean expression over the variables in scope
        for nm in re.findall(r"[A-Za-z_][\w.']*", fuel):
            if nm.split(".")[0] not in [v.lean for sc in self.scopes for v in sc.values()] and not nm[0].isupper() \
                    and nm.split(".")[0] not in ("length",):
                self.err("fuel expression `%s` of `while` loop %d mentions `%s`, which is not a variable in scope" % (fuel, k, nm), s)
        code.bind(tuple_pat([v.lean for v in state]),
                  ("call", "%s%s%s %s %s" % (name, self.abs_args(), "".join(" " + v.lean for v in caps), atom(fuel),
                                            tuple_val([v.lean for v in state]))))

    def src_text(self, node_or_none, end=None):
        """one-line source text starting at a node (up to the `{` of the loop), for doc comments"""
        p = node_or_none.pos - self.body_pos
        # the condition's first token may not be its left-most one (binary operators are positioned at the operator)
        p = leftmost(node_or_none) - self.body_pos
        q = self.body_text.find("{", p)
        txt = " ".join(self.body_text[p:q].split())
        return txt.replace("-/", "- /").replace("/-", "/ -")

    def for_(self, s, code):
        self.n_for += 1
        name = "%s_for%d" % (self.lean_fn, self.n_for)
        it, rev = s.iter, False
        while it.kind == "paren":
            it = it.e
        it, bits_wrap = bits_iter_adaptors(self, it, code)      # (genbits) `.step_by(k)`, `.take(n)`
        if it.kind == "mcall" and it.name == "rev" and not it.args:
            rev, it = True, it.recv
            while it.kind == "paren":
                it = it.e
        enum = False
        if it.kind == "mcall" and it.name == "enumerate" and not it.args:
            if rev:
                self.err("`.enumerate().rev()`", s)
            enum, it = True, it.recv
        it_mut = False
        if it.kind == "mcall" and it.name in ("iter", "iter_mut", "into_iter") and not it.args:
            it_mut = it.name == "iter_mut"
            it = it.recv
        elif enum:
            self.err("`.enumerate()` on something other than `.iter()`", s)
        while it.kind == "paren" or (it.kind == "un" and it.op == "&"):
            it = it.e
        if it_mut and (enum or rev):
            self.err("`iter_mut()` combined with `.enumerate()` / `.rev()`", s)
        # --- the list iterated over, and the loop variables
        loopvars = []           # (rust name, lean name, type, ref_elem)
        seq_var = None
        if it.kind == "range":
            if enum or it.lo is None or it.hi is None:
                self.err("range without both bounds as a loop source", s)
            if s.pat.kind != "pid":
                self.err("pattern of a range loop", s.pat)
            want = self.declared_type(s.pat.name, None, s)
            if self.is_lit(it.lo) and not self.is_lit(it.hi):
                hi, ht = self.expr(it.hi, code, want)
                lo, lt = self.expr(it.lo, code, ht)
            else:
                lo, lt = self.expr(it.lo, code, want)
                hi, ht = self.expr(it.hi, code, lt)
            if lt != ht or not isinstance(lt, TInt) or lt.signed:
                self.err("range bounds of type %r and %r" % (lt, ht), s)
            if it.incl:
                lst = "List.range' %s (%s + 1 - %s)" % (atom(lo), atom(hi), atom(lo))
            else:
                lst = "List.range' %s (%s - %s)" % (atom(lo), atom(hi), atom(lo))
            loopvars = [(s.pat.name, lt, False)]
            lam_pat = None
        else:
            # a sequence: variable, self field, or a sub-slice of one
            if it.kind == "index" and it.idx.kind == "range":
                if it_mut:
                    self.err("`iter_mut()` over a sub-slice", s)
                base, bt = self.expr(it.base, code)
                if not isinstance(bt, TSeq):
                    self.err("slice of %r" % (bt,), s)
                r = it.idx
                if r.incl:
                    self.err("inclusive slice bounds", s)
                lo = "0" if r.lo is None else self.expr(r.lo, code, TInt("usize"))[0]
                hi = ("%s.length" % atom(base)) if r.hi is None else self.expr(r.hi, code, TInt("usize"))[0]
                if r.lo is None and r.hi is None:
                    lst, st = base, bt
                else:
                    t = self.tmp()
                    code.bind(t, ("call", "Rs.slice %s %s %s" % (atom(base), atom(lo), atom(hi))))
                    lst, st = t, bt
            else:
                if it.kind not in ("var", "field"):
                    self.err("loop source is not a range, a variable, `self.f` or a sub-slice of one", s)
                lst, st = self.expr(it, code)
                if not isinstance(st, TSeq):
                    self.err("`for` over a value of type %r" % (st,), s)
                seq_var = self.lookup(self._lhs_root(it), it)
            if enum:
                if s.pat.kind != "ptuple" or len(s.pat.items) != 2 or any(p.kind != "pid" for p in s.pat.items):
                    self.err("pattern of an `.enumerate()` loop must be `(j, x)` or `(j, &x)`", s.pat)
                loopvars = [(s.pat.items[1].name, st.elem, False), (s.pat.items[0].name, TInt("usize"), False)]
                lst = "%s.zipIdx" % atom(lst)
            else:
                if s.pat.kind != "pid":
                    self.err("pattern of a loop over a sequence", s.pat)
                loopvars = [(s.pat.name, st.elem, it_mut)]
            if rev:
                lst = "%s.reverse" % atom(lst)
        if rev and it.kind == "range":
            lst = "(%s).reverse" % lst
        lst = bits_wrap(lst)
        # --- state and captured variables
        loop_names = [lv[0] for lv in loopvars]
        assigned = self.assigned(N("for", s.pos, pat=s.pat, iter=s.iter, body=s.body))
        if it_mut:
            # the sequence is rebuilt element by element: state gets an accumulator `<seq>'` for the new prefix
            if seq_var is None:
                self.err("`iter_mut()` over something other than a variable", s)
            assigned = [a for a in assigned if a != seq_var.rust]
            if seq_var.rust in self.reads(s.body):
                self.err("the body of an `iter_mut()` loop reads the sequence itself", s)
        state = self.outer_vars(sel_canon(self, assigned), s)
        state_names = [v.rust for v in state]
        caps = self.captured(s.body, state_names, loop_names)
        if it_mut and seq_var in caps:
            caps.remove(seq_var)
        saved_scopes, saved_tail = self.scopes, self.tail_expected
        self.tail_expected = None
        self.scopes = [dict((v.rust, Var(v.rust, v.lean, v.ty)) for v in caps + state)]
        lvs = []
        for nm, t, ref in loopvars:
            for sc in saved_scopes:
                if nm in sc and nm != "_" and not self.spec.get("loop_shadow_ok"):
                    self.err("loop variable `%s` shadows a variable of an enclosing block (not translated)" % nm, s)
            lvs.append(self.declare(nm, t, s, mutable=False, ref_elem=ref, nested_ok=True))
        self.loop_depth += 1
        acc = None
        try:
            body = Code()
            self.block(self.unit_block(s.body), body, False)
            st_names = [v.lean for v in state]
            if it_mut:
                acc = seq_var.lean + "'"
                body.final = ("pure", tuple_val(st_names + ["%s ++ [%s]" % (acc, lvs[0].lean)]))
                st_names_in = st_names + [acc]
                st_tys = [v.ty for v in state] + [seq_var.ty]
            else:
                body.final = ("pure", tuple_val(st_names))
                st_names_in = st_names
                st_tys = [v.ty for v in state]
        finally:
            self.scopes, self.tail_expected = saved_scopes, saved_tail
            self.loop_depth -= 1
        st_ty = tuple_ty(st_tys)
        el_ty = tuple_ty([v.ty for v in lvs])
        lines = ["/-- body of `for %s` (line %d) -/" % (self.src_text(s.pat if False else s, None)[4:].strip(), self.src.line_of(s.pos)),
                 "%s : %s → %s → Res %s" % (self.helper_header(name, caps), paren_ty(st_ty), paren_ty(el_ty), paren_ty(st_ty)),
                 "  | %s, %s => do" % (tuple_pat(st_names_in), tuple_pat([v.lean for v in lvs]))]
        emit_code(body, 4, lines)
        self.helpers.append("\n".join(lines))
        init = tuple_val([v.lean for v in state] + (["[]"] if it_mut else []))
        out_pat = tuple_pat([v.lean for v in state] + ([seq_var.lean] if it_mut else []))
        code.bind(out_pat, ("call", "%s.foldlM %s %s" % (atom(lst), atom(name + self.abs_args() + "".join(" " + v.lean for v in caps)), init)))

    # ---------------------------------------------------------------- the function
    def translate(self, toks):
        p = Parser(toks)
        body = p.body()
        sp = self.spec
        params = []      # Var
        self.scopes = [{}]
        for nm, ty in sp.get("self_fields", []):
            t = self.ty_of_text(ty)
            v = Var("self." + nm, lean_name(nm), t)
            self.scopes[0]["self." + nm] = v
            params.append(v)
        for nm, ty in sp["params"]:
            t = self.ty_of_text(ty)
            v = Var(nm, self.fresh_lean(nm), t)
            self.scopes[0][nm] = v
            params.append(v)
        ret = self.ty_of_text(sp["ret"]) if sp.get("ret") else TUnit()
        self.tail_expected = ret
        code = Code()
        # self fields assigned by the body are returned (in spec order), before the declared return value
        # ... and so are `&mut` parameters the body writes to (after the fields, in parameter order)
        all_assigned = self.assigned(body)
        mut_params = [nm for nm, ty in sp["params"] if ty.replace(" ", "").startswith("&mut")]
        assigned_self = [a for a in all_assigned if a.startswith("self.") or a in mut_params]
        ret_fields = [v for v in params if v.rust in assigned_self]
        self.ret, self.ret_fields = ret, ret_fields
        self.scopes.append({})
        out_tys = self.seq(body.stmts, body.tail, code, body)
        self.scopes.pop()
        absf = "".join(" (%s : %s)" % (f, self.abs_sig(f)) for f in self.absfn_params())
        sig = "def %s%s%s : Res %s :=" % (self.lean_fn, absf,
                                         "".join(" (%s : %s)" % (v.lean, v.ty.lean()) for v in params),
                                         paren_ty(tuple_ty(out_tys)))
        lines = [sig + " do"]
        emit_code(code, 2, lines)
        # fewer `while` loops than fuel expressions: the text changed shape; the translation is still determined (the
        # surplus expressions are unused), the equality theorem decides.  More loops than expressions was an error above.
        return self.helpers, "\n".join(lines), [v for v in ret_fields], None

    def seq(self, stmts, tail_node, code, where):
        """the statements of the function body (or of the rest of it after an early `return`): sets `code.final`,
        returns the types of the returned tuple.  An early return `if c { …; return e; }` at this level becomes
        `if c then do …; pure e else do <rest of the function>`; a `return` anywhere else (in a loop, in a nested `if`
        with an `else`) is refused by `stmt`."""
        for idx, st in enumerate(stmts):
            if sel_is_jump_loop(self, st):      # (gensel) a `for` loop that contains a `return`
                return sel_seq_fn(self, stmts[idx:], tail_node, code, where)
            if st.kind == "return":
                if idx != len(stmts) - 1 or tail_node is not None:
                    self.err("statements after `return`", st)
                return self.finish(st.e, code, st)
            if st.kind == "ifs" and st.e.els is None and st.e.then.tail is None and st.e.then.stmts \
                    and st.e.then.stmts[-1].kind == "return":
                e = st.e
                c, ct = self.expr(e.cond, code, TBool())
                if not isinstance(ct, TBool):
                    self.err("condition of type %r" % (ct,), e.cond)
                th = Code()
                self.scopes.append({})
                tys1 = self.seq(e.then.stmts, None, th, e.then)
                self.scopes.pop()
                el = Code()
                tys2 = self.seq(stmts[idx + 1:], tail_node, el, where)
                if tys1 != tys2:
                    self.err("early `return` of type %r, the function returns %r" % (tys1, tys2), st)
                code.final = ("if", c, th, el)
                return tys2
            self.stmt(st, code, False)
        return self.finish(tail_node, code, where)

    def finish(self, e, code, where):
        ret, ret_fields = self.ret, self.ret_fields
        e = bits_finish_tail(self, e, code)     # (genbits) a unit-typed `match` in tail position is a statement
        outs, out_tys = [self.lookup(v.rust, where).lean for v in ret_fields], [v.ty for v in ret_fields]
        if e is not None:
            if isinstance(ret, TUnit):
                self.err("the function returns a value but the spec declares no return type", e)
            val, t = self.expr(e, code, ret)
            if not ty_compatible(t, ret):
                self.err("the returned expression has type %r, the spec declares %r" % (t, ret), e)
            outs.append(val)
            out_tys.append(t)
        elif not isinstance(ret, TUnit):
            self.err("the spec declares the return type %r but the function body ends without a value" % (ret,), where)
        code.final = ("pure", tuple_val(outs))
        return out_tys


def ty_compatible(a, b):
    return a == b


def leftmost(n):
    """smallest source position of a node and its children"""
    best = [n.pos]

    def walk(x):
        if isinstance(x, N):
            best[0] = min(best[0], x.pos)
            for k, v in x.__dict__.items():
                if k not in ("kind", "pos"):
                    walk(v)
        elif isinstance(x, (list, tuple)):
            for y in x:
                walk(y)
    walk(n)
    return best[0]


def pat_names(p):
    if p.kind == "pid":
        return [p.name]
    out = []
    for x in p.items:
        out += pat_names(x)
    return out


def iter_mut_target(it):
    """the sequence expression of `seq.iter_mut()`, or None"""
    while it.kind == "paren":
        it = it.e
    if it.kind == "mcall" and it.name == "iter_mut" and not it.args:
        return it.recv
    return None


def lean_name(rust):
    nm = rust.split(".")[-1]
    if nm in LEAN_KEYWORDS:
        return nm + "_"
    return nm


# ================================================================================================== genbits extensions
# (session 4, builder genbits: bit-packed containers C17/C18).  Additional constructs, hooked into the classes above
# through the `bits_*` calls: `Option<T>` (`None`, `Some(e)`), `BTreeMap<K, V>` (association list, `Rs.mapInsert/mapGet`),
# calls of other methods of the same `impl` (`self.m(..)`; spec `self_calls`: which fields the callee takes and which it
# returns), `let (a, b) = <call>;`, block statements `{ … }` (own `do` block), `if` expressions whose branches are blocks
# with statements, `match` on an `Option` (patterns `Some(x)`, `None`, `_`, guards; statement or value), struct literals
# with field types from the spec (`struct_field_types`), `v.clear()`, `v.resize(n, x)`, `m.insert(k, v)`,
# `m.get(&k).cloned()`, loop sources `(a..b).step_by(k).take(n)`, comparisons on generic types through abstract
# functions (`ops`), `x.count_ones()`, `cmp::min`, `x.saturating_sub(y)`, `o.unwrap()`, `o.map(|x| e)`.

class TOpt(Ty):
    def __init__(self, elem):
        self.elem = elem

    def lean(self):
        return "Option " + paren_ty(self.elem.lean())

    def __eq__(self, o):
        return isinstance(o, TOpt) and o.elem == self.elem

    def __repr__(self):
        return "Option<%r>" % (self.elem,)


class TMap(Ty):
    def __init__(self, k, v):
        self.k, self.v = k, v

    def lean(self):
        return "List (%s × %s)" % (self.k.lean(), self.v.lean())

    def __eq__(self, o):
        return isinstance(o, TMap) and o.k == self.k and o.v == self.v

    def __repr__(self):
        return "BTreeMap<%r, %r>" % (self.k, self.v)


def bits_ty(tr, t):
    if t.kind == "tname":
        if t.name in tr.generics and t.args and t.name in tr.unit.get("abstract_types", []):
            return TAbs(t.name, tr.generics[t.name])      # `BitVec<u8>`: an abstract type whatever its arguments
        if t.name == "Option" and len(t.args) == 1:
            return TOpt(tr.ty(t.args[0]))
        if t.name == "BTreeMap" and len(t.args) == 2:
            return TMap(tr.ty(t.args[0]), tr.ty(t.args[1]))
    return None


def bits_self_calls(tr):
    d = dict(tr.unit.get("self_calls", {}))
    d.update(tr.spec.get("self_calls", {}))
    return d


def bits_is_self_call(tr, e):
    return (e.kind == "mcall" and e.recv.kind == "var" and e.recv.name == "self" and e.name in bits_self_calls(tr))


def bits_walk(n, f):
    if isinstance(n, N):
        f(n)
        for k, v in n.__dict__.items():
            if k not in ("kind", "pos"):
                bits_walk(v, f)
    elif isinstance(n, (list, tuple)):
        for x in n:
            bits_walk(x, f)


# ---------------------------------------------------------------- parsing

def bits_parse_stmt(p, x):
    if x.kind == "op" and x.text == "{":
        b = p.block()
        if p.at(";"):
            p.next()
        return N("blocks", x.pos, b=b)
    if x.kind == "id" and x.text == "match":
        m = bits_parse_match(p)
        if p.at(";"):
            p.next()
            return N("matchs", x.pos, e=m)
        if p.at("}") or p.peek().kind == "eof":
            return N("tail", x.pos, e=m)
        return N("matchs", x.pos, e=m)
    return None


def bits_parse_primary(p, no_struct):
    x = p.peek()
    if x.kind == "op" and x.text == "(":
        r = bits_parse_ceil8(p)
        if r is not None:
            return r
    if x.kind == "id" and x.text == "match":
        return bits_parse_match(p)
    if x.kind == "id" and x.text == "size_of" and p.at("::", 1) and p.at("<", 2) and p.peek(3).kind == "id" \
            and p.at(">", 4) and p.at("(", 5) and p.at(")", 6):
        # `size_of::<T>()`: a named abstract constant (`size_of::<T>` must be declared in the spec)
        for _ in range(3):
            p.next()
        t = p.next().text
        for _ in range(3):
            p.next()
        return N("call", x.pos, path=["size_of::<%s>" % t], args=[])
    return None


def bits_parse_pat(p):
    x = p.peek()
    if x.kind == "op" and x.text == "&":
        p.next()
        return bits_parse_pat(p)
    if x.kind == "id" and x.text not in ("mut", "ref", "box"):
        path = [p.next().text]
        while p.at("::"):
            p.next()
            path.append(p.ident().text)
        if p.at("("):
            p.next()
            args = []
            while not p.at(")"):
                args.append(bits_parse_pat(p))
                if p.at(","):
                    p.next()
                elif not p.at(")"):
                    raise Unsupported("pattern", p.peek().pos)
            p.expect(")")
            return N("pctor", x.pos, name="::".join(path), args=args)
        if len(path) > 1 or path[0] == "None":
            return N("pctor", x.pos, name="::".join(path), args=[])
        if p.at("{") or p.at("@"):
            raise Unsupported("pattern `%s …`" % x.text, x.pos)
        return N("pid", x.pos, name=path[0], mut=False)
    return p.pattern()


def bits_parse_match(p):
    x = p.expect("match")
    scrut = p.expr(no_struct=True)
    p.expect("{")
    arms = []
    while not p.at("}"):
        if p.peek().kind == "eof":
            raise Unsupported("unbalanced `match`", x.pos)
        pats = [bits_parse_pat(p)]
        while p.at("|"):
            p.next()
            pats.append(bits_parse_pat(p))
        guard = None
        if p.at("if"):
            p.next()
            guard = p.expr(no_struct=True)
        p.expect("=>")
        if p.at("{"):
            body = p.block()
            if p.at(","):
                p.next()
        else:
            y = p.peek()
            e = p.expr()
            if p.peek().kind == "op" and p.peek().text in ASSIGN_OPS:
                op = p.next()
                r = p.expr()
                body = N("block", y.pos, stmts=[N("assign", y.pos, lhs=e, op=ASSIGN_OPS[op.text], rhs=r)], tail=None)
            else:
                body = N("block", y.pos, stmts=[], tail=e)
            if p.at(","):
                p.next()
            elif not p.at("}"):
                raise Unsupported("`match` arm", p.peek().pos)
        arms.append(N("arm", pats[0].pos, pats=pats, guard=guard, body=body))
    p.expect("}")
    return N("match", x.pos, scrut=scrut, arms=arms)


# ---------------------------------------------------------------- emission

def bits_emit_m(prefix, m, ind, out):
    if m[0] == "do":
        out.append(prefix + "do")
        emit_code(m[1], ind + 4, out)
        return
    _, scrut, alts = m
    out.append("%smatch %s with" % (prefix, scrut))
    for pat, c in alts:
        out.append(" " * (ind + 2) + "| %s => do" % pat)
        emit_code(c, ind + 6, out)


# ---------------------------------------------------------------- variable analysis

BITS_MUT_METHODS = ("clear", "resize", "insert", "remove")


def bits_assigned(tr, n, decl, out):
    k = n.kind
    if sel_assigned(tr, n, decl, out):          # (gensel) `x.set_bit(..)`, calls with `&mut` arguments
        return True
    if k == "blocks":
        tr._assigned(n.b, decl, out)
        return True
    if k in ("matchs",):
        tr._assigned(n.e, decl, out)
        return True
    if k == "match":
        bits_scan_self_calls(tr, n.scrut, decl, out)
        for a in n.arms:
            d = set(decl)
            for pt in a.pats:
                d |= set(bits_pat_names(pt))
            tr._assigned(a.body, d, out)
        return True
    if k in ("let", "assign", "exprs", "ifs", "while", "for", "return"):
        # calls of `&mut self` methods anywhere in the statement's own expressions
        if k == "let":
            bits_scan_self_calls(tr, n.init, decl, out)
        elif k == "assign":
            bits_scan_self_calls(tr, n.rhs, decl, out)
        elif k == "exprs":
            bits_scan_self_calls(tr, n.e, decl, out)
            e = n.e
            if e.kind == "mcall" and e.name in BITS_MUT_METHODS and not bits_is_self_call(tr, e):
                r = tr._lhs_root(e.recv)
                if r not in decl and r not in out:
                    out.append(r)
                return True
        elif k == "ifs":
            bits_scan_self_calls(tr, n.e.cond, decl, out)
        elif k == "return" and n.e is not None:
            bits_scan_self_calls(tr, n.e, decl, out)
    if k == "if":
        bits_scan_self_calls(tr, n.cond, decl, out)
    return False


def bits_scan_self_calls(tr, e, decl, out):
    sc = bits_self_calls(tr)

    def f(x):
        if x.kind in ("block", "if", "match"):
            return
        if bits_is_self_call(tr, x):
            for m in sc[x.name].get("muts", []):
                r = "self." + m
                if r not in decl and r not in out:
                    out.append(r)
    # only the expression itself, not nested statement blocks (they are visited by `_assigned`)
    def walk(x):
        if isinstance(x, N):
            if x.kind in ("block",):
                return
            f(x)
            for k, v in x.__dict__.items():
                if k not in ("kind", "pos"):
                    walk(v)
        elif isinstance(x, (list, tuple)):
            for y in x:
                walk(y)
    walk(e)


def bits_pat_names(pt):
    if pt.kind == "pid":
        return [pt.name] if pt.name != "_" else []
    if pt.kind == "pctor":
        return [nm for a in pt.args for nm in bits_pat_names(a)]
    if pt.kind == "ptuple":
        return [nm for a in pt.items for nm in bits_pat_names(a)]
    return []


def bits_reads(tr, n, out):
    sel_reads(tr, n, out)                      # (gensel) variables passed implicitly (`extra`) to a `mut_calls` callee
    if bits_is_self_call(tr, n):
        f = bits_self_calls(tr)[n.name]
        for fld in list(f.get("fields", [])) + list(f.get("muts", [])):
            nm = "self." + fld
            if nm not in out:
                out.append(nm)


# ---------------------------------------------------------------- expressions

def bits_declared(tr, name):
    return any(name in sc for sc in tr.scopes)


def bits_self_call(tr, e, code):
    """`self.m(args)`: returns (lean text of the returned value or None, type or None)"""
    f = bits_self_calls(tr)[e.name]
    if len(f["args"]) != len(e.args):
        tr.err("`self.%s` called with %d arguments, the spec says %d" % (e.name, len(e.args), len(f["args"])), e)
    parts = [tr.lookup("self." + fld, e).lean for fld in f.get("fields", [])]
    for a, at in zip(e.args, f["args"]):
        want = tr.ty_of_text(at)
        s, t = tr.expr(a, code, want)
        if t != want:
            tr.err("argument of `self.%s` has type %r, the spec says %r" % (e.name, t, want), a)
        parts.append(atom(s))
    outs = [tr.lookup("self." + m, e).lean for m in f.get("muts", [])]
    ret = tr.ty_of_text(f["ret"]) if f.get("ret") else None
    absf = tr.abs_args() if f.get("abs") else ""
    call = f["lean"] + absf + "".join(" " + p for p in parts)
    if ret is None:
        code.bind(tuple_pat(outs), ("call", call))
        return None, None
    t = tr.tmp()
    code.bind(tuple_pat(outs + [t]), ("call", call))
    return t, ret


def bits_expr(tr, e, code, expected):
    k = e.kind
    r = bits_expr2(tr, e, code, expected)
    if r is not None:
        return r
    if k == "var" and e.name == "None" and not bits_declared(tr, "None"):
        if not isinstance(expected, TOpt):
            tr.err("the type of `None` cannot be read off the text", e)
        return "none", expected
    if k == "call" and e.path == ["Some"] and len(e.args) == 1:
        s, t = tr.expr(e.args[0], code, expected.elem if isinstance(expected, TOpt) else None)
        return "some %s" % atom(s), TOpt(t)
    if bits_is_self_call(tr, e):
        s, t = bits_self_call(tr, e, code)
        if t is None:
            tr.err("`self.%s(..)` returns no value" % e.name, e)
        return s, t
    if k == "struct" and e.name in tr.spec.get("struct_field_types", {}):
        want = tr.spec.get("struct_fields", {}).get(e.name)
        names = [f for f, _ in e.fields]
        if want is None or sorted(names) != sorted(want):
            tr.err("struct literal `%s` has fields %s, the spec (and the theorems) expect %s"
                   % (e.name, ",".join(names), ",".join(want or [])), e)
        tys = tr.spec["struct_field_types"][e.name]
        vals = {}
        for fn_, x in e.fields:                       # evaluated in source order, returned in spec order
            wt = tr.ty_of_text(tys[fn_])
            s, t = tr.expr(x, code, wt)
            if t != wt:
                tr.err("field `%s` of `%s` has type %r, the spec says %r" % (fn_, e.name, t, wt), x)
            if not re.fullmatch(r"[\w.']+|\[\]", s):
                tv = tr.tmp()
                code.let(tv, s)
                s = tv
            vals[fn_] = (s, t)
        return "(" + ", ".join(vals[f][0] for f in want) + ")", TTuple([vals[f][1] for f in want])
    if k == "if" and e.els is not None and (e.then.stmts or e.els.stmts or
                                            (e.els.tail is not None and e.els.tail.kind == "if" and bits_if_has_stmts(e.els.tail))):
        return bits_if_expr(tr, e, code, expected)
    if k == "match":
        return bits_match(tr, e, code, expected, value=True)
    if k == "mcall":
        return bits_mcall(tr, e, code, expected)
    if k == "call":
        return bits_call(tr, e, code, expected)
    if k == "bin" and e.op in ("==", "!=", "<", ">", "<=", ">=") and tr.spec.get("ops") or \
            k == "bin" and e.op in ("==", "!=", "<", ">", "<=", ">=") and tr.unit.get("ops"):
        return bits_abs_cmp(tr, e, code)
    return None


def bits_if_has_stmts(e):
    if e.then.stmts or (e.els is not None and e.els.stmts):
        return True
    if e.els is not None and e.els.tail is not None and e.els.tail.kind == "if":
        return bits_if_has_stmts(e.els.tail)
    return False


def bits_if_expr(tr, e, code, expected):
    """`if c { stmts; e1 } else { stmts; e2 }` as a value (no outer variable may be assigned in the branches)"""
    if tr.assigned(e.then) or tr.assigned(e.els):
        tr.err("`if` expression whose branches assign outer variables", e)
    c, ct = tr.expr(e.cond, code, TBool())
    if not isinstance(ct, TBool):
        tr.err("condition of type %r" % (ct,), e.cond)
    saved = tr.tail_expected
    tr.tail_expected = expected
    subs, tys = [], []
    try:
        for b in (e.then, e.els):
            sub = Code()
            r = tr.block(b, sub, False)
            if r is None:
                tr.err("`if` expression with a branch without value", b)
            sub.final = ("pure", r[0])
            subs.append(sub)
            tys.append(r[1])
    finally:
        tr.tail_expected = saved
    if tys[0] != tys[1]:
        tr.err("`if` expression with branches of type %r and %r" % (tys[0], tys[1]), e)
    t = tr.tmp()
    code.bind(t, ("if", c, subs[0], subs[1]))
    return t, tys[0]


def bits_abs_cmp(tr, e, code):
    """comparison of values of a generic type through the abstract functions the spec declares (`ops`)"""
    ops = dict(tr.unit.get("ops", {}))
    ops.update(tr.spec.get("ops", {}))
    probe = Code()
    n0 = tr.n_tmp
    try:
        _, lt = tr.expr(e.l, probe, None)
    except Unsupported:
        tr.n_tmp = n0
        return None
    tr.n_tmp = n0
    if not isinstance(lt, TAbs):
        return None
    l, lt = tr.expr(e.l, code, None)
    r, rt = tr.expr(e.r, code, lt)
    if rt != lt:
        tr.err("comparison of %r with %r" % (lt, rt), e)
    key = "%s:%s" % (e.op, lt.name)
    if key not in ops:
        tr.err("`%s` on the generic type %r (no abstract operation declared in the spec)" % (e.op, lt), e)
    f = ops[key]
    neg = False
    if f.startswith("not:"):
        f, neg = f[4:], True
    if f.startswith("flip:"):
        f, l, r = f[5:], r, l
    if f not in tr.used_abs:
        tr.used_abs.append(f)
    if neg:
        return "!(%s %s %s)" % (f, atom(l), atom(r)), TBool()
    return "%s %s %s" % (f, atom(l), atom(r)), TBool()


def bits_mcall(tr, e, code, expected):
    nm = e.name
    if nm == "cloned" and not e.args:
        return tr.expr(e.recv, code, expected)
    if nm == "get" and len(e.args) == 1:
        probe = Code()
        n0 = tr.n_tmp
        try:
            _, mt = tr.expr(e.recv, probe, None)
        except Unsupported:
            mt = None
        tr.n_tmp = n0
        if isinstance(mt, TMap):
            m, _ = tr.expr(e.recv, code, None)
            kx, kt = tr.expr(e.args[0], code, mt.k)
            if kt != mt.k:
                tr.err("map key of type %r (%r expected)" % (kt, mt.k), e)
            return "Rs.mapGet %s %s" % (atom(m), atom(kx)), TOpt(mt.v)
        return None
    if nm in ("count_ones", "count_zeros") and not e.args:
        s, t = tr.expr(e.recv, code, None)
        if not isinstance(t, TInt) or t.signed:
            tr.err("`.%s()` on %r" % (nm, t), e)
        if nm == "count_ones":
            return "Rs.countOnes %s" % atom(s), TInt("u32")
        return "Rs.countZeros %d %s" % (t.w, atom(s)), TInt("u32")
    if nm == "saturating_sub" and len(e.args) == 1:
        l, lt = tr.expr(e.recv, code, expected)
        r, rt = tr.expr(e.args[0], code, lt)
        if lt != rt or not isinstance(lt, TInt) or lt.signed:
            tr.err("`saturating_sub` on %r and %r" % (lt, rt), e)
        return "%s - %s" % (atom(l), atom(r)), lt
    if nm == "min" and len(e.args) == 1:
        l, lt = tr.expr(e.recv, code, expected)
        r, rt = tr.expr(e.args[0], code, lt)
        if lt != rt or not isinstance(lt, TInt) or lt.signed:
            tr.err("`min` on %r and %r" % (lt, rt), e)
        return "min %s %s" % (atom(l), atom(r)), lt
    if nm == "unwrap" and not e.args:
        s, t = tr.expr(e.recv, code, TOpt(expected) if expected is not None else None)
        if not isinstance(t, TOpt):
            tr.err("`.unwrap()` on %r" % (t,), e)
        r = tr.tmp()
        code.bind(r, ("call", "Rs.unwrap %s" % atom(s)))
        return r, t.elem
    return None


def bits_call(tr, e, code, expected):
    path = "::".join(e.path)
    alias = dict(tr.unit.get("abs_alias", {}))
    alias.update(tr.spec.get("abs_alias", {}))
    if path in alias and not getattr(e, "aliased", False):
        # a polymorphic function (`cast`) whose instance is fixed per translated function by the spec
        return tr.call(N("call", e.pos, path=alias[path].split("::"), args=e.args, aliased=True), code, expected)
    if path in ("cmp::min", "std::cmp::min", "min") and len(e.args) == 2 and path not in tr.absfns:
        l, lt = tr.expr(e.args[0], code, expected)
        r, rt = tr.expr(e.args[1], code, lt)
        if lt != rt or not isinstance(lt, TInt) or lt.signed:
            tr.err("`min` on %r and %r" % (lt, rt), e)
        return "min %s %s" % (atom(l), atom(r)), lt
    if e.path == ["BTreeMap", "new"] and not e.args:
        if not isinstance(expected, TMap):
            tr.err("`BTreeMap::new()` without a declared type", e)
        return "[]", expected
    return None


# ---------------------------------------------------------------- statements

def bits_stmt(tr, s, code):
    if s.kind == "blocks":
        vs = tr.outer_vars(tr.assigned(s.b), s)
        saved_tail = tr.tail_expected
        tr.tail_expected = None
        sub = Code()
        try:
            tr.block(tr.unit_block(s.b), sub, False)
        finally:
            tr.tail_expected = saved_tail
        sub.final = ("pure", tuple_val([v.lean for v in vs]))
        code.bind(tuple_pat([v.lean for v in vs]), ("do", sub))
        return
    if s.kind == "matchs":
        bits_match(tr, s.e, code, None, value=False)
        return
    tr.err("statement `%s`" % s.kind, s)


def bits_let(tr, s, code):
    if s.pat.kind != "ptuple":
        return False
    init = s.init
    while init.kind == "paren":
        init = init.e
    if init.kind == "tuple":
        return False
    if s.ty is not None:
        tr.err("tuple `let` with a type annotation", s)
    val, t = tr.expr(init, code, None)
    if not isinstance(t, TTuple) or len(t.items) != len(s.pat.items):
        tr.err("tuple `let` whose right-hand side has type %r" % (t,), s)
    names = []
    for p, ty in zip(s.pat.items, t.items):
        if p.kind != "pid":
            tr.err("nested tuple pattern", p)
        v = tr.declare(p.name, ty, s, mutable=p.mut)
        names.append(v.lean)
    code.let(tuple_pat(names), val)
    return True


def bits_expr_stmt(tr, e, code):
    if sel_expr_stmt(tr, e, code):              # (gensel)
        return True
    if bits_is_self_call(tr, e):
        bits_self_call(tr, e, code)
        return True
    if e.kind == "mcall" and e.name in BITS_MUT_METHODS:
        try:
            root = tr._lhs_root(e.recv)
        except Unsupported:
            return False
        v = tr.lookup(root, e)
        if e.name == "clear" and not e.args and isinstance(v.ty, (TSeq, TMap)):
            code.let(v.lean, "[]")
            return True
        if e.name == "resize" and len(e.args) == 2 and isinstance(v.ty, TSeq):
            n, nt = tr.expr(e.args[0], code, TInt("usize"))
            x, xt = tr.expr(e.args[1], code, v.ty.elem)
            if nt != TInt("usize") or xt != v.ty.elem:
                tr.err("`.resize(%r, %r)` on %r" % (nt, xt, v.ty), e)
            code.let(v.lean, "Rs.resize %s %s %s" % (atom(v.lean), atom(n), atom(x)))
            return True
        if e.name == "insert" and len(e.args) == 2 and isinstance(v.ty, TMap):
            kx, kt = tr.expr(e.args[0], code, v.ty.k)
            x, xt = tr.expr(e.args[1], code, v.ty.v)
            if kt != v.ty.k or xt != v.ty.v:
                tr.err("`.insert(%r, %r)` on %r" % (kt, xt, v.ty), e)
            code.let(v.lean, "Rs.mapInsert %s %s %s" % (atom(v.lean), atom(kx), atom(x)))
            return True
    return False


def bits_finish_tail(tr, e, code):
    if e is not None and isinstance(tr.ret, TUnit) and e.kind == "match":
        bits_match(tr, e, code, None, value=False)
        return None
    if e is not None and isinstance(tr.ret, TUnit) and e.kind == "if":
        tr.if_stmt(e, code)
        return None
    return e


def bits_iter_adaptors(tr, it, code):
    wraps = []
    while True:
        while it.kind == "paren":
            it = it.e
        if it.kind == "mcall" and it.name == "take" and len(it.args) == 1:
            n, nt = tr.expr(it.args[0], code, TInt("usize"))
            if nt != TInt("usize"):
                tr.err("`.take(%r)`" % (nt,), it)
            wraps.append(("take", n))
            it = it.recv
            continue
        if it.kind == "mcall" and it.name == "step_by" and len(it.args) == 1:
            k, kt = tr.expr(it.args[0], code, TInt("usize"))
            if kt != TInt("usize"):
                tr.err("`.step_by(%r)`" % (kt,), it)
            wraps.append(("step_by", k))
            it = it.recv
            continue
        break

    def wrap(lst):
        for kind, a in reversed(wraps):
            if kind == "take":
                lst = "%s.take %s" % (atom(lst), atom(a))
            else:
                t = tr.tmp()
                code.bind(t, ("call", "Rs.stepByIdx %s %s" % (atom(lst), atom(a))))
                lst = t
        return lst
    return it, wrap


# ---------------------------------------------------------------- match on an Option

def bits_match(tr, e, code, expected, value):
    """`match scrut { Some(x) [if g] => a, … , None | _ => b }` on an `Option`.  Statement (`value=False`): the arms may
    assign outer variables, which are returned as a tuple; value: the arms' values.  A guarded `Some` arm falls through
    to the later arms: the default arm is translated once per place it is reached from."""
    sc, st = tr.expr(e.scrut, code, None)
    if not isinstance(st, TOpt):
        tr.err("`match` on a value of type %r (only `Option` is translated)" % (st,), e)
    vs = [] if value else tr.outer_vars(tr.assigned(e), e)
    for a in e.arms:
        if len(a.pats) != 1:
            tr.err("`|` patterns in a `match` on an `Option`", a)
    binder = [None]

    def arm_code(a, bind_var):
        """translate the body of arm `a` (with the `Some` payload bound to lean name `bind_var` if the pattern binds)"""
        sub = Code()
        tr.scopes.append({})
        saved_tail = tr.tail_expected
        tr.tail_expected = expected if value else None
        try:
            pt = a.pats[0]
            if pt.kind == "pctor" and pt.name == "Some":
                inner = pt.args[0]
                if inner.kind == "pid" and inner.name != "_":
                    tr.scopes[-1][inner.name] = Var(inner.name, bind_var, st.elem, False)
                elif inner.kind != "pid":
                    tr.err("nested pattern inside `Some(..)`", pt)
            body = a.body
            if value:
                r = tr.block(body, sub, False)
                if r is None:
                    tr.err("`match` arm without value", a)
                sub.final = ("pure", r[0])
                return sub, r[1]
            if body.tail is not None:
                # a unit-typed expression as arm body: a statement
                stmts = list(body.stmts)
                if body.tail.kind == "if":
                    stmts.append(N("ifs", body.tail.pos, e=body.tail))
                elif body.tail.kind == "match":
                    stmts.append(N("matchs", body.tail.pos, e=body.tail))
                else:
                    stmts.append(N("exprs", body.tail.pos, e=body.tail))
                body = N("block", body.pos, stmts=stmts, tail=None)
            tr.block(body, sub, False)
            sub.final = ("pure", tuple_val([v.lean for v in vs]))
            return sub, None
        finally:
            tr.tail_expected = saved_tail
            tr.scopes.pop()

    def guard_of(a, bind_var, sub):
        tr.scopes.append({})
        try:
            pt = a.pats[0]
            if pt.kind == "pctor" and pt.name == "Some" and pt.args[0].kind == "pid" and pt.args[0].name != "_":
                tr.scopes[-1][pt.args[0].name] = Var(pt.args[0].name, bind_var, st.elem, False)
            g, gt = tr.expr(a.guard, sub, TBool())
            if not isinstance(gt, TBool):
                tr.err("guard of type %r" % (gt,), a.guard)
            return g
        finally:
            tr.scopes.pop()

    def is_some(a):
        return a.pats[0].kind == "pctor" and a.pats[0].name == "Some" and len(a.pats[0].args) == 1

    def is_none(a):
        return a.pats[0].kind == "pctor" and a.pats[0].name == "None"

    def is_wild(a):
        return a.pats[0].kind == "pid"          # `_` or a catch-all name (a name would bind the Option: refused below)

    for a in e.arms:
        if not (is_some(a) or is_none(a) or is_wild(a)):
            tr.err("pattern in a `match` on an `Option` (only `Some(x)`, `None`, `_`)", a)
        if is_wild(a) and a.pats[0].name != "_":
            tr.err("catch-all pattern that binds a name", a)
        if (is_none(a) or is_wild(a)) and a.guard is not None:
            tr.err("guard on a `None` / `_` arm", a)
    # the binder's lean name: fresh against everything live (the default arm may mention the shadowed outer variable)
    live = set(v.lean for scp in tr.scopes for v in scp.values())
    bname = "x"
    for a in e.arms:
        if is_some(a) and a.pats[0].args[0].kind == "pid" and a.pats[0].args[0].name != "_":
            bname = lean_name(a.pats[0].args[0].name)
            break
    while bname in live:
        bname += "'"
    types = []

    def chain(arms):
        """code for the payload case `some bname`, trying `arms` in order"""
        for idx, a in enumerate(arms):
            if is_none(a):
                continue
            if is_some(a) and a.guard is not None:
                c = Code()
                g = guard_of(a, bname, c)
                th, ty = arm_code(a, bname)
                types.append(ty)
                el = chain(arms[idx + 1:])
                c.final = ("if", g, th, el)
                return c
            sub, ty = arm_code(a, bname)
            types.append(ty)
            return sub
        tr.err("`match` on an `Option` does not cover `Some(..)`", e)

    def none_case(arms):
        for a in arms:
            if is_none(a) or is_wild(a):
                sub, ty = arm_code(a, bname)
                types.append(ty)
                return sub
        tr.err("`match` on an `Option` does not cover `None`", e)

    some_code = chain(e.arms)
    none_code = none_case(e.arms)
    alts = [("some %s" % bname, some_code), ("none", none_code)]
    if value:
        tys = [t for t in types if t is not None]
        for t in tys[1:]:
            if t != tys[0]:
                tr.err("`match` arms of type %r and %r" % (tys[0], t), e)
        r = tr.tmp()
        code.bind(r, ("match", sc, alts))
        return r, tys[0]
    code.bind(tuple_pat([v.lean for v in vs]), ("match", sc, alts))
    return None


# ---------------------------------------------------------------- genbits, part 2 (rank/select, wavelet matrix)

def bits_declare_shadow(tr, name, ty, mutable, ref_elem):
    """a `let` that shadows a variable of an enclosing block (spec `shadow_ok`): the new variable gets a Lean name that
    no live variable uses, so the Lean text has no shadowing across blocks at all"""
    lean = lean_name(name)
    live = set(v.lean for sc in tr.scopes for v in sc.values())
    while lean in live:
        lean += "'"
    v = Var(name, lean, ty, mutable, ref_elem)
    tr.scopes[-1][name] = v
    return v


def bits_parse_closure(p):
    x = p.peek()
    if p.at("move"):
        raise Unsupported("`move` closure", x.pos)
    params = []
    if p.at("||"):
        p.next()
    else:
        p.expect("|")
        while not p.at("|"):
            if p.at("&"):
                p.next()
            params.append(p.ident().text)
            if p.at(":"):
                raise Unsupported("closure parameter with a type annotation", p.peek().pos)
            if p.at(","):
                p.next()
        p.expect("|")
    if p.at("{"):
        raise Unsupported("closure with a block body", p.peek().pos)
    body = p.expr()
    return N("closure", x.pos, params=params, body=body)


def bits_probe_type(tr, e):
    """type of `e` without emitting code (None when it cannot be translated)"""
    probe = Code()
    n0 = tr.n_tmp
    try:
        _, t = tr.expr(e, probe, None)
    except Unsupported:
        t = None
    tr.n_tmp = n0
    return t


def bits_abs_method(tr, e, code, expected):
    """`recv.m(args)` where `recv` has an abstract type `X` and the spec declares the abstract function `X.m`
    (first argument: the receiver).  `monadic=True`: the abstract function may panic (a `Res` value)."""
    if e.recv.kind == "var" and not bits_declared(tr, e.recv.name):
        return None
    rt = bits_probe_type(tr, e.recv)
    if not isinstance(rt, TAbs):
        return None
    key = "%s.%s" % (rt.name, e.name)
    if key not in tr.absfns:
        return None
    f = tr.absfns[key]
    if len(f["args"]) != len(e.args) + 1:
        tr.err("`.%s` called with %d arguments, the spec says %d" % (e.name, len(e.args), len(f["args"]) - 1), e)
    r, _ = tr.expr(e.recv, code, None)
    parts = [atom(r)]
    for a, at in zip(e.args, f["args"][1:]):
        want = tr.ty_of_text(at)
        s, t = tr.expr(a, code, want)
        if t != want:
            tr.err("argument of `.%s` has type %r, the spec says %r" % (e.name, t, want), a)
        parts.append(atom(s))
    ret = tr.ty_of_text(f["ret"])
    if f.get("monadic"):
        t = tr.tmp()
        code.bind(t, ("call", f["lean"] + "".join(" " + x for x in parts)))
        return t, ret
    return f["lean"] + "".join(" " + x for x in parts), ret


def bits_expr2(tr, e, code, expected):
    k = e.kind
    r = sel_expr(tr, e, code, expected)        # (gensel) select / constructors of rank_select.rs, wavelet_matrix.rs
    if r is not None:
        return r
    if k == "un" and e.op == "*":
        t = bits_probe_type(tr, e.e)
        if isinstance(t, TAbs) and ("deref:" + t.name) in tr.absfns:
            f = tr.absfns["deref:" + t.name]
            s, _ = tr.expr(e.e, code, None)
            return "%s %s" % (f["lean"], atom(s)), tr.ty_of_text(f["ret"])
        return None
    if k == "mcall":
        r = bits_abs_method(tr, e, code, expected)
        if r is not None:
            return r
        if e.name == "map" and len(e.args) == 1 and e.args[0].kind == "closure" and len(e.args[0].params) == 1:
            # `opt.map(|x| body)`
            o, ot = tr.expr(e.recv, code, None)
            if not isinstance(ot, TOpt):
                tr.err("`.map(closure)` on %r (only `Option`)" % (ot,), e)
            cl = e.args[0]
            live = set(v.lean for sc in tr.scopes for v in sc.values())
            bname = lean_name(cl.params[0])
            while bname in live:
                bname += "'"
            sub = Code()
            tr.scopes.append({cl.params[0]: Var(cl.params[0], bname, ot.elem, False)})
            try:
                b, bt = tr.expr(cl.body, sub, expected.elem if isinstance(expected, TOpt) else None)
            finally:
                tr.scopes.pop()
            sub.final = ("pure", "some %s" % atom(b))
            none = Code()
            none.final = ("pure", "none")
            t = tr.tmp()
            code.bind(t, ("match", o, [("some %s" % bname, sub), ("none", none)]))
            return t, TOpt(bt)
        if e.name == "to_vec" and not e.args:
            return tr.expr(e.recv, code, expected)
        return None
    if k == "call":
        if e.path == ["Vec", "with_capacity"] and len(e.args) == 1:
            # the capacity expression is evaluated (it may panic), the vector is empty
            if not isinstance(expected, TSeq):
                tr.err("`Vec::with_capacity(..)` without a declared element type", e)
            c, ct = tr.expr(e.args[0], code, TInt("usize"))
            if ct != TInt("usize"):
                tr.err("capacity of type %r" % (ct,), e)
            return "[]", expected
        return None
    if k == "bin" and e.op in ("==", "!="):
        def optish(x):
            while x.kind == "paren":
                x = x.e
            return (x.kind == "call" and x.path == ["Some"]) or (x.kind == "var" and x.name == "None") or \
                isinstance(bits_probe_type(tr, x), TOpt)
        if optish(e.l) or optish(e.r):
            lt = bits_probe_type(tr, e.l)
            rt = bits_probe_type(tr, e.r)
            want = lt if isinstance(lt, TOpt) else rt
            if not isinstance(want, TOpt):
                tr.err("comparison of `Option` values whose type cannot be read off the text", e)
            l, lt = tr.expr(e.l, code, want)
            r, rt = tr.expr(e.r, code, want)
            if lt != rt or not isinstance(lt.elem, (TInt, TBool)):
                tr.err("`%s` on %r and %r" % (e.op, lt, rt), e)
            return "%s %s %s" % (atom(l), e.op, atom(r)), TBool()
        return None
    if k == "var" and e.name in tr.spec.get("consts", tr.unit.get("consts", {})) and not bits_declared(tr, e.name):
        # a `const` table of the file: a parameter of the translated function (extracted separately, Gen/Dna2Int.lean)
        return lean_name(e.name), tr.ty_of_text(tr.spec.get("consts", tr.unit.get("consts", {}))[e.name])
    return None


def bits_parse_ceil8(p):
    """`(<e> as f64 / 8.0).ceil() as usize` — floating point is outside the subset; this one idiom ("number of bytes
    for <e> bits") is translated as the call of the abstract function `ceil_div8_f64` (contract: ⌈e / 8⌉ for e < 2^53,
    where the f64 arithmetic is exact; docs/notes/GEN.md)"""
    i0 = p.i
    try:
        if not p.at("("):
            return None
        p.next()
        x = p.peek()
        e = p.unary(False)
        while p.at("as"):
            p.next()
            t = p.type_()
            if t.kind == "tname" and t.name == "f64":
                break
            e = N("cast", x.pos, e=e, ty=t)
        else:
            p.i = i0
            return None
        toks = [p.next() for _ in range(11)]
        if [t.text for t in toks] != ["/", "8", ".", "0", ")", ".", "ceil", "(", ")", "as", "usize"]:
            p.i = i0
            return None
        return N("call", x.pos, path=["ceil_div8_f64"], args=[e])
    except Unsupported:
        p.i = i0
        return None


# ================================================================================================== gensel extensions
# (session 5, builder gensel: `RankSelect::{new, select_x, select_1, select_0}`, `build_partlevel`, `WaveletMatrix::new`).
# Hooked in through the `sel_*` calls in `bits_expr2`, `bits_assigned`, `bits_expr_stmt` and `FnTranslator.seq`:
#  * `return` inside `for` loops over ranges (also nested): the loop becomes a helper `<fn>_for<k>` by structural recursion
#    on the list of remaining items, `caps : List ι → State → Res (Option Ret × State)`; `[]` = `pure (none, state)`,
#    `return e` = `pure (some e, state)`, falling off the body = the recursive call on the rest.  An `if` that contains a
#    `return` takes the statements after it into both branches (continuation style); after a loop with `return` the caller
#    continues with `match r with | some v => <return v> | none => <rest>`.
#  * `match xs.binary_search(&key) { Ok(i) | Err(i) => e }`: the std call is the abstract function `slice.binary_search`
#    of the spec (one index, whatever the `Result` constructor); its documented contract is a hypothesis of the theorems.
#  * `b as uN` for a `bool` (`if b then 1 else 0`); abstract *monadic* functions called by path (`RankSelect::new(..)`) or
#    as mutating methods of an abstract receiver (`bits.set_bit(p, b);` — the receiver is re-bound);
#  * calls `f(.., &mut a, ..);` of another translated function with `&mut` arguments (spec `mut_calls`): the variables
#    passed by `&mut` are re-bound to the returned tuple;
#  * `self.m(args.., |x| e, ..)` where the trailing closure arguments fill abstract function parameters of the translated
#    callee (spec `closure_calls`): the closures become Lean lambdas (their bodies must be panic-free).

def sel_walk_has(n, pred):
    found = [False]

    def f(x):
        if pred(x):
            found[0] = True
    bits_walk(n, f)
    return found[0]


def sel_has_return(n):
    return sel_walk_has(n, lambda x: x.kind == "return")


def sel_has_loop(n):
    return sel_walk_has(n, lambda x: x.kind in ("for", "while"))


def sel_is_jump_loop(tr, st):
    return st.kind == "for" and sel_has_return(st.body)


def sel_seq(tr, stmts, code, on_return, on_fall):
    """statements in jump mode.  `on_return(code, get)`: set `code.final` for `return <value>`, where `get(code)` emits the
    binds of the value and returns (lean text, type); `on_fall(code)`: set `code.final` for falling off the end."""
    for idx, st in enumerate(stmts):
        rest = stmts[idx + 1:]
        if st.kind == "return":
            # statements after a `return` (here: the continuation taken into an `if` branch) are unreachable
            if st.e is None:
                tr.err("`return` without a value inside a loop", st)
            e = st.e
            on_return(code, lambda c: tr.expr(e, c, tr.ret))
            return
        if st.kind == "ifs" and sel_has_return(st.e):
            e = st.e
            if any(sel_has_loop(x) for x in rest):
                tr.err("a loop after an `if` that contains a `return` (the continuation would be translated twice)", st)
            c, ct = tr.expr(e.cond, code, TBool())
            if not isinstance(ct, TBool):
                tr.err("condition of type %r" % (ct,), e.cond)
            subs = []
            for b in (e.then, e.els):
                sub = Code()
                tr.scopes.append({})
                try:
                    bst = [] if b is None else list(tr.unit_block(b).stmts)
                    sel_seq(tr, bst + rest, sub, on_return, on_fall)
                finally:
                    tr.scopes.pop()
                subs.append(sub)
            code.final = ("if", c, subs[0], subs[1])
            return
        if sel_is_jump_loop(tr, st):
            r = sel_for(tr, st, code)
            v = tr.tmp()
            c1, c2 = Code(), Code()
            on_return(c1, lambda c: (v, tr.ret))
            sel_seq(tr, rest, c2, on_return, on_fall)
            code.final = ("match", r, [("some %s" % v, c1), ("none", c2)])
            return
        if sel_has_return(st):
            tr.err("`return` inside `%s` (only `if` and `for` over a range are translated around a `return`)" % st.kind, st)
        tr.stmt(st, code, False)
    on_fall(code)


def sel_seq_fn(tr, stmts, tail_node, code, where):
    """function level: the rest of the body from a `for` loop with `return` on"""
    tys = []

    def fin(c, get):
        ret, ret_fields = tr.ret, tr.ret_fields
        outs, out_tys = [tr.lookup(v.rust, where).lean for v in ret_fields], [v.ty for v in ret_fields]
        val, t = get(c)
        if not ty_compatible(t, ret):
            tr.err("the returned expression has type %r, the spec declares %r" % (t, ret), where)
        c.final = ("pure", tuple_val(outs + [val]))
        tys.append(out_tys + [t])

    def fall(c):
        if tail_node is None:
            tr.err("the function body ends without a value after a loop with `return`", where)
        fin(c, lambda cc: tr.expr(tail_node, cc, tr.ret))
    sel_seq(tr, list(stmts), code, fin, fall)
    for t in tys[1:]:
        if t != tys[0]:
            tr.err("`return`s of type %r and %r" % (tys[0], t), where)
    return tys[0]


def sel_for(tr, s, code):
    """a `for x in a..b` loop whose body contains `return`: emits the recursive helper, binds the loop state in `code`
    and returns the lean name of the `Option Ret` the loop produced"""
    tr.n_for += 1
    name = "%s_for%d" % (tr.lean_fn, tr.n_for)
    it = s.iter
    while it.kind == "paren":
        it = it.e
    if it.kind != "range" or it.lo is None or it.hi is None:
        tr.err("`return` inside a `for` loop whose source is not a range `a..b`", s)
    if s.pat.kind != "pid":
        tr.err("pattern of a range loop", s.pat)
    want = tr.declared_type(s.pat.name, None, s)
    if tr.is_lit(it.lo) and not tr.is_lit(it.hi):
        hi, ht = tr.expr(it.hi, code, want)
        lo, lt = tr.expr(it.lo, code, ht)
    else:
        lo, lt = tr.expr(it.lo, code, want)
        hi, ht = tr.expr(it.hi, code, lt)
    if lt != ht or not isinstance(lt, TInt) or lt.signed:
        tr.err("range bounds of type %r and %r" % (lt, ht), s)
    if it.incl:
        lst = "List.range' %s (%s + 1 - %s)" % (atom(lo), atom(hi), atom(lo))
    else:
        lst = "List.range' %s (%s - %s)" % (atom(lo), atom(hi), atom(lo))
    assigned = tr.assigned(N("for", s.pos, pat=s.pat, iter=s.iter, body=s.body))
    state = tr.outer_vars(sel_canon(tr, assigned), s)
    state_names = [v.rust for v in state]
    caps = tr.captured(s.body, state_names, [s.pat.name])
    saved_scopes, saved_tail = tr.scopes, tr.tail_expected
    tr.tail_expected = None
    tr.scopes = [dict((v.rust, Var(v.rust, v.lean, v.ty)) for v in caps + state)]
    for sc in saved_scopes:
        if s.pat.name in sc and s.pat.name != "_" and not tr.spec.get("loop_shadow_ok"):
            tr.err("loop variable `%s` shadows a variable of an enclosing block (not translated)" % s.pat.name, s)
    lv = tr.declare(s.pat.name, lt, s, mutable=False, nested_ok=True)
    live = set(v.lean for v in caps + state) | {lv.lean}
    rest_nm = "rest_"
    while rest_nm in live:
        rest_nm += "'"
    st_val = tuple_val([v.lean for v in state])
    rec = "%s%s%s %s %s" % (name, tr.abs_args(), "".join(" " + v.lean for v in caps), rest_nm, st_val)
    tr.loop_depth += 1
    try:
        body = Code()

        def on_return(c, get):
            val, t = get(c)
            if not ty_compatible(t, tr.ret):
                tr.err("`return` of type %r, the spec declares %r" % (t, tr.ret), s)
            c.final = ("pure", "(some %s, %s)" % (atom(val), st_val))

        def on_fall(c):
            c.final = ("call", rec)
        tr.scopes.append({})
        try:
            sel_seq(tr, list(tr.unit_block(s.body).stmts), body, on_return, on_fall)
        finally:
            tr.scopes.pop()
    finally:
        tr.scopes, tr.tail_expected = saved_scopes, saved_tail
        tr.loop_depth -= 1
    st_ty = tuple_ty([v.ty for v in state])
    res_ty = "Option %s × %s" % (paren_ty(tr.ret.lean()), paren_ty(st_ty))
    lines = ["/-- `for %s` (line %d), a loop with `return`: by recursion on the remaining items; `some v` = the function "
             "returned `v` from inside the loop -/" % (tr.src_text(s, None)[4:].strip(), tr.src.line_of(s.pos)),
             "%s : List %s → %s → Res (%s)" % (tr.helper_header(name, caps), paren_ty(lt.lean()), paren_ty(st_ty), res_ty),
             "  | [], %s => pure (none, %s)" % (tuple_pat([v.lean for v in state]), st_val),
             "  | %s :: %s, %s => do" % (lv.lean, rest_nm, tuple_pat([v.lean for v in state]))]
    emit_code(body, 4, lines)
    tr.helpers.append("\n".join(lines))
    r = tr.tmp()
    out_pat = "(" + ", ".join([r] + ([v.lean for v in state] if state else ["_"])) + ")"
    code.bind(out_pat, ("call", "%s%s%s %s %s" % (name, tr.abs_args(), "".join(" " + v.lean for v in caps), atom(lst), st_val)))
    return r


def sel_canon(tr, names):
    """spec `canonical_state=True`: the variables a loop / `if` carries are ordered by *declaration* (fields and parameters
    in spec order, then locals in order of their `let`), not by first assignment — so that swapping two statements or the
    branches of an `if` does not permute the state tuple the equality theorems are stated for"""
    if not (tr.spec.get("canonical_state") or tr.unit.get("canonical_state")):
        return names
    order = {}
    for sc in tr.scopes:
        for k in sc:
            order.setdefault(k, len(order))
    return sorted(names, key=lambda n: (order.get(n.lstrip("*"), len(order)), n))


def sel_closure_calls(tr):
    d = dict(tr.unit.get("closure_calls", {}))
    d.update(tr.spec.get("closure_calls", {}))
    return d


def sel_mut_calls(tr):
    d = dict(tr.unit.get("mut_calls", {}))
    d.update(tr.spec.get("mut_calls", {}))
    return d


def sel_mut_methods(tr):
    """abstract functions `X.m` of the spec marked `mutates=True`: `recv.m(args);` re-binds the receiver"""
    return dict((k.split(".", 1)[1], f) for k, f in tr.absfns.items() if f.get("mutates") and "." in k)


def sel_reads(tr, n, out):
    if n.kind == "call" and len(n.path) == 1 and n.path[0] in sel_mut_calls(tr):
        for x in sel_mut_calls(tr)[n.path[0]].get("extra", []):
            if any(x in sc for sc in tr.scopes) and x not in out:
                out.append(x)


def sel_arg_var(tr, a):
    while a.kind == "paren" or (a.kind == "un" and a.op == "&"):
        a = a.e
    return a


def sel_assigned(tr, n, decl, out):
    if n.kind != "exprs":
        return False
    e = n.e
    if e.kind == "mcall" and e.name in sel_mut_methods(tr) and not bits_is_self_call(tr, e):
        try:
            r = tr._lhs_root(e.recv)
        except Unsupported:
            return False
        if r not in decl and r not in out:
            out.append(r)
        return True
    if e.kind == "call" and len(e.path) == 1 and e.path[0] in sel_mut_calls(tr):
        f = sel_mut_calls(tr)[e.path[0]]
        for i in f["muts"]:
            if i < len(e.args):
                r = tr._lhs_root(sel_arg_var(tr, e.args[i]))
                if r not in decl and r not in out:
                    out.append(r)
        return True
    return False


def sel_expr_stmt(tr, e, code):
    if e.kind == "mcall" and e.name in sel_mut_methods(tr) and not bits_is_self_call(tr, e):
        rt = bits_probe_type(tr, e.recv)
        if not isinstance(rt, TAbs):
            return False
        key = "%s.%s" % (rt.name, e.name)
        f = tr.absfns.get(key)
        if f is None or not f.get("mutates"):
            return False
        v = tr.lookup(tr._lhs_root(e.recv), e)
        if len(f["args"]) != len(e.args) + 1:
            tr.err("`.%s` called with %d arguments, the spec says %d" % (e.name, len(e.args), len(f["args"]) - 1), e)
        parts = [v.lean]
        for a, at in zip(e.args, f["args"][1:]):
            want = tr.ty_of_text(at)
            s, t = tr.expr(a, code, want)
            if t != want:
                tr.err("argument of `.%s` has type %r, the spec says %r" % (e.name, t, want), a)
            parts.append(atom(s))
        call = f["lean"] + "".join(" " + x for x in parts)
        if f.get("monadic"):
            code.bind(v.lean, ("call", call))
        else:
            code.let(v.lean, call)
        return True
    if e.kind == "call" and len(e.path) == 1 and e.path[0] in sel_mut_calls(tr):
        f = sel_mut_calls(tr)[e.path[0]]
        if len(f["args"]) != len(e.args):
            tr.err("`%s` called with %d arguments, the spec says %d" % (e.path[0], len(e.args), len(f["args"])), e)
        parts = list(f.get("extra", []))
        outs = []
        for i, (a, at) in enumerate(zip(e.args, f["args"])):
            want = tr.ty_of_text(at)
            if i in f["muts"]:
                av = sel_arg_var(tr, a)
                if av.kind != "var":
                    tr.err("`&mut` argument of `%s` that is not a variable" % e.path[0], a)
                v = tr.lookup(av.name, a)
                if v.ty != want:
                    tr.err("argument of `%s` has type %r, the spec says %r" % (e.path[0], v.ty, want), a)
                parts.append(v.lean)
                outs.append(v.lean)
                continue
            s, t = tr.expr(a, code, want)
            if t != want:
                tr.err("argument of `%s` has type %r, the spec says %r" % (e.path[0], t, want), a)
            parts.append(atom(s))
        if len(set(outs)) != len(outs):
            tr.err("the same variable passed twice by `&mut`", e)
        code.bind(tuple_pat(outs), ("call", f["lean"] + "".join(" " + p for p in parts)))
        return True
    return False


def sel_expr(tr, e, code, expected):
    k = e.kind
    if k == "cast":
        target = tr.ty(e.ty)
        if isinstance(target, TInt) and isinstance(bits_probe_type(tr, e.e), TBool):
            s, _ = tr.expr(e.e, code, TBool())
            return "(if %s then 1 else 0)" % s, target
        return None
    if k == "match":
        sc = e.scrut
        while sc.kind == "paren":
            sc = sc.e
        if sc.kind == "mcall" and sc.name == "binary_search" and len(sc.args) == 1:
            return sel_bsearch(tr, e, sc, code, expected)
        return None
    if k == "call" and "::".join(e.path) in tr.absfns and tr.absfns["::".join(e.path)].get("monadic"):
        path = "::".join(e.path)
        f = tr.absfns[path]
        if len(f["args"]) != len(e.args):
            tr.err("`%s` called with %d arguments, the spec says %d" % (path, len(e.args), len(f["args"])), e)
        parts = []
        for a, at in zip(e.args, f["args"]):
            want = tr.ty_of_text(at)
            s, t = tr.expr(a, code, want)
            if t != want:
                tr.err("argument of `%s` has type %r, the spec says %r" % (path, t, want), a)
            parts.append(atom(s))
        t = tr.tmp()
        code.bind(t, ("call", f["lean"] + "".join(" " + p for p in parts)))
        return t, tr.ty_of_text(f["ret"])
    if k == "mcall" and e.recv.kind == "var" and e.recv.name == "self" and e.name in sel_closure_calls(tr):
        f = sel_closure_calls(tr)[e.name]
        ncl = len(f["closures"])
        if len(e.args) != len(f["args"]) + ncl:
            tr.err("`self.%s` called with %d arguments, the spec says %d" % (e.name, len(e.args), len(f["args"]) + ncl), e)
        parts = [tr.lookup("self." + fld, e).lean for fld in f.get("fields", [])]
        for a, at in zip(e.args[:len(f["args"])], f["args"]):
            want = tr.ty_of_text(at)
            s, t = tr.expr(a, code, want)
            if t != want:
                tr.err("argument of `self.%s` has type %r, the spec says %r" % (e.name, t, want), a)
            parts.append(atom(s))
        lams = []
        for cl, (pt, rt_) in zip(e.args[len(f["args"]):], f["closures"]):
            if cl.kind != "closure" or len(cl.params) != 1:
                tr.err("argument of `self.%s` that should be a one-parameter closure" % e.name, cl)
            live = set(v.lean for sc in tr.scopes for v in sc.values())
            bname = lean_name(cl.params[0])
            while bname in live:
                bname += "'"
            sub = Code()
            tr.scopes.append({cl.params[0]: Var(cl.params[0], bname, tr.ty_of_text(pt), False)})
            try:
                want = tr.ty_of_text(rt_)
                b, bt = tr.expr(cl.body, sub, want)
            finally:
                tr.scopes.pop()
            if sub.items:
                tr.err("closure whose body can panic (only panic-free closure bodies become Lean lambdas)", cl)
            if bt != want:
                tr.err("closure returns %r, the spec says %r" % (bt, want), cl)
            lams.append("(fun %s => %s)" % (bname, b))
        t = tr.tmp()
        code.bind(t, ("call", f["lean"] + tr.abs_args() + "".join(" " + x for x in lams) + "".join(" " + p for p in parts)))
        return t, tr.ty_of_text(f["ret"])
    return None


def sel_bsearch(tr, e, sc, code, expected):
    f = tr.absfns.get("slice.binary_search")
    if f is None:
        tr.err("`.binary_search(..)` (no abstract function `slice.binary_search` declared in the spec)", sc)
    if len(e.arms) != 1 or e.arms[0].guard is not None or len(e.arms[0].pats) != 2:
        tr.err("`match` on the result of `binary_search` other than `Ok(i) | Err(i) => …`", e)
    a = e.arms[0]
    names = set()
    ctors = set()
    for pt in a.pats:
        if pt.kind != "pctor" or len(pt.args) != 1 or pt.args[0].kind != "pid":
            tr.err("`match` on the result of `binary_search` other than `Ok(i) | Err(i) => …`", e)
        ctors.add(pt.name)
        names.add(pt.args[0].name)
    if ctors != {"Ok", "Err"} or len(names) != 1:
        tr.err("`match` on the result of `binary_search` other than `Ok(i) | Err(i) => …`", e)
    recv = sc.recv
    while recv.kind == "paren" or (recv.kind == "un" and recv.op == "&"):
        recv = recv.e
    if recv.kind == "index" and recv.idx.kind == "range":
        base, bt = tr.expr(recv.base, code)
        if not isinstance(bt, TSeq) or recv.idx.incl:
            tr.err("slice of %r" % (bt,), recv)
        lo = "0" if recv.idx.lo is None else tr.expr(recv.idx.lo, code, TInt("usize"))[0]
        hi = ("%s.length" % atom(base)) if recv.idx.hi is None else tr.expr(recv.idx.hi, code, TInt("usize"))[0]
        t = tr.tmp()
        code.bind(t, ("call", "Rs.slice %s %s %s" % (atom(base), atom(lo), atom(hi))))
        r, rt = t, bt
    else:
        r, rt = tr.expr(recv, code)
    if rt != tr.ty_of_text(f["args"][0]):
        tr.err("`.binary_search` on %r, the spec says %r" % (rt, tr.ty_of_text(f["args"][0])), sc)
    key, kt = tr.expr(sc.args[0], code, rt.elem)
    if kt != rt.elem:
        tr.err("`.binary_search` for a key of type %r in %r" % (kt, rt), sc)
    nm = list(names)[0]
    tr.scopes.append({})
    saved = tr.tail_expected
    tr.tail_expected = expected
    try:
        v = tr.declare(nm, tr.ty_of_text(f["ret"]), a, mutable=False, nested_ok=True)
        if v.lean != "_":
            code.let(v.lean, "%s %s %s" % (f["lean"], atom(r), atom(key)))
        res = tr.block(a.body, code, False)
    finally:
        tr.tail_expected = saved
        tr.scopes.pop()
    if res is None:
        tr.err("`match` arm without value", a)
    return res



# ================================================================================================== units (= generated files)

def header_regex(header):
    """exact function header (given as Rust text) → regex that ignores white space between tokens, ending at `{`"""
    toks = [t.text for t in tokenize(header, 0)[:-1]]
    parts = []
    for i, t in enumerate(toks):
        parts.append(re.escape(t))
        if i + 1 < len(toks):
            a, b = t[-1], toks[i + 1][0]
            both_word = (a.isalnum() or a == "_") and (b.isalnum() or b == "_")
            parts.append(r"\s+" if both_word else r"\s*")
    return r"(?<![\w])" + "".join(parts) + r"\s*\{"


def translate_unit(src, unit, fail):
    """src: gen_tables.Src of unit['file']; returns (lean text, snippets dict).  Calls `fail(msg)` (which exits) on
    anything outside the subset."""
    rel = unit["file"]
    out_fns, snippets = [], {}
    for f in unit["functions"]:
        what = "fn %s" % f["name"]
        rx = header_regex(f["header"])
        ms = list(re.finditer(rx, src.code))
        if len(ms) != 1:
            fail("%s: %s: expected exactly one function with the header `%s`, found %d (signature changed, renamed or "
                 "restructured: the translation spec in tools/rs2lean.py pins the header)" % (rel, what, f["header"], len(ms)))
        body, line = src.fn_body(rx, what)
        start = src.code.find("{", ms[0].end() - 1) + 1
        snippets[f["name"]] = ms[0].group(0)[:-1].strip() + " {" + body + "}"
        try:
            toks = tokenize(body, start)
            tr = FnTranslator(unit, f, src, body, start)
            helpers, main, ret_fields, tail = tr.translate(toks)
        except Unsupported as u:
            where = "%s:%d" % (rel, src.line_of(u.pos)) if u.pos is not None else "%s:%d" % (rel, line)
            fail("%s: %s: cannot translate: %s (outside the subset of tools/rs2lean.py; the equality theorem %s can no "
                 "longer be regenerated)" % (where, what, u.msg, f.get("theorem", "")))
        out_fns.append((f, line, body, helpers, main))
    name = unit["name"]
    txt = ["import RbV.Basic.RsSem" + "".join("\nimport " + m for m in unit.get("imports", [])),
           "/-! GENERATED by tools/rs2lean.py (tools/gen_tables.py, %s) — do not edit." % unit["props"],
           "Translation of the *text* of the following functions of `%s` (comments blanked) into Lean, regenerated from" % rel,
           "the source tree on every `./check`.  Semantics of the operations: `RbV/Basic/RsSem.lean` (`Res.panic` = the Rust",
           "code panics: index out of bounds, checked arithmetic; `Res.fuel` = the fuel of a translated `while` loop ran out).",
           "Equality with the hand-written mirror model: `RbV/Thm/GenSrc%s.lean`." % name[3:] if name.startswith("Src") else "",
           ""]
    for f, line, body, helpers, main in out_fns:
        txt.append("`%s` (line %d):" % (" ".join(f["header"].split()), line))
        txt.append("```")
        for l in dedent(body).splitlines():
            if l.strip():
                txt.append(l.rstrip().replace("-/", "- /").replace("/-", "/ -"))
        txt.append("```")
    txt.append("-/")
    txt.append("set_option linter.unusedVariables false")
    txt.append("namespace RbV.Gen.%s" % name)
    txt.append("open RbV RbV.Rs")
    gens = sorted(set(list(unit.get("generics", {}).values())
                      + [g for f in unit["functions"] for g in f.get("generics", {}).values()]))
    if gens:
        txt.append("variable " + " ".join("{%s : Type}" % g for g in gens))
    txt.append("")
    for f, line, body, helpers, main in out_fns:
        for h in helpers:
            txt.append(h)
            txt.append("")
        txt.append("/-- `%s` (%s, line %d) -/" % (" ".join(f["header"].split()).replace("-/", "- /"), rel, line))
        txt.append(main)
        txt.append("")
    txt.append("end RbV.Gen.%s" % name)
    return "\n".join(txt) + "\n", snippets


def dedent(body):
    lines = [l for l in body.splitlines() if l.strip()]
    ind = min((len(l) - len(l.lstrip()) for l in lines), default=0)
    return "\n".join(l[ind:] if len(l) >= ind else l for l in body.splitlines())


# ================================================================================================== translation specs

UNITS = {}


def unit(**kw):
    UNITS[kw["name"]] = kw
    return kw


unit(name="SrcKmpLps", props="property C08", file="src/pattern_matching/kmp.rs",
     aliases={"Lps": "Vec<usize>"},
     functions=[dict(name="lps", lean="lps", header="fn lps(pattern: &[u8]) -> Lps",
                     params=[("pattern", "&[u8]")], ret="Lps", locals={"q": "usize"},
                     fuel=["q + 1"], theorem="RbV.Thm.GenSrcKmpLps.lps_eq_model"),
                dict(name="KMP::delta", lean="delta", header="fn delta(&self, mut q: usize, a: u8) -> usize",
                     aliases={"TextSlice": "&[u8]"},
                     self_fields=[("m", "usize"), ("lps", "Lps"), ("pattern", "TextSlice")],
                     params=[("q", "usize"), ("a", "u8")], ret="usize",
                     fuel=["q + 1"], theorem="RbV.Thm.GenSrcKmpLps.delta_eq_model")])


unit(name="SrcShiftAndMasks", props="property C08", file="src/pattern_matching/shift_and.rs",
     functions=[dict(name="masks", lean="masks",
                     header="pub fn masks<C, P>(pattern: P) -> ([u64; 256], u64) where C: Borrow<u8>, P: IntoIterator<Item = C>,",
                     # `P: IntoIterator<Item = C>, C: Borrow<u8>`: the items are read through `*c.borrow()` only, a `u8` each
                     params=[("pattern", "&[u8]")], ret="([u64; 256], u64)",
                     locals={"masks": "[u64; 256]", "accept": "u64"},
                     theorem="RbV.Thm.GenSrcShiftAndMasks.masks_eq_model")])


unit(name="SrcHorspoolNew", props="property C08", file="src/pattern_matching/horspool.rs",
     functions=[dict(name="Horspool::new", lean="new", header="pub fn new(pattern: TextSlice<'a>) -> Self",
                     aliases={"TextSlice": "&[u8]"},
                     params=[("pattern", "&[u8]")], ret="(usize, Vec<usize>, &[u8])",
                     struct_fields={"Horspool": ["m", "shift", "pattern"]},
                     locals={"shift": "Vec<usize>"},
                     theorem="RbV.Thm.GenSrcHorspoolNew.new_eq_model")])


FENWICK_ABS = {"Op::operation": dict(lean="op", args=["T", "T"], ret="T"),
               "T::default": dict(lean="dflt", args=[], ret="T", is_value=True)}

unit(name="SrcFenwick", props="property C18", file="src/data_structures/bit_tree.rs",
     generics={"T": "α"}, abstract_fns=FENWICK_ABS,
     functions=[dict(name="FenwickTree::get", lean="get", header="pub fn get(&self, idx: usize) -> T",
                     self_fields=[("tree", "Vec<T>")], params=[("idx", "usize")], ret="T",
                     # `idx` strictly decreases; one unit more than the model's fuel: the translated loop spends one
                     # unit on the final test of the condition
                     fuel=["idx + 1"], theorem="RbV.Thm.GenSrcFenwick.get_eq_model"),
                dict(name="FenwickTree::set", lean="set", header="pub fn set(&mut self, idx: usize, val: T)",
                     self_fields=[("tree", "Vec<T>")], params=[("idx", "usize"), ("val", "T")], ret=None,
                     fuel=["tree.length + 1"], theorem="RbV.Thm.GenSrcFenwick.set_eq_model")])


# (genbits) all fields of `struct BitEnc`, in declaration order
BITENC_FIELDS = [("storage", "Vec<u32>"), ("width", "usize"), ("mask", "u32"), ("len", "usize"),
                 ("usable_bits_per_block", "usize")]
BITENC_FIELD_NAMES = [f for f, _ in BITENC_FIELDS]
BITENC_SELF_CALLS = {
    "addr": dict(lean="SrcBitEnc.addr", fields=["width", "usable_bits_per_block"], args=["usize"], ret="(usize, usize)"),
    "get_by_addr": dict(lean="SrcBitEnc.getByAddr", fields=["storage", "mask"], args=["usize", "usize"], ret="u8"),
    "set_by_addr": dict(lean="SrcBitEnc.setByAddr", fields=["storage", "mask"], args=["usize", "usize", "u8"],
                        muts=["storage"], ret=None)}

unit(name="SrcBitEnc", props="property C18", file="src/data_structures/bitenc.rs",
     imports=["RbV.Basic.RsSemBits"], self_calls=BITENC_SELF_CALLS,
     functions=[dict(name="mask", lean="mask", header="fn mask(width: usize) -> u32",
                     params=[("width", "usize")], ret="u32", theorem="RbV.Thm.GenSrcBitEnc.mask_eq_model"),
                dict(name="BitEnc::get_by_addr", lean="getByAddr",
                     header="fn get_by_addr(&self, block: usize, bit: usize) -> u8",
                     self_fields=[("storage", "Vec<u32>"), ("mask", "u32")],
                     params=[("block", "usize"), ("bit", "usize")], ret="u8",
                     theorem="RbV.Thm.GenSrcBitEnc.getByAddr_eq_model"),
                dict(name="BitEnc::set_by_addr", lean="setByAddr",
                     header="fn set_by_addr(&mut self, block: usize, bit: usize, value: u8)",
                     self_fields=[("storage", "Vec<u32>"), ("mask", "u32")],
                     params=[("block", "usize"), ("bit", "usize"), ("value", "u8")], ret=None,
                     theorem="RbV.Thm.GenSrcBitEnc.setByAddr_eq_model"),
                dict(name="BitEnc::addr", lean="addr", header="fn addr(&self, i: usize) -> (usize, usize)",
                     self_fields=[("width", "usize"), ("usable_bits_per_block", "usize")],
                     params=[("i", "usize")], ret="(usize, usize)", theorem="RbV.Thm.GenSrcBitEnc.addr_eq_model"),
                # (genbits) the constructor and the public operations; they call the four functions above
                dict(name="BitEnc::new", lean="new", header="pub fn new(width: usize) -> Self",
                     params=[("width", "usize")], ret="(Vec<u32>, usize, u32, usize, usize)",
                     struct_fields={"BitEnc": BITENC_FIELD_NAMES}, struct_field_types={"BitEnc": dict(BITENC_FIELDS)},
                     calls={"mask": dict(lean="SrcBitEnc.mask", args=["usize"], ret="u32")},
                     theorem="RbV.Thm.GenSrcBitEncOps.new_eq_model"),
                dict(name="BitEnc::push", lean="push", header="pub fn push(&mut self, value: u8)",
                     self_fields=BITENC_FIELDS, params=[("value", "u8")], ret=None,
                     theorem="RbV.Thm.GenSrcBitEncOps.push_eq_model"),
                dict(name="BitEnc::set", lean="set", header="pub fn set(&mut self, i: usize, value: u8)",
                     self_fields=BITENC_FIELDS, params=[("i", "usize"), ("value", "u8")], ret=None,
                     theorem="RbV.Thm.GenSrcBitEncOps.set_eq_model"),
                dict(name="BitEnc::get", lean="get", header="pub fn get(&self, i: usize) -> Option<u8>",
                     self_fields=BITENC_FIELDS, params=[("i", "usize")], ret="Option<u8>",
                     theorem="RbV.Thm.GenSrcBitEncOps.get_eq_model"),
                dict(name="BitEnc::clear", lean="clear", header="pub fn clear(&mut self)",
                     self_fields=BITENC_FIELDS, params=[], ret=None,
                     theorem="RbV.Thm.GenSrcBitEncOps.clear_eq_model"),
                dict(name="BitEnc::nr_blocks", lean="nrBlocks", header="pub fn nr_blocks(&self) -> usize",
                     self_fields=BITENC_FIELDS, params=[], ret="usize",
                     theorem="RbV.Thm.GenSrcBitEncOps.nrBlocks_eq_model"),
                dict(name="BitEnc::nr_symbols", lean="nrSymbols", header="pub fn nr_symbols(&self) -> usize",
                     self_fields=BITENC_FIELDS, params=[], ret="usize",
                     theorem="RbV.Thm.GenSrcBitEncOps.nrSymbols_eq_model"),
                dict(name="BitEnc::len", lean="len", header="pub fn len(&self) -> usize",
                     self_fields=BITENC_FIELDS, params=[], ret="usize",
                     theorem="RbV.Thm.GenSrcBitEncOps.nrSymbols_eq_model"),
                dict(name="BitEnc::push_values", lean="pushValues",
                     header="pub fn push_values(&mut self, mut n: usize, value: u8)",
                     self_fields=BITENC_FIELDS, params=[("n", "usize"), ("value", "u8")], ret=None,
                     locals={"value_block": "u32"}, loop_shadow_ok=True,
                     theorem="RbV.Thm.GenSrcBitEncOps.pushValues_eq_model")])


# (genbits) SmallInts<S, B>: the small and the big integer type are Lean type variables; `cast`, `S::max_value()`,
# `size_of`, `<` on `S` are abstract parameters (the theorems instantiate them with the mirror model's range semantics);
# `BTreeMap<usize, B>` is an association list (`Rs.mapInsert` / `Rs.mapGet`, RsSemBits.lean)
SMALLINTS_ABS = {
    "cast_bs": dict(lean="castBS", args=["B"], ret="Option<S>"),          # num_traits::cast::<B, S>
    "cast_sb": dict(lean="castSB", args=["S"], ret="Option<B>"),          # num_traits::cast::<S, B>
    "cast_zero": dict(lean="castZero", args=["i32"], ret="Option<S>"),    # num_traits::cast::<i32, S> (the literal 0)
    "lt_s": dict(lean="ltS", args=["S", "S"], ret="bool"),                # `<` on S
    "S::max_value": dict(lean="maxS", args=[], ret="S", is_value=True),
    "size_of::<S>": dict(lean="sizeS", args=[], ret="usize", is_value=True),
    "size_of::<B>": dict(lean="sizeB", args=[], ret="usize", is_value=True)}
SMALLINTS_FIELDS = [("smallints", "Vec<S>"), ("bigints", "BTreeMap<usize, B>")]

unit(name="SrcSmallInts", props="properties C18, C03", file="src/data_structures/smallints.rs",
     imports=["RbV.Basic.RsSemBits"], generics={"S": "α", "B": "β"}, abstract_fns=SMALLINTS_ABS,
     ops={"<:S": "ltS", ">:S": "flip:ltS", ">=:S": "not:ltS", "<=:S": "not:flip:ltS"},
     self_calls={"real_value": dict(lean="SrcSmallInts.realValue", fields=["smallints", "bigints"], args=["usize", "S"],
                                    ret="Option<B>", abs=True)},
     functions=[dict(name="SmallInts::real_value", lean="realValue",
                     header="fn real_value(&self, i: usize, v: S) -> Option<B>",
                     self_fields=SMALLINTS_FIELDS, params=[("i", "usize"), ("v", "S")], ret="Option<B>",
                     abs_alias={"cast": "cast_sb"}, theorem="RbV.Thm.GenSrcSmallInts.realValue_eq_model"),
                dict(name="SmallInts::get", lean="get", header="pub fn get(&self, i: usize) -> Option<B>",
                     self_fields=SMALLINTS_FIELDS, params=[("i", "usize")], ret="Option<B>",
                     theorem="RbV.Thm.GenSrcSmallInts.get_eq_model"),
                dict(name="SmallInts::push", lean="push", header="pub fn push(&mut self, v: B)",
                     self_fields=SMALLINTS_FIELDS, params=[("v", "B")], ret=None,
                     abs_alias={"cast": "cast_bs"}, theorem="RbV.Thm.GenSrcSmallInts.push_eq_model"),
                dict(name="SmallInts::set", lean="set", header="pub fn set(&mut self, i: usize, v: B)",
                     self_fields=SMALLINTS_FIELDS, params=[("i", "usize"), ("v", "B")], ret=None,
                     abs_alias={"cast": "cast_bs"}, theorem="RbV.Thm.GenSrcSmallInts.set_eq_model"),
                dict(name="SmallInts::from_elem", lean="fromElem", header="pub fn from_elem(v: S, n: usize) -> Self",
                     params=[("v", "S"), ("n", "usize")], ret="(Vec<S>, BTreeMap<usize, B>)",
                     struct_fields={"SmallInts": ["smallints", "bigints"]},
                     struct_field_types={"SmallInts": dict(SMALLINTS_FIELDS)},
                     abs_alias={"cast": "cast_zero"}, theorem="RbV.Thm.GenSrcSmallInts.fromElem_eq_model"),
                dict(name="SmallInts::len", lean="len", header="pub fn len(&self) -> usize",
                     self_fields=SMALLINTS_FIELDS, params=[], ret="usize",
                     theorem="RbV.Thm.GenSrcSmallInts.len_eq_model")])


# (genbits) rank/select.  `BitVec<u8>` and `SuperblockRank` are abstract types; the bit vector is observed through
# `get_block` / `len` (bv crate, external: abstract functions whose contract is a hypothesis of the theorems),
# `SuperblockRank` through its constructors and `Deref`.  `(bits.len() as f64 / 8.0).ceil() as usize` is the abstract
# function `ceil_div8_f64` (contract ⌈x / 8⌉, exact below 2^53).
RANKSELECT_ABS = {
    "BitVec.get_block": dict(lean="getBlock", args=["BitVec", "usize"], ret="u8"),
    "BitVec.len": dict(lean="bitsLen", args=["BitVec"], ret="u64"),
    "BitVec.block_len": dict(lean="blockLen", args=["BitVec"], ret="usize"),
    "ceil_div8_f64": dict(lean="ceilDiv8", args=["u64"], ret="usize"),
    "SuperblockRank::First": dict(lean="sbFirst", args=["u64"], ret="SuperblockRank"),
    "SuperblockRank::Some": dict(lean="sbSome", args=["u64"], ret="SuperblockRank"),
    "deref:SuperblockRank": dict(lean="sbVal", args=["SuperblockRank"], ret="u64")}
RANKSELECT_FIELDS = [("n", "usize"), ("bits", "BitVec"), ("superblocks_1", "Vec<SuperblockRank>"),
                     ("superblocks_0", "Vec<SuperblockRank>"), ("s", "usize"), ("k", "usize")]

RANKSELECT_BSEARCH = {"slice.binary_search": dict(lean="bsearch", args=["Vec<SuperblockRank>", "SuperblockRank"], ret="usize")}
RANKSELECT_SELECT_X = {"select_x": dict(lean="SrcRankSelect.selectX", fields=[f for f, _ in RANKSELECT_FIELDS],
                                        args=["u64", "&[SuperblockRank]"], closures=[("u8", "bool"), ("u8", "u32")],
                                        ret="Option<u64>")}

unit(name="SrcRankSelect", props="property C17", file="src/data_structures/rank_select.rs",
     imports=["RbV.Basic.RsSemBits"], generics={"BitVec": "β", "SuperblockRank": "σ"}, abstract_types=["BitVec"],
     abstract_fns=RANKSELECT_ABS,
     self_calls={"rank_1": dict(lean="SrcRankSelect.rank1", fields=[f for f, _ in RANKSELECT_FIELDS], args=["u64"],
                                ret="Option<u64>", abs=True)},
     functions=[dict(name="superblocks", lean="superblocks",
                     header="fn superblocks(t: bool, n: usize, s: usize, bits: &BitVec<u8>) -> Vec<SuperblockRank>",
                     params=[("t", "bool"), ("n", "usize"), ("s", "usize"), ("bits", "&BitVec<u8>")],
                     ret="Vec<SuperblockRank>",
                     locals={"superblocks": "Vec<SuperblockRank>", "last_rank": "Option<u64>", "i": "usize"},
                     theorem="RbV.Thm.GenSrcRankSelect.superblocks_eq_model"),
                dict(name="RankSelect::rank_1", lean="rank1", header="pub fn rank_1(&self, i: u64) -> Option<u64>",
                     self_fields=RANKSELECT_FIELDS, params=[("i", "u64")], ret="Option<u64>", shadow_ok=True,
                     theorem="RbV.Thm.GenSrcRankSelect.rank1_eq_model"),
                dict(name="RankSelect::rank_0", lean="rank0", header="pub fn rank_0(&self, i: u64) -> Option<u64>",
                     self_fields=RANKSELECT_FIELDS, params=[("i", "u64")], ret="Option<u64>",
                     theorem="RbV.Thm.GenSrcRankSelect.rank0_eq_model"),
                # (gensel) the constructor: the struct is the tuple of its fields in declaration order
                dict(name="RankSelect::new", lean="new", header="pub fn new(bits: BitVec<u8>, k: usize) -> RankSelect",
                     params=[("bits", "BitVec<u8>"), ("k", "usize")],
                     ret="(usize, BitVec<u8>, Vec<SuperblockRank>, Vec<SuperblockRank>, usize, usize)",
                     struct_fields={"RankSelect": [f for f, _ in RANKSELECT_FIELDS]},
                     struct_field_types={"RankSelect": dict(RANKSELECT_FIELDS)},
                     calls={"superblocks": dict(lean="SrcRankSelect.superblocks", args=["bool", "usize", "usize", "&BitVec<u8>"],
                                                ret="Vec<SuperblockRank>",
                                                extra=[f["lean"] for f in RANKSELECT_ABS.values()])},
                     theorem="RbV.Thm.GenSrcRankSelectNew.new_eq_model"),
                # (gensel) select: `binary_search` on the superblock table is the abstract function `bsearch` (std; its
                # documented contract is the hypothesis `BSearchOk` of the theorems); the two closure parameters of
                # `select_x` are abstract functions, filled in by the closures `select_1` / `select_0` pass
                dict(name="RankSelect::select_x", lean="selectX",
                     header="fn select_x<F: Fn(u8) -> bool, C: Fn(u8) -> u32>(&self, j: u64, "
                            "superblocks: &[SuperblockRank], is_match: F, count_all: C,) -> Option<u64>",
                     self_fields=RANKSELECT_FIELDS, params=[("j", "u64"), ("superblocks", "&[SuperblockRank]")],
                     ret="Option<u64>", locals={"bit": "u8", "max_bit": "u64"}, canonical_state=True,
                     abstract_fns=dict(RANKSELECT_BSEARCH, **{
                         "is_match": dict(lean="isMatch", args=["u8"], ret="bool"),
                         "count_all": dict(lean="countAll", args=["u8"], ret="u32")}),
                     theorem="RbV.Thm.GenSrcSelect.selectX_eq_model"),
                dict(name="RankSelect::select_1", lean="select1", header="pub fn select_1(&self, j: u64) -> Option<u64>",
                     self_fields=RANKSELECT_FIELDS, params=[("j", "u64")], ret="Option<u64>",
                     abstract_fns=RANKSELECT_BSEARCH, closure_calls=RANKSELECT_SELECT_X,
                     theorem="RbV.Thm.GenSrcSelect.select1_eq_model"),
                dict(name="RankSelect::select_0", lean="select0", header="pub fn select_0(&self, j: u64) -> Option<u64>",
                     self_fields=RANKSELECT_FIELDS, params=[("j", "u64")], ret="Option<u64>",
                     abstract_fns=RANKSELECT_BSEARCH, closure_calls=RANKSELECT_SELECT_X,
                     theorem="RbV.Thm.GenSrcSelect.select0_eq_model")])


# (genbits) wavelet matrix queries.  `RankSelect` is an abstract type whose `rank_0` / `rank_1` are abstract *monadic*
# functions (they may panic; the composition theorem instantiates them with the translated `RankSelect::rank_0/1`);
# the `const DNA2INT` table is a parameter (its value is extracted separately into Gen/Dna2Int.lean).
WAVELET_FIELDS = [("width", "usize"), ("height", "usize"), ("zeros", "Vec<u64>"), ("levels", "Vec<RankSelect>")]

# (gensel) the constructor: `bv::BitVec<u8>` is an abstract type with `new_fill` / `set_bit` (external crate; `set_bit` may
# panic: position out of range), `RankSelect::new` an abstract monadic function (the composition theorem instantiates it
# with the translated constructor of Gen/SrcRankSelect.lean)
WAVELET_SETBIT = {"BitVec.set_bit": dict(lean="setBit", args=["BitVec", "u64", "bool"], ret="BitVec", monadic=True,
                                         mutates=True)}
WAVELET_NEW_ABS = dict(WAVELET_SETBIT, **{
    "BitVec::new_fill": dict(lean="newFill", args=["bool", "u64"], ret="BitVec"),
    "RankSelect::new": dict(lean="rsNew", args=["BitVec", "usize"], ret="RankSelect", monadic=True)})

unit(name="SrcWavelet", props="property C17", file="src/data_structures/wavelet_matrix.rs",
     imports=["RbV.Basic.RsSemBits"], generics={"RankSelect": "ρ", "BitVec": "β"}, abstract_types=["BitVec"],
     abstract_fns={"RankSelect.rank_0": dict(lean="rank0", args=["RankSelect", "u64"], ret="Option<u64>", monadic=True),
                   "RankSelect.rank_1": dict(lean="rank1", args=["RankSelect", "u64"], ret="Option<u64>", monadic=True)},
     self_calls={"check_overflow": dict(lean="SrcWavelet.checkOverflow", fields=[f for f, _ in WAVELET_FIELDS],
                                        args=["u64"], ret="bool", abs=True),
                 "prank": dict(lean="SrcWavelet.prank", fields=[f for f, _ in WAVELET_FIELDS],
                               args=["usize", "u64", "u8"], ret="u64", abs=True)},
     functions=[dict(name="WaveletMatrix::check_overflow", lean="checkOverflow",
                     header="fn check_overflow(&self, p: u64) -> bool",
                     self_fields=WAVELET_FIELDS, params=[("p", "u64")], ret="bool",
                     theorem="RbV.Thm.GenSrcWavelet.checkOverflow_eq_model"),
                dict(name="WaveletMatrix::prank", lean="prank",
                     header="fn prank(&self, level: usize, p: u64, val: u8) -> u64",
                     self_fields=WAVELET_FIELDS, params=[("level", "usize"), ("p", "u64"), ("val", "u8")], ret="u64",
                     theorem="RbV.Thm.GenSrcWavelet.prank_eq_model"),
                dict(name="WaveletMatrix::rank", lean="rank", header="pub fn rank(&self, val: u8, p: u64) -> u64",
                     self_fields=WAVELET_FIELDS, params=[("DNA2INT", "[u8; 128]"), ("val", "u8"), ("p", "u64")],
                     ret="u64", locals={"spos": "u64"},
                     theorem="RbV.Thm.GenSrcWavelet.rank_eq_model"),
                dict(name="build_partlevel", lean="buildPartlevel",
                     header="fn build_partlevel(vals: &[u8], shift: u8, next_zeros: &mut Vec<u8>, next_ones: &mut Vec<u8>, "
                            "bits: &mut BitVec<u8>, prev_bits: u64,)",
                     params=[("DNA2INT", "[u8; 128]"), ("vals", "&[u8]"), ("shift", "u8"), ("next_zeros", "&mut Vec<u8>"),
                             ("next_ones", "&mut Vec<u8>"), ("bits", "&mut BitVec<u8>"), ("prev_bits", "u64")],
                     ret=None, abstract_fns=WAVELET_SETBIT, canonical_state=True,
                     theorem="RbV.Thm.GenSrcWaveletNew.buildPartlevel_eq_model"),
                dict(name="WaveletMatrix::new", lean="new", header="pub fn new(text: &[u8]) -> Self",
                     params=[("DNA2INT", "[u8; 128]"), ("text", "&[u8]")],
                     ret="(usize, usize, Vec<u64>, Vec<RankSelect>)", shadow_ok=True, canonical_state=True,
                     struct_fields={"WaveletMatrix": [f for f, _ in WAVELET_FIELDS]},
                     struct_field_types={"WaveletMatrix": dict(WAVELET_FIELDS)},
                     abstract_fns=WAVELET_NEW_ABS,
                     mut_calls={"build_partlevel": dict(
                         lean="SrcWavelet.buildPartlevel", extra=["rank0", "rank1", "setBit", "DNA2INT"],
                         args=["&[u8]", "u8", "&mut Vec<u8>", "&mut Vec<u8>", "&mut BitVec<u8>", "u64"], muts=[2, 3, 4])},
                     theorem="RbV.Thm.GenSrcWaveletNew.new_eq_model")])


unit(name="SrcBwt", props="property C04", file="src/data_structures/bwt.rs",
     aliases={"RawSuffixArraySlice": "&[usize]", "BWT": "Vec<u8>", "BWTSlice": "[u8]"},
     functions=[dict(name="bwt", lean="bwt", header="pub fn bwt(text: &[u8], pos: RawSuffixArraySlice) -> BWT",
                     params=[("text", "&[u8]"), ("pos", "RawSuffixArraySlice")], ret="BWT",
                     theorem="RbV.Thm.GenSrcBwt.bwt_eq_model")])


unit(name="SrcPrescan", props="property C04", file="src/utils/mod.rs",
     generics={"T": "α"},
     functions=[dict(name="prescan", lean="prescan",
                     header="pub fn prescan<T: Copy, F: Fn(T, T) -> T>(a: &mut [T], neutral: T, op: F)",
                     # `op: F` is the abstract operation (a leading parameter of the translated function)
                     abstract_fns={"op": dict(lean="op", args=["T", "T"], ret="T")},
                     params=[("a", "&mut [T]"), ("neutral", "T")], ret=None,
                     theorem="RbV.Thm.GenSrcPrescan.prescan_eq_model")])


# ================================================================================================== self-test

SELFTEST_RS = r"""
// synthetic functions exercising the subset (tools/rs2lean.py --selftest)
pub fn find_first(xs: &[u32], key: u32) -> usize {
    let n = xs.len();
    if n == 0 {
        return 0;
    }
    let mut pos = n;
    for i in (0..n).rev() {
        if xs[i] == key {
            pos = i;
        } else if xs[i] > key && pos == n {
            pos = n;
        }
    }
    pos
}

pub fn squares(k: u8) -> Vec<u8> {
    let mut out: Vec<u8> = Vec::new();
    for i in 0..=k {
        out.push(i.wrapping_mul(i));
    }
    out
}

pub fn digits(mut x: u64) -> Vec<u64> {
    let mut d: Vec<u64> = Vec::new();
    while x > 0 {
        d.push(x % 10);
        x /= 10;
    }
    d
}

// (gensel) `return` inside nested range loops, `bool as usize`, `binary_search` as an abstract function
pub fn find_pair(v: &[u8], keys: &[u8], key: u8) -> Option<usize> {
    let start = match keys.binary_search(&key) {
        Ok(i) | Err(i) => i,
    };
    let mut seen: usize = 0;
    for i in start..v.len() {
        if v[i] != 0 {
            for j in 0..i {
                seen += (v[j] == v[i]) as usize;
                if seen == 2 {
                    return Some(i * 10 + j);
                }
            }
        }
        seen += 1;
    }
    None
}

pub fn checksum(data: &[u8], modulus: u32) -> u32 {
    assert!(modulus > 0, "modulus");
    let mut acc = 0u32;
    for (i, &b) in data.iter().enumerate() {
        acc = (acc * 31 + u32::from(b) + (i as u32 & 0xff)) % modulus;
        acc ^= !acc >> 7;
    }
    acc
}
"""

SELFTEST_UNIT = dict(
    name="SrcSelfTest", props="self-test", file="src/selftest.rs",
    functions=[
        dict(name="find_first", lean="findFirst", header="pub fn find_first(xs: &[u32], key: u32) -> usize",
             params=[("xs", "&[u32]"), ("key", "u32")], ret="usize"),
        dict(name="squares", lean="squares", header="pub fn squares(k: u8) -> Vec<u8>", params=[("k", "u8")], ret="Vec<u8>"),
        dict(name="digits", lean="digits", header="pub fn digits(mut x: u64) -> Vec<u64>", params=[("x", "u64")],
             ret="Vec<u64>", fuel=["x + 1"]),
        dict(name="checksum", lean="checksum", header="pub fn checksum(data: &[u8], modulus: u32) -> u32",
             params=[("data", "&[u8]"), ("modulus", "u32")], ret="u32"),
        dict(name="find_pair", lean="findPair", header="pub fn find_pair(v: &[u8], keys: &[u8], key: u8) -> Option<usize>",
             params=[("v", "&[u8]"), ("keys", "&[u8]"), ("key", "u8")], ret="Option<usize>",
             abstract_fns={"slice.binary_search": dict(lean="bsearch", args=["&[u8]", "u8"], ret="usize")}),
    ])

# (statement text placed in a function `fn f(v: &[u8], n: usize) -> usize { … }`, substring expected in the refusal)
SELFTEST_REFUSED = [
    ("loop { break; } n", "`loop`"),
    ("match n { 0 => 1, _ => 2 }", "`match`|pattern starting with"),
    ("let c = |a: usize| a + 1; c(n)", "closure"),
    ("let q = 3; n + q", "cannot be read off the text"),
    ("for x in v { if *x == 0 { return n; } } n", "`return` inside a `for` loop whose source is not a range"),
    ("let x = v.iter().map(|b| *b as usize).sum::<usize>(); x", "closure|turbofish"),
    ("while n > 0 { } n", "no fuel expression"),
    ("let s = v[1..3]; n", "sub-slice"),
    ("let k = n as isize; let j = k + k; n", "signed type"),
    ("let k = n as isize; if k < 0 { return 0; } n", "signed values"),
    ("let w = n as i64; let k = w as i128; n", "i128"),
    ("n?", "`?` operator"),
    ("unsafe { n }", "`unsafe`"),
    ("let t = (n, n); t.0", "tuple field access"),
    ("n.pow(2)", "method `.pow"),
    ("let mut n2 = n; { let n2 = 1usize; } n2", "block expression|unexpected|shadows a variable"),
]


def selftest(with_lean):
    import tempfile, subprocess, shutil
    sys.path.insert(0, os.path.dirname(os.path.abspath(__file__)))
    import gen_tables

    class Refused(Exception):
        pass

    def refuse(msg):
        raise Refused(msg)
    tmp = tempfile.mkdtemp(prefix="rs2lean-selftest-")
    ok = True
    try:
        os.makedirs(os.path.join(tmp, "src"))
        with open(os.path.join(tmp, "src", "selftest.rs"), "w") as f:
            f.write(SELFTEST_RS)
        src = gen_tables.Src(tmp, "src/selftest.rs")
        text, _ = translate_unit(src, SELFTEST_UNIT, refuse)
        text2, _ = translate_unit(src, SELFTEST_UNIT, refuse)
        if text != text2:
            print("selftest: translation is not deterministic")
            ok = False
        checks = ["#eval findFirst [5, 7, 7, 9] 7   -- ok 1", "#eval findFirst [] 7   -- ok 0",
                  "#eval squares 17   -- ok [0, 1, 4, …, 225, 0, 33]", "#eval digits 9075   -- ok [5, 7, 0, 9]",
                  "#eval checksum [1, 2, 3] 1000003", "#eval checksum [1, 2, 3] 0   -- panic (assert!)",
                  "#eval findPair (fun _ _ => 1) [9, 0, 4, 4, 4] [] 0   -- ok (some 30): return from the inner loop",
                  "#eval findPair (fun _ _ => 0) [0, 0] [] 0   -- ok none"]
        lean_text = text.replace("end RbV.Gen.SrcSelfTest", "\n".join(checks) + "\nend RbV.Gen.SrcSelfTest")
        if with_lean:
            lf = os.path.join(tmp, "SelfTest.lean")
            with open(lf, "w") as f:
                f.write(lean_text)
            lean_dir = os.path.join(os.path.dirname(os.path.dirname(os.path.abspath(__file__))), "lean")
            p = subprocess.run(["lake", "env", "lean", lf], cwd=lean_dir, stdout=subprocess.PIPE, stderr=subprocess.STDOUT,
                               text=True, timeout=600)
            print(p.stdout.strip())
            want = ["RbV.Rs.Res.ok 1", "RbV.Rs.Res.ok 0", "225, 0, 33]", "RbV.Rs.Res.ok [5, 7, 0, 9]", "RbV.Rs.Res.panic",
                    "RbV.Rs.Res.ok (some 30)", "RbV.Rs.Res.ok none"]
            if p.returncode != 0 or any(w not in p.stdout for w in want):
                print("selftest: the generated Lean does not compile or evaluates differently")
                ok = False
        else:
            sys.stdout.write(lean_text)
        for body, expect in SELFTEST_REFUSED:
            with open(os.path.join(tmp, "src", "selftest.rs"), "w") as f:
                f.write("fn f(v: &[u8], n: usize) -> usize {\n    %s\n}\n" % body)
            u = dict(name="SrcNeg", props="self-test", file="src/selftest.rs",
                     functions=[dict(name="f", lean="f", header="fn f(v: &[u8], n: usize) -> usize",
                                     params=[("v", "&[u8]"), ("n", "usize")], ret="usize")])
            try:
                translate_unit(gen_tables.Src(tmp, "src/selftest.rs"), u, refuse)
                print("selftest: NOT refused: %s" % body)
                ok = False
            except Refused as r:
                if not re.search(expect, str(r)):
                    print("selftest: refused for another reason: %s: %s" % (body, r))
                    ok = False
    finally:
        shutil.rmtree(tmp, ignore_errors=True)
    print("selftest: " + ("ok" if ok else "FAILED"))
    sys.exit(0 if ok else 1)


def main():
    ap = argparse.ArgumentParser()
    ap.add_argument("--repo", default=os.environ.get("VERIF_REPO", "/repo"))
    ap.add_argument("--unit", help="one of: " + ", ".join(sorted(UNITS)))
    ap.add_argument("--selftest", action="store_true", help="translate built-in snippets; refuse built-in non-subset ones")
    ap.add_argument("--lean", action="store_true", help="with --selftest: also compile and evaluate the result with lean")
    a = ap.parse_args()
    if a.selftest:
        selftest(a.lean)
    sys.path.insert(0, os.path.dirname(os.path.abspath(__file__)))
    import gen_tables
    if a.unit not in UNITS:
        gen_tables.fail("rs2lean: unknown unit %s" % a.unit)
    u = UNITS[a.unit]
    src = gen_tables.Src(a.repo, u["file"])
    text, _ = translate_unit(src, u, gen_tables.fail)
    sys.stdout.write(text)


if __name__ == "__main__":
    main()
