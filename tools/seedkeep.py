#!/usr/bin/env python3
"""Keep a confirmed seeded defect: tools/seedkeep.py <src dir> — copies patch.diff, demo.rs and a merged meta.json
(the author's description + what the coordinator ran and observed, from result.json) to seeded/<name>/."""
import sys, os, json, shutil
ROOT = os.path.dirname(os.path.dirname(os.path.abspath(__file__)))
src = os.path.abspath(sys.argv[1])
name = os.path.basename(src)
dst = os.path.join(ROOT, "seeded", name)
os.makedirs(dst, exist_ok=True)
for f in ("patch.diff", "demo.rs"):
    if os.path.exists(os.path.join(src, f)):
        shutil.copyfile(os.path.join(src, f), os.path.join(dst, f))
meta = json.load(open(os.path.join(src, "meta.json"))) if os.path.exists(os.path.join(src, "meta.json")) else {}
res = json.load(open(os.path.join(src, "result.json")))
harmless = meta.get("kind") == "harmless"
if harmless:
    # a property-preserving change: the property sweeps of the demonstration must pass with the patch (only tests pinning
    # the old, unspecified behaviour may fail) and the repository's suite must pass
    ok = res.get("patch_applies") and res.get("demo_passes_unmodified") and res.get("harmless_sweeps_pass_with_patch") and res.get("suite_passes_with_patch")
else:
    ok = res.get("patch_applies") and res.get("demo_passes_unmodified") and res.get("demo_fails_with_patch") and res.get("suite_passes_with_patch")
out = {
    "property": res["property"],
    "kind": "property-preserving (the check must stay silent)" if harmless else "property-breaking (the check must report a violation)",
    "summary": meta.get("summary", ""),
    "clause_broken": meta.get("clause_broken", ""),
    "why_property_still_holds": meta.get("why_property_still_holds", ""),
    "observable_difference": meta.get("observable_difference", ""),
    "failing_example": meta.get("failing_example", ""),
    "needs": meta.get("needs", ""),
    "author_ran": meta.get("ran", []),
    "confirmed_by_coordinator": {
        "how": "tools/seedtest.py in a scratch worktree of /repo (/var/tmp/seedwt/wt): demo on unmodified tree, git apply, demo with patch, cargo test --offline --no-fail-fast with patch, VERIF_REPO=<worktree> ./check <property> --tier quick",
        "patch_applies": res.get("patch_applies"),
        "demo_passes_unmodified": res.get("demo_passes_unmodified"),
        "demo_fails_with_patch": res.get("demo_fails_with_patch"),
        "suite_passes_with_patch": res.get("suite_passes_with_patch"),
        "all_confirmed": bool(ok),
    },
    "quick_check_caught": res.get("caught"),
    "quick_check_false_alarm": res.get("false_alarm") if harmless else None,
    "demo_failed_tests_with_patch": res.get("demo_failed_tests_with_patch"),
    "first_run_before_correction": res.get("first_run_before_correction"),
    "check_wall_s": res.get("check_s"),
    "first_replay": res.get("first_replay"),
}
json.dump(out, open(os.path.join(dst, "meta.json"), "w"), indent=1)
if harmless:
    print(name, "kept;", "confirmed" if ok else "NOT CONFIRMED", "; FALSE ALARM" if res.get("false_alarm") else "; silent")
else:
    print(name, "kept;", "confirmed" if ok else "NOT CONFIRMED", "; caught" if res.get("caught") else "; MISSED")
